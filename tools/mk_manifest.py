#!/usr/bin/env python3
"""Writes /verif/MANIFEST.json from the table below (kept valid against /root/.vp/MANIFEST.schema.json)."""
import json
from pathlib import Path

VERIF = Path(__file__).resolve().parent.parent
ALL = [f"C{i:02d}" for i in range(1, 19)]

COMMON_NOTE = ("Trusted: Coq 8.16.1 kernel; hand-written Gallina model tied to /repo by a differential correspondence run "
               "(extracted OCaml driver, ExtrOcamlBasic+ExtrOcamlString only, 1% re-evaluated by vm_compute) and by tables regenerated from the source; "
               "Python harness; CPython/third-party libraries modelled. No axioms (Print Assumptions: closed). ")

CLAIMS = {
    "C16": dict(
        text="Theorem C16_exact: for every digest function, every set.pop() behaviour and every list of distinct files the model of "
             "find_duplicates returns exactly the content-equivalence classes of size >= 2 among non-link members (groups internally equal, "
             "pairwise different, complete, no unique file), and never runs out of fuel. The model is tied to report.find_duplicates by a "
             "differential run on generated code bases (two model instances with deliberately colliding digests vs the implementation vs a byte partition).",
        design_ref="DESIGN.md section 5, C16",
        note=COMMON_NOTE + "Assumes filecmp.cmp(shallow=False) is byte equality and CodeBase iteration yields each member once.",
        technique="Coq proof (invariant over the bucket fold + fuelled loop spec) + differential correspondence via extracted model",
    ),
}

PENDING_REASON = "check not built yet at this commit (work in progress; design in DESIGN.md section 5) - not claimed until its proof and correspondence run"


def main():
    checks = []
    for pid in ALL:
        if pid not in CLAIMS:
            continue
        c = CLAIMS[pid]
        checks.append({
            "property_id": pid,
            "quick_cmd": f"./check {pid} --tier quick",
            "thorough_cmd": f"./check {pid} --tier thorough",
            "evidence_file": f"/verif/evidence/{pid}.json",
            "replay_cmd_template": f"./check {pid} --replay {{path}}",
            "engine": "coq-model-correspondence",
            "level_claimed": {"category": c.get("category", "proof"), "text": c["text"], "design_ref": c["design_ref"]},
            "level_note": c["note"],
            "technique": c["technique"],
        })
    na = [{"property_id": p, "reason": CLAIMS.get(p, {}).get("na_reason", PENDING_REASON)} for p in ALL if p not in CLAIMS]
    m = {
        "version": 1,
        "setup_cmd": "./setup",
        "hooks": {
            "guard": "CODEBASIN_VERIF",
            "enable": "no instrumentation hooks are needed: every observation point is a public function, node attribute, log record or CLI output; the guard name is reserved and tested by no source line",
            "baseline_off_cmd": "cd /repo && /venv/bin/python -m pytest -ra -q -p no:cacheprovider --timeout=900 --continue-on-collection-errors",
            "source_commits": [],
            "add_only": True,
        },
        "engines": [{
            "name": "coq-model-correspondence",
            "path": "/verif/check",
            "serves_properties": [c["property_id"] for c in checks],
            "kind_free_text": "Coq 8.16 theorems about hand-written Gallina models (coq/theories), tables regenerated from /repo, differential correspondence of the extracted model against the Python implementation (harness/)",
        }],
        "checks": checks,
        "notes": "Single entry point ./check <id> --tier quick|thorough [--replay f]. known_findings.json lists recorded findings and fixed defects.",
        "not_applicable": na,
    }
    (VERIF / "MANIFEST.json").write_text(json.dumps(m, indent=1) + "\n")
    try:
        import jsonschema
        jsonschema.validate(m, json.load(open("/root/.vp/MANIFEST.schema.json")))
        print("MANIFEST.json valid;", len(checks), "checks,", len(na), "not claimed")
    except ImportError:
        print("written (jsonschema not available)")


if __name__ == "__main__":
    main()
