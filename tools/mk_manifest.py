#!/usr/bin/env python3
"""Writes /verif/MANIFEST.json from the table below (kept valid against /root/.vp/MANIFEST.schema.json)."""
import json
from pathlib import Path

VERIF = Path(__file__).resolve().parent.parent
ALL = [f"C{i:02d}" for i in range(1, 19)]

CLAIMS = {p.stem: json.loads(p.read_text()) for p in sorted((VERIF / "claims").glob("C*.json"))}
NA = {}
if (VERIF / "claims" / "not_applicable.json").exists():
    NA = json.loads((VERIF / "claims" / "not_applicable.json").read_text())

PENDING_REASON = "check not built yet at this commit (work in progress; design in DESIGN.md section 5) - not claimed until its proof and correspondence run"


def main():
    checks = []
    for pid in ALL:
        if pid not in CLAIMS:
            continue
        c = CLAIMS[pid]
        checks.append({
            "property_id": pid,
            "quick_cmd": f"./check {pid} --tier quick",
            "thorough_cmd": f"./check {pid} --tier thorough",
            "evidence_file": f"/verif/evidence/{pid}.json",
            "replay_cmd_template": f"./check {pid} --replay {{path}}",
            "engine": "coq-model-correspondence",
            "level_claimed": {"category": c.get("category", "proof"), "text": c["text"], "design_ref": c["design_ref"]},
            "level_note": c["note"],
            "technique": c["technique"],
        })
    na = [{"property_id": p, "reason": NA.get(p, PENDING_REASON)} for p in ALL if p not in CLAIMS]
    # known findings: assembled from findings/Cxx.json fragments ({"findings": [...], "fixed": [...]})
    kf = {"findings": [], "fixed": []}
    for fp in sorted((VERIF / "findings").glob("C*.json")):
        frag = json.loads(fp.read_text())
        kf["findings"] += frag.get("findings", [])
        kf["fixed"] += frag.get("fixed", [])
    (VERIF / "known_findings.json").write_text(json.dumps(kf, indent=1) + "\n")
    m = {
        "version": 1,
        "setup_cmd": "./setup",
        "hooks": {
            "guard": "CODEBASIN_VERIF",
            "enable": "no instrumentation hooks are needed: every observation point is a public function, node attribute, log record or CLI output; the guard name is reserved and tested by no source line",
            "baseline_off_cmd": "cd /repo && /venv/bin/python -m pytest -ra -q -p no:cacheprovider --timeout=900 --continue-on-collection-errors",
            "source_commits": [],
            "add_only": True,
        },
        "engines": [{
            "name": "coq-model-correspondence",
            "path": "/verif/check",
            "serves_properties": [c["property_id"] for c in checks],
            "kind_free_text": "Coq 8.16 theorems about hand-written Gallina models (coq/theories), tables regenerated from /repo, differential correspondence of the extracted model against the Python implementation (harness/)",
        }],
        "checks": checks,
        "notes": "Single entry point ./check <id> --tier quick|thorough [--replay f]. known_findings.json lists recorded findings and fixed defects.",
        "not_applicable": na,
    }
    (VERIF / "MANIFEST.json").write_text(json.dumps(m, indent=1) + "\n")
    try:
        import jsonschema
        jsonschema.validate(m, json.load(open("/root/.vp/MANIFEST.schema.json")))
        print("MANIFEST.json valid;", len(checks), "checks,", len(na), "not claimed")
    except ImportError:
        print("written (jsonschema not available)")


if __name__ == "__main__":
    main()
