#!/usr/bin/env python3
"""Translator: regenerates coq/theories/Gen/*.v from /repo's CURRENT source.

usage: gen_tables.py <repo> <outdir>

Every module tools/gen/*.py provides  generate(repo: Path) -> dict[filename, coq_text].
The modules parse the source with `ast` / `tomllib` (they never import or run
codebasin) and are fail-closed: an unexpected shape raises, which the checks
report as a broken tie (VIOLATION ... no-failing-input-found unless a failing
input is found).  Files are rewritten only when their content changes.
A module that fails does not stop the others: each property depends only on
its own Gen files (a missing/stale file then breaks only that property's build)."""
import importlib.util
import sys
import traceback
from pathlib import Path

HERE = Path(__file__).resolve().parent


def main():
    repo = Path(sys.argv[1])
    out = Path(sys.argv[2])
    out.mkdir(parents=True, exist_ok=True)
    rc = 0
    for mod_path in sorted((HERE / "gen").glob("*.py")):
        spec = importlib.util.spec_from_file_location(mod_path.stem, mod_path)
        mod = importlib.util.module_from_spec(spec)
        try:
            spec.loader.exec_module(mod)
            files = mod.generate(repo)
        except Exception:
            print(f"gen_tables: {mod_path.name} FAILED on the current source:")
            traceback.print_exc()
            # remove its outputs so that dependants fail to build instead of using stale tables
            for name in getattr(mod, "OUTPUTS", []):
                for suffix in ("", "o", "os", "ok"):
                    (out / (name + suffix)).unlink(missing_ok=True)
            rc = 1
            continue
        for name, text in files.items():
            p = out / name
            text = "(* GENERATED from /repo by tools/gen/%s - do not edit *)\n" % mod_path.name + text
            if not p.exists() or p.read_text() != text:
                p.write_text(text)
    sys.exit(rc)


if __name__ == "__main__":
    main()
