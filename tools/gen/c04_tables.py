"""Translator for C04: how config.ArgumentParser.parse_args turns -I / -isystem into the ordered
search list of a PreprocessorConfiguration.

Reads (ast, fail-closed) from codebasin/config.py
  * the `dest` of the add_argument call(s) registering "-I" and "-isystem" in parse_args,
  * the second positional argument of the PreprocessorConfiguration(...) call in parse_args.
Emits  isystem_shares_dest : bool  and  config_paths : paths_expr."""
import ast
from pathlib import Path

OUTPUTS = ["C04_tables.v"]


def generate(repo: Path):
    tree = ast.parse((repo / "codebasin" / "config.py").read_text())
    fn = None
    for n in ast.walk(tree):
        if isinstance(n, ast.ClassDef) and n.name == "ArgumentParser":
            for m in n.body:
                if isinstance(m, ast.FunctionDef) and m.name == "parse_args":
                    fn = m
    if fn is None:
        raise ValueError("ArgumentParser.parse_args not found")
    dests = {}
    for c in ast.walk(fn):
        if isinstance(c, ast.Call) and isinstance(c.func, ast.Attribute) and c.func.attr == "add_argument":
            flags = [a.value for a in c.args if isinstance(a, ast.Constant) and isinstance(a.value, str)]
            if "-I" in flags or "-isystem" in flags:
                kw = {k.arg: k.value for k in c.keywords}
                if "dest" not in kw or not isinstance(kw["dest"], ast.Constant) or not isinstance(kw["dest"].value, str):
                    raise ValueError("-I/-isystem registered without a literal dest")
                if not (isinstance(kw.get("action"), ast.Constant) and kw["action"].value == "append"):
                    raise ValueError("-I/-isystem not registered with action='append'")
                for f in flags:
                    if f in ("-I", "-isystem"):
                        if f in dests:
                            raise ValueError(f"{f} registered twice")
                        dests[f] = kw["dest"].value
    if set(dests) != {"-I", "-isystem"}:
        raise ValueError(f"expected registrations of -I and -isystem, found {sorted(dests)}")
    if dests["-I"] != "include_paths":
        raise ValueError("dest of -I is not include_paths")
    calls = [c for c in ast.walk(fn) if isinstance(c, ast.Call) and isinstance(c.func, ast.Name)
             and c.func.id == "PreprocessorConfiguration"]
    if len(calls) != 1 or len(calls[0].args) < 2:
        raise ValueError("expected exactly one PreprocessorConfiguration(...) call with positional arguments")
    e = ast.unparse(calls[0].args[1]).replace(" ", "")
    shares = dests["-isystem"] == dests["-I"]
    sysdest = dests["-isystem"]
    if e == "args.include_paths.copy()":
        expr = "PathsOnly"
    elif e == f"args.include_paths+args.{sysdest}" and not shares:
        expr = "PathsThenSystem"
    elif e == f"args.{sysdest}+args.include_paths" and not shares:
        expr = "SystemThenPaths"
    else:
        raise ValueError(f"unexpected include-path expression: {e}")
    txt = ["(* how parse_args builds the search list: see tools/gen/c04_tables.py *)",
           "Inductive paths_expr := PathsOnly | PathsThenSystem | SystemThenPaths.",
           f"Definition isystem_shares_dest : bool := {'true' if shares else 'false'}.",
           f"Definition config_paths : paths_expr := {expr}.", ""]
    return {"C04_tables.v": "\n".join(txt)}
