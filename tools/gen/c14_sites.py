"""C14 translator: which iteration / sort / accumulation form does the source use
at the places the determinism theorems are about?  Parses with `ast` only.
Fail-closed: every site must match one of the listed shapes, anything else raises.

Output Gen/C14_sites.v: one constant per site; Model/C14g.v selects the model
variant from them and Props/C14.v proves that the selected variants are the
permutation-invariant ones (so reverting a repair breaks the proof build)."""
import ast
from pathlib import Path

OUTPUTS = ["C14_sites.v"]


def _func(tree, *names):
    node = tree
    for n in names:
        for child in ast.walk(node):
            if isinstance(child, (ast.FunctionDef, ast.ClassDef)) and child.name == n:
                node = child
                break
        else:
            raise ValueError(f"cannot find {'.'.join(names)}")
    return node


def _expr(src):
    return ast.dump(ast.parse(src, mode="eval").body)


def _match(node, alternatives, what):
    d = ast.dump(node)
    for value, srcs in alternatives.items():
        if d in [_expr(s) for s in srcs]:
            return value
    raise ValueError(f"unexpected shape at {what}: {ast.unparse(node)}")


def _only(nodes, what):
    nodes = list(nodes)
    if len(nodes) != 1:
        raise ValueError(f"expected exactly one {what}, found {len(nodes)}")
    return nodes[0]


def _assign_to(fn, name):
    return _only((n for n in ast.walk(fn) if isinstance(n, ast.Assign) and len(n.targets) == 1
                  and isinstance(n.targets[0], ast.Name) and n.targets[0].id == name), f"assignment to {name} in {fn.name}").value


def generate(repo: Path):
    report = ast.parse((repo / "codebasin" / "report.py").read_text())
    init = ast.parse((repo / "codebasin" / "__init__.py").read_text())
    cov = ast.parse((repo / "codebasin" / "coverage" / "__main__.py").read_text())

    # summary: the loop over the rows
    fn = _func(report, "summary")
    loop = _only((n for n in ast.walk(fn) if isinstance(n, ast.For) and isinstance(n.target, ast.Name) and n.target.id == "pset"),
                 "loop over pset in summary")
    key = _match(loop.iter, {"KeyLenNames": ["sorted(setmap.keys(), key=lambda s: (len(s), sorted(s)))"],
                             "KeyLen": ["sorted(setmap.keys(), key=len)"]}, "summary row order")
    names = _match(_assign_to(fn, "name"), {"true": ['"{" + ", ".join(sorted(pset)) + "}"']}, "summary row name")

    # distance: the accumulation and the return
    fn = _func(report, "distance")
    loops = [n for n in fn.body if isinstance(n, ast.For)]
    if len(loops) != 2:
        raise ValueError("distance: expected two loops")
    acc = _only((n for n in ast.walk(loops[1]) if isinstance(n, ast.AugAssign)), "accumulation in distance")
    if not (isinstance(acc.target, ast.Name) and acc.target.id == "d" and isinstance(acc.op, ast.Add)):
        raise ValueError("distance: unexpected accumulation")
    rets = [n for n in ast.walk(fn) if isinstance(n, ast.Return)]
    form = (_match(acc.value, {"int": ["count"], "float": ["count / float(total)"]}, "distance accumulation"),
            tuple(sorted(_match(r.value, {"div": ["d / float(total)"], "plain": ["d"], "nan": ['float("nan")']}, "distance return") for r in rets)))
    if form[0] == "int" and "div" in form[1] and "plain" not in form[1]:
        dist = "DistIntOnce"
    elif form[0] == "float" and "plain" in form[1] and "div" not in form[1]:
        dist = "DistPerRow"
    else:
        raise ValueError(f"distance: unexpected combination {form}")

    plat_alts = {"true": ["sorted(extract_platforms(setmap))"], "false": ["extract_platforms(setmap)"]}
    div_sorted = _match(_assign_to(_func(report, "divergence"), "platforms"), plat_alts, "divergence platforms")
    clu_sorted = _match(_assign_to(_func(report, "clustering"), "platforms"), plat_alts, "clustering platforms")

    dup_sorted = _match(_assign_to(_func(report, "duplicates"), "confirmed_matches"),
                        {"true": ["sorted(sorted(m) for m in find_duplicates(codebase))"],
                         "false": ["find_duplicates(codebase)"]}, "duplicates print order")

    fn = _func(report, "FileTree", "Node", "_platforms_str")
    loop = _only((n for n in ast.walk(fn) if isinstance(n, ast.For)), "loop in _platforms_str")
    letters = _match(loop.iter, {"true": ["enumerate(sorted(all_platforms))"], "false": ["enumerate(all_platforms)"]}, "tree letters")
    fn = _func(report, "files")
    loop = _only((n for n in ast.walk(fn) if isinstance(n, ast.For) and isinstance(n.target, ast.Tuple)), "legend loop in files")
    legend = _match(loop.iter, {"true": ["enumerate(sorted(tree.root.platforms))"], "false": ["enumerate(tree.root.platforms)"]}, "tree legend")
    loop = _only((n for n in ast.walk(fn) if isinstance(n, ast.For) and isinstance(n.target, ast.Name) and n.target.id == "f"), "file loop in files")
    files_iter = _match(loop.iter, {"true": ["codebase"]}, "files iteration")

    fn = _func(init, "CodeBase", "__iter__")
    loop = _only((n for n in ast.walk(fn) if isinstance(n, ast.For) and isinstance(n.target, ast.Name) and n.target.id == "path"), "rglob loop")
    it_sorted = _match(loop.iter, {"true": ['sorted(Path(directory).rglob("*"))'], "false": ['Path(directory).rglob("*")']}, "CodeBase.__iter__")

    fn = _func(cov, "_compute")
    loop = _only((n for n in ast.walk(fn) if isinstance(n, ast.For) and isinstance(n.target, ast.Name) and n.target.id == "filename"), "export loop")
    cov_iter = _match(loop.iter, {"true": ["codebase"]}, "coverage export iteration")

    text = f"""(* which form the source uses at the order-sensitive sites *)
Inductive sort_key_kind := KeyLen | KeyLenNames.
Inductive distance_kind := DistPerRow | DistIntOnce.
Definition site_summary_key : sort_key_kind := {key}.
Definition site_summary_names_sorted : bool := {names}.
Definition site_distance : distance_kind := {dist}.
Definition site_divergence_sorted : bool := {div_sorted}.
Definition site_clustering_sorted : bool := {clu_sorted}.
Definition site_duplicates_sorted : bool := {dup_sorted}.
Definition site_tree_letters_sorted : bool := {letters}.
Definition site_tree_legend_sorted : bool := {legend}.
Definition site_iter_sorted : bool := {it_sorted}.
Definition site_tree_iterates_codebase : bool := {files_iter}.
Definition site_export_iterates_codebase : bool := {cov_iter}.
"""
    return {"C14_sites.v": text}
