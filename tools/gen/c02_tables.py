"""C02 translator: the tables ExpressionEvaluator is driven by  ->  Gen/C02_tables.v

Parses codebasin/preprocessor.py with `ast` only (never imports codebasin) and is
fail-closed: every shape that is not exactly the expected one raises.

Emitted:
  unary_operators, binary_operators : list (string * (nat * assoc))   (class attributes, dict order)
  literal_default_base                                                  (`base = 10` in term)
  literal_bases : list (string * Z)                                     (`bases = {...}` in term)
  literal_zero_prefix, literal_zero_base                                (`if value.startswith("0"): base = 8`)
  literal_suffixes : list string                                        (`suffixes = [...]` in term, in order)
  unsigned_marker : string                                              (`"u" in suffix.lower()`)
  simple_escapes : list (string * Z)                                    (__character_value)
  lexer_whitespace : list Z (character codes)                           (Lexer.whitespace)
  lexer_exponents, lexer_operators, lexer_punctuators : list string     (Lexer.number/operator/punctuator, in order)
  lexer_candidates : list string                                        (Lexer.tokenize_one: method names, in order)
"""
import ast
from pathlib import Path

OUTPUTS = ["C02_tables.v"]


class Shape(Exception):
    pass


def need(cond, what):
    if not cond:
        raise Shape("unexpected source shape: " + what)


def coq_string(s):
    need(isinstance(s, str), "string expected")
    need(all(32 <= ord(c) < 127 for c in s), f"non-printable character in {s!r}")
    return '"' + s.replace('"', '""') + '"'


def const(node, typ, what):
    need(isinstance(node, ast.Constant) and type(node.value) is typ, what)
    return node.value


def find_class(mod, name):
    hits = [n for n in mod.body if isinstance(n, ast.ClassDef) and n.name == name]
    need(len(hits) == 1, f"exactly one class {name}")
    return hits[0]


def find_func(cls, name):
    hits = [n for n in cls.body if isinstance(n, ast.FunctionDef) and n.name == name]
    need(len(hits) == 1, f"exactly one method {name}")
    return hits[0]


def class_assign(cls, name):
    hits = [n for n in cls.body if isinstance(n, ast.Assign) and len(n.targets) == 1
            and isinstance(n.targets[0], ast.Name) and n.targets[0].id == name]
    need(len(hits) == 1, f"exactly one class-level assignment to {name}")
    return hits[0].value


def local_assigns(fn, name):
    out = []
    for n in ast.walk(fn):
        if isinstance(n, ast.Assign) and len(n.targets) == 1 and isinstance(n.targets[0], ast.Name) \
                and n.targets[0].id == name:
            out.append(n)
    return out


def op_table(cls, name):
    d = class_assign(cls, name)
    need(isinstance(d, ast.Dict), f"{name} is a dict display")
    rows = []
    for k, v in zip(d.keys, d.values):
        key = const(k, str, f"{name}: string key")
        need(isinstance(v, ast.Call) and isinstance(v.func, ast.Name) and v.func.id == "OpInfo"
             and len(v.args) == 2 and not v.keywords, f"{name}[{key!r}] is OpInfo(prec, assoc)")
        prec = const(v.args[0], int, f"{name}[{key!r}].prec is an int literal")
        need(0 <= prec <= 1000, "precedence in range")
        assoc = const(v.args[1], str, f"{name}[{key!r}].assoc is a string literal")
        need(assoc in ("LEFT", "RIGHT"), f"{name}[{key!r}].assoc is LEFT or RIGHT")
        rows.append((key, prec, assoc))
    need(len({r[0] for r in rows}) == len(rows), f"{name}: duplicate key")
    need(rows, f"{name} is not empty")
    return rows


def generate(repo: Path):
    src = (Path(repo) / "codebasin" / "preprocessor.py").read_text()
    mod = ast.parse(src)
    cls = find_class(mod, "ExpressionEvaluator")
    # OpInfo = collections.namedtuple("OpInfo", ["prec", "assoc"])
    oi = class_assign(cls, "OpInfo")
    need(isinstance(oi, ast.Call) and len(oi.args) == 2 and isinstance(oi.args[1], ast.List)
         and [const(e, str, "field") for e in oi.args[1].elts] == ["prec", "assoc"], "OpInfo fields are (prec, assoc)")
    unary = op_table(cls, "UnaryOperators")
    binary = op_table(cls, "BinaryOperators")

    term = find_func(cls, "term")
    # base = 10  (the first assignment to base), base = bases[prefix], base = 8 under `if value.startswith("0")`
    b_assigns = local_assigns(term, "base")
    consts = [a for a in b_assigns if isinstance(a.value, ast.Constant)]
    subs = [a for a in b_assigns if isinstance(a.value, ast.Subscript)]
    need(len(subs) == 1 and isinstance(subs[0].value.value, ast.Name) and subs[0].value.value.id == "bases"
         and isinstance(subs[0].value.slice, ast.Name) and subs[0].value.slice.id == "prefix", "base = bases[prefix]")
    need(len(consts) in (1, 2) and len(b_assigns) == len(consts) + 1, "assignments to base: default, bases[prefix], optional octal")
    default_base = const(consts[0].value, int, "default base")
    zero_prefix, zero_base = None, None
    ifs = [n for n in ast.walk(term) if isinstance(n, ast.If) and any(a in n.body for a in consts)]
    if len(consts) == 2:
        need(len(ifs) == 1 and len(ifs[0].body) == 1 and not ifs[0].orelse, "one `if` guarding the second base assignment")
        t = ifs[0].test
        need(isinstance(t, ast.Call) and isinstance(t.func, ast.Attribute) and t.func.attr == "startswith"
             and isinstance(t.func.value, ast.Name) and t.func.value.id == "value" and len(t.args) == 1,
             "if value.startswith(<const>)")
        zero_prefix = const(t.args[0], str, "startswith argument")
        zero_base = const(consts[1].value, int, "octal base")
    else:
        need(not ifs, "default base assignment is unconditional")
    # prefix = constant.token[0:2]
    pa = local_assigns(term, "prefix")
    need(len(pa) == 1 and isinstance(pa[0].value, ast.Subscript) and isinstance(pa[0].value.slice, ast.Slice)
         and const(pa[0].value.slice.lower, int, "slice") == 0 and const(pa[0].value.slice.upper, int, "slice") == 2
         and pa[0].value.slice.step is None, "prefix = constant.token[0:2]")
    ba = local_assigns(term, "bases")
    need(len(ba) == 1 and isinstance(ba[0].value, ast.Dict), "bases = {...}")
    bases = [(const(k, str, "bases key"), const(v, int, "bases value")) for k, v in zip(ba[0].value.keys, ba[0].value.values)]
    need(len({k for k, _ in bases}) == len(bases) and all(len(k) == 2 for k, _ in bases), "bases keys: distinct, two characters")
    need(all(v in (2, 8, 10, 16) for _, v in bases) and default_base in (2, 8, 10, 16)
         and (zero_base is None or zero_base in (2, 8, 10, 16)), "bases are 2, 8, 10 or 16 (what the model of int() covers)")
    sa = local_assigns(term, "suffixes")
    need(len(sa) == 1 and isinstance(sa[0].value, ast.List), "suffixes = [...]")
    suffixes = [const(e, str, "suffix") for e in sa[0].value.elts]
    need(all(suffixes), "no empty suffix")
    # `if suffix and "u" in suffix.lower():`
    marks = []
    for n in ast.walk(term):
        if isinstance(n, ast.Compare) and len(n.ops) == 1 and isinstance(n.ops[0], ast.In) \
                and isinstance(n.left, ast.Constant) and isinstance(n.comparators[0], ast.Call) \
                and isinstance(n.comparators[0].func, ast.Attribute) and n.comparators[0].func.attr == "lower":
            marks.append(const(n.left, str, "marker"))
    need(len(marks) == 1 and len(marks[0]) == 1 and marks[0].islower(), 'one test `"u" in suffix.lower()`')

    cv = find_func(cls, "__character_value")
    ea = local_assigns(cv, "simple_escapes")
    need(len(ea) == 1 and isinstance(ea[0].value, ast.Dict), "simple_escapes = {...}")
    escapes = [(const(k, str, "escape key"), const(v, int, "escape value")) for k, v in zip(ea[0].value.keys, ea[0].value.values)]
    need(len({k for k, _ in escapes}) == len(escapes), "distinct escape keys")

    # ---- Lexer
    lex = find_class(mod, "Lexer")

    def str_list(node, what):
        need(isinstance(node, ast.List), what + " is a list display")
        return [const(e, str, what + " element") for e in node.elts]

    ws = find_func(lex, "whitespace")
    ws_lists = [n for n in ast.walk(ws) if isinstance(n, ast.Compare) and len(n.ops) == 1 and isinstance(n.ops[0], ast.In)]
    need(len(ws_lists) == 1, "one `in [...]` test in Lexer.whitespace")
    whitespace = str_list(ws_lists[0].comparators[0], "whitespace")
    need(all(len(c) == 1 and ord(c) < 128 for c in whitespace), "whitespace: single ASCII characters")
    ex = local_assigns(find_func(lex, "number"), "exponents")
    need(len(ex) == 1, "exponents = [...]")
    exponents = str_list(ex[0].value, "exponents")
    need(all(len(x) == 2 for x in exponents), "exponents have two characters")
    oa = local_assigns(find_func(lex, "operator"), "operators")
    need(len(oa) == 1, "operators = ...")
    ov = oa[0].value
    if isinstance(ov, ast.BinOp):
        need(isinstance(ov.op, ast.Add), "operators = [...] + [...]")
        operators = str_list(ov.left, "operators") + str_list(ov.right, "operators")
    else:
        operators = str_list(ov, "operators")
    pa2 = local_assigns(find_func(lex, "punctuator"), "punctuators")
    need(len(pa2) == 1, "punctuators = [...]")
    punctuators = str_list(pa2[0].value, "punctuators")
    need(all(operators) and all(punctuators), "no empty operator/punctuator")
    ca = local_assigns(find_func(lex, "tokenize_one"), "candidates")
    need(len(ca) == 1 and isinstance(ca[0].value, ast.List), "candidates = [...]")
    candidates = []
    for e in ca[0].value.elts:
        need(isinstance(e, ast.Attribute) and isinstance(e.value, ast.Name) and e.value.id == "self", "candidate is self.<method>")
        candidates.append(e.attr)

    def rows(tbl):
        return ";\n   ".join(f"({coq_string(k)}, ({p}%nat, {a}))" for k, p, a in tbl)

    def zrows(tbl):
        return ";\n   ".join(f"({coq_string(k)}, {v}%Z)" for k, v in tbl)
    text = f"""From Coq Require Import String ZArith List.
Import ListNotations.
Local Open Scope string_scope.

Inductive assoc := LEFT | RIGHT.

(* ExpressionEvaluator.UnaryOperators *)
Definition unary_operators : list (string * (nat * assoc)) :=
  [{rows(unary)}].

(* ExpressionEvaluator.BinaryOperators *)
Definition binary_operators : list (string * (nat * assoc)) :=
  [{rows(binary)}].

(* ExpressionEvaluator.term: base selection *)
Definition literal_default_base : Z := {default_base}%Z.
Definition literal_bases : list (string * Z) :=
  [{zrows(bases)}].
Definition literal_zero_rule : option (string * Z) :=
  {"None" if zero_prefix is None else f"Some ({coq_string(zero_prefix)}, {zero_base}%Z)"}.

(* ExpressionEvaluator.term: suffixes, in the order they are tried *)
Definition literal_suffixes : list string :=
  [{"; ".join(coq_string(s) for s in suffixes)}].
Definition unsigned_marker : string := {coq_string(marks[0])}.

(* ExpressionEvaluator.__character_value *)
Definition simple_escapes : list (string * Z) :=
  [{zrows(escapes)}].

(* Lexer *)
Definition lexer_whitespace : list Z := [{"; ".join(str(ord(c)) + "%Z" for c in whitespace)}].
Definition lexer_exponents : list string := [{"; ".join(coq_string(x) for x in exponents)}].
Definition lexer_operators : list string := [{"; ".join(coq_string(x) for x in operators)}].
Definition lexer_punctuators : list string := [{"; ".join(coq_string(x) for x in punctuators)}].
Definition lexer_candidates : list string := [{"; ".join(coq_string(x) for x in candidates)}].
"""
    return {"C02_tables.v": text}
