"""C18 translator: the data the warning machinery is driven by, read from the
repo's CURRENT source with ast / tomllib (never imported, never executed).

  codebasin/file_parser.py   FileParser.insert_directive_node: the `unhandled` list (the test that
                             uses it is LOGIC: modelled by hand, checked by the differential run)
  codebasin/_detail/logging.py  WarningAggregator.__init__: the (regex, message) pairs of the
                             MetaWarnings, in order; the message is split at its single "{}"
  codebasin/config.py        ArgumentParser.parse_args: the options registered for every compiler
  codebasin/compilers/*.toml compiler names, aliases, default options, registered flags
  codebasin/source.py        is_source_file: supported extensions

Fail-closed: any unexpected shape raises."""
import ast
import tomllib
from pathlib import Path

OUTPUTS = ["C18_tables.v"]


def coq_str(s: str) -> str:
    """A Coq term of type string (newlines and quotes spelled with nl / dq)."""
    parts = []
    cur = ""
    for ch in s:
        if ch == "\n":
            if cur:
                parts.append('"%s"' % cur)
            cur = ""
            parts.append("nl")
        elif ch == '"':
            if cur:
                parts.append('"%s"' % cur)
            cur = ""
            parts.append("dq")
        elif 32 <= ord(ch) < 127:
            cur += ch
        else:
            raise ValueError(f"non-printable character in table string: {s!r}")
    if cur:
        parts.append('"%s"' % cur)
    if not parts:
        return '""'
    return "(" + " ++ ".join(parts) + ")" if len(parts) > 1 else parts[0]


def coq_list(items):
    return "[" + "; ".join(items) + "]"


def find_func(tree, cls, name):
    for n in tree.body:
        if isinstance(n, ast.ClassDef) and n.name == cls:
            for m in n.body:
                if isinstance(m, ast.FunctionDef) and m.name == name:
                    return m
    raise ValueError(f"{cls}.{name} not found")


def const_str(e):
    """Fold a string expression built from constants and +."""
    if isinstance(e, ast.Constant) and isinstance(e.value, str):
        return e.value
    if isinstance(e, ast.BinOp) and isinstance(e.op, ast.Add):
        return const_str(e.left) + const_str(e.right)
    raise ValueError("not a constant string expression: " + ast.dump(e))


def unhandled_list(repo):
    tree = ast.parse((repo / "codebasin/file_parser.py").read_text())
    f = find_func(tree, "FileParser", "insert_directive_node")
    found = None
    guard = None
    for n in ast.walk(f):
        if isinstance(n, ast.Assign) and len(n.targets) == 1 and isinstance(n.targets[0], ast.Name) \
                and n.targets[0].id == "unhandled":
            if not isinstance(n.value, ast.List):
                raise ValueError("unhandled is not a list literal")
            found = [const_str(x) for x in n.value.elts]
        if isinstance(n, ast.If) and "unhandled" in ast.dump(n.test):
            guard = ast.unparse(n.test)
    if found is None:
        raise ValueError("no `unhandled = [...]` in insert_directive_node")
    if guard is None:
        raise ValueError("no test mentions `unhandled`")
    return found


REGEX_META = set(".^$*+?{}[]\\|()")


def meta_warnings(repo):
    tree = ast.parse((repo / "codebasin/_detail/logging.py").read_text())
    f = find_func(tree, "WarningAggregator", "__init__")
    out = None
    for n in ast.walk(f):
        if isinstance(n, ast.Assign) and ast.unparse(n.targets[0]) == "self.meta_warnings":
            if not isinstance(n.value, ast.List):
                raise ValueError("meta_warnings is not a list literal")
            out = []
            for c in n.value.elts:
                if not (isinstance(c, ast.Call) and ast.unparse(c.func) == "MetaWarning" and len(c.args) == 2 and not c.keywords):
                    raise ValueError("unexpected MetaWarning constructor: " + ast.dump(c))
                regex, msg = const_str(c.args[0]), const_str(c.args[1])
                if regex == ".":
                    dot, lit = True, ""
                elif regex and not (set(regex) & REGEX_META):
                    dot, lit = False, regex
                else:
                    raise ValueError(f"regex {regex!r} is neither '.' nor a literal")
                if msg.count("{}") != 1 or msg.replace("{}", "").count("{") or msg.replace("{}", "").count("}"):
                    raise ValueError(f"message {msg!r} does not have exactly one '{{}}' field")
                pre, post = msg.split("{}")
                out.append((dot, lit, pre, post))
    if out is None:
        raise ValueError("self.meta_warnings not found")
    return out


ARG_ACTIONS = {None: True, "store": True, "append": True, "store_split": True, "extend_match": True,
               "store_const": False, "append_const": False, "store_true": False, "store_false": False}


def base_options(repo):
    """[(flags registered together, takes a separate argument, value is optional)]"""
    tree = ast.parse((repo / "codebasin/config.py").read_text())
    f = find_func(tree, "ArgumentParser", "parse_args")
    groups = []
    positional = 0
    for n in ast.walk(f):
        if isinstance(n, ast.Call) and ast.unparse(n.func) == "parser.add_argument":
            flags = []
            for a in n.args:
                if isinstance(a, ast.Starred):
                    flags = None      # the per-compiler loop: options come from the TOML tables
                    break
                flags.append(const_str(a))
            if flags is None:
                continue
            kw = {k.arg: k.value for k in n.keywords}
            action = const_str(kw["action"]) if "action" in kw else None
            if flags and all(x.startswith("-") for x in flags):
                if action not in ARG_ACTIONS:
                    raise ValueError(f"unexpected action for {flags}")
                takes, optional = ARG_ACTIONS[action], False
                if "nargs" in kw:
                    if not (takes and ast.unparse(kw["nargs"]) == "'?'"):
                        raise ValueError(f"unexpected nargs for {flags}")
                    takes, optional = False, True          # a value may be glued on, none is required
                groups.append((flags, takes, optional))
            else:
                if flags != ["file"] or ast.unparse(kw.get("nargs")) != "'*'":
                    raise ValueError(f"unexpected positional {flags}")
                positional += 1
    if positional != 1 or not groups:
        raise ValueError("parse_args: expected the option block and one positional")
    return groups


def compilers(repo):
    out = []
    groups = []
    for p in sorted((repo / "codebasin/compilers").glob("*.toml")):
        toml = tomllib.loads(p.read_text())
        for name, d in toml["compiler"].items():
            alias = d.get("alias_of")
            options = d.get("options", [])
            flags = []
            npass = 0
            for o in d.get("parser", []):
                if o["action"] not in ARG_ACTIONS or "nargs" in o:
                    raise ValueError(f"{p.name}: unexpected action for {o['flags']}")
                for x in o["flags"]:
                    flags.append((x, ARG_ACTIONS[o["action"]]))
                groups.append(list(o["flags"]))
                if o.get("dest") == "passes" and "default" in o:
                    npass += len(o["default"])
            out.append((name, alias, options, flags, npass))
    return out, groups


def extensions(repo):
    tree = ast.parse((repo / "codebasin/source.py").read_text())
    for n in tree.body:
        if isinstance(n, ast.FunctionDef) and n.name == "is_source_file":
            for a in ast.walk(n):
                if isinstance(a, ast.Assign) and ast.unparse(a.targets[0]) == "supported_extensions":
                    return [const_str(x) for x in a.value.elts]
    raise ValueError("supported_extensions not found")


def generate(repo: Path):
    b = lambda x: "true" if x else "false"   # noqa
    lines = ["From Coq Require Import String List.", "From CBI Require Import Lib.C18_str.",
             "Import ListNotations.", "Local Open Scope string_scope.", ""]
    lines.append("Definition unhandled : list string := %s." % coq_list(coq_str(x) for x in unhandled_list(repo)))
    lines.append("(* (regex is '.', literal regex, message before the count, message after the count) *)")
    lines.append("Definition meta_warnings : list (bool * string * string * string) :=\n  %s." %
                 coq_list("(%s, %s, %s, %s)" % (b(d), coq_str(l), coq_str(pre), coq_str(post)) for d, l, pre, post in meta_warnings(repo)))
    base = base_options(repo)
    comps, cgroups = compilers(repo)
    groups = []
    for g in [fl for fl, _, _ in base] + cgroups:
        for other in groups:
            if set(g) & set(other) and g != other:
                raise ValueError(f"flag registered in two different groups: {g} / {other}")
        if g not in groups:
            groups.append(g)
    lines.append("(* (flag, takes a separate argument) *)")
    lines.append("Definition base_options : list (string * bool) := %s." %
                 coq_list("(%s, %s)" % (coq_str(f), b(t)) for fl, t, _ in base for f in fl))
    lines.append("(* flags whose value is optional (nargs='?'): a value may be glued on, none is required *)")
    lines.append("Definition optional_value : list string := %s." % coq_list(coq_str(f) for fl, _, o in base if o for f in fl))
    lines.append("(* option strings registered together (argparse names an option by all of them) *)")
    lines.append("Definition flag_groups : list (list string) := %s." % coq_list(coq_list(coq_str(f) for f in g) for g in groups))
    lines.append("(* (name, alias_of, default options, registered flags, number of default extra passes) *)")
    lines.append("Definition compilers : list (string * option string * list string * list (string * bool) * nat) :=\n  %s." %
                 coq_list("(%s, %s, %s, %s, %d)" % (coq_str(n), ("Some %s" % coq_str(a)) if a else "None",
                                                    coq_list(coq_str(o) for o in opts),
                                                    coq_list("(%s, %s)" % (coq_str(f), b(t)) for f, t in fl), np)
                          for n, a, opts, fl, np in comps))
    lines.append("Definition source_extensions : list string := %s." % coq_list(coq_str(x) for x in extensions(repo)))
    return {"C18_tables.v": "\n".join(lines) + "\n"}
