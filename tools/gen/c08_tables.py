"""C08 / C10 translator: reads (with `ast`, never importing codebasin) the two places of the source that
SELECT which variant of the models of Model/C08.v and Model/C10.v describes the code, and emits them as
Coq constants:

  * where finder.find creates the Platform object: inside the per-entry loop (PerEntry) or once per
    platform (PerPlatform) - both variants exist in the model, the theorems hold for PerEntry only;
  * how __main__._main and tree._tree combine -x with [codebase].exclude (XThenToml: `+=`; TomlOnly: `=`).

Fail-closed: any other shape raises, the Gen file is removed and the checks that depend on it report a
broken tie.  Everything else these functions do (the -p filter, the CodeBase call, get_setmap's loop,
Platform.__init__) is deliberately NOT checked here: a change there leaves the model buildable, so that
the correspondence can report it with a concrete failing input."""
import ast
from pathlib import Path

OUTPUTS = ["C08_tables.v"]


class Shape(Exception):
    pass


def _func(tree, name, cls=None):
    body = tree.body
    if cls is not None:
        cs = [n for n in body if isinstance(n, ast.ClassDef) and n.name == cls]
        if len(cs) != 1:
            raise Shape(f"class {cls} not found exactly once")
        body = cs[0].body
    fs = [n for n in body if isinstance(n, ast.FunctionDef) and n.name == name]
    if len(fs) != 1:
        raise Shape(f"function {name} not found exactly once")
    return fs[0]


def _loop_path(fn, pred):
    """Targets of the enclosing for-loops of the unique statement satisfying pred."""
    found = []

    def go(stmts, path):
        for s in stmts:
            if pred(s):
                found.append(list(path))
            if isinstance(s, ast.For):
                if not isinstance(s.target, ast.Name):
                    raise Shape("for-loop target is not a name")
                go(s.body, path + [s.target.id])
                go(s.orelse, path)
            elif isinstance(s, (ast.If, ast.While)):
                go(s.body, path)
                go(s.orelse, path)
            elif isinstance(s, ast.With):
                go(s.body, path)
            elif isinstance(s, ast.Try):
                go(s.body, path)
                for h in s.handlers:
                    go(h.body, path)
                go(s.orelse, path)
                go(s.finalbody, path)
    go(fn.body, [])
    return found


def platform_scope(finder_src):
    tree = ast.parse(finder_src)
    find = _func(tree, "find")

    def is_creation(s):
        return (isinstance(s, ast.Assign) and len(s.targets) == 1 and isinstance(s.targets[0], ast.Name)
                and s.targets[0].id == "file_platform")
    all_assigns = [n for n in ast.walk(find) if is_creation(n)]
    if len(all_assigns) != 1:
        raise Shape("file_platform is not assigned exactly once in find")
    v = all_assigns[0].value
    ok = (isinstance(v, ast.Call) and isinstance(v.func, ast.Attribute) and v.func.attr == "Platform"
          and isinstance(v.func.value, ast.Name) and v.func.value.id == "platform"
          and [a.id if isinstance(a, ast.Name) else None for a in v.args] == ["p", "rootdir"] and not v.keywords)
    if not ok:
        raise Shape("file_platform is not platform.Platform(p, rootdir)")
    paths = _loop_path(find, is_creation)
    if paths == [["p", "e"]]:
        scope = "PerEntry"
    elif paths == [["p"]]:
        scope = "PerPlatform"
    else:
        raise Shape(f"Platform created under loops {paths}: no model for that")

    return scope


def cli_shape(src, fname):
    tree = ast.parse(src)
    fn = _func(tree, fname)
    text = lambda n: ast.unparse(n)
    aug = [n for n in ast.walk(fn) if isinstance(n, ast.AugAssign) and text(n.target) == "args.excludes"]
    asg = [n for n in ast.walk(fn) if isinstance(n, ast.Assign) and any(text(t) == "args.excludes" for t in n.targets)]
    toml = "analysis_toml['codebase']['exclude']"
    if len(aug) == 1 and not asg and isinstance(aug[0].op, ast.Add) and text(aug[0].value) == toml:
        mode = "XThenToml"
    elif len(asg) == 1 and not aug and text(asg[0].value) == toml:
        mode = "TomlOnly"
    else:
        raise Shape(f"{fname}: unexpected treatment of args.excludes")
    return mode


def generate(repo: Path):
    cb = repo / "codebasin"
    scope = platform_scope((cb / "finder.py").read_text())
    m_main = cli_shape((cb / "__main__.py").read_text(), "_main")
    m_tree = cli_shape((cb / "tree.py").read_text(), "_tree")
    v = "\n".join([
        "(* Where finder.find creates the Platform object, and how the CLIs build the exclude list. *)",
        "Inductive platform_scope := PerEntry | PerPlatform.",
        f"Definition platform_created : platform_scope := {scope}.",
        "Inductive exclude_mode := XThenToml | TomlOnly.",
        f"Definition excludes_main : exclude_mode := {m_main}.",
        f"Definition excludes_tree : exclude_mode := {m_tree}.",
        ""])
    return {"C08_tables.v": v}
