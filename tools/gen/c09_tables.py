"""C09 translator: source.is_source_file's extension list and FileLanguage's
language tables -> Gen/C09_tables.v.   ast only, fail-closed."""
import ast
from pathlib import Path

OUTPUTS = ["C09_tables.v"]


def _coq_str(s: str) -> str:
    if not isinstance(s, str) or not s.isascii() or '"' in s or any(ord(c) < 32 for c in s):
        raise ValueError(f"unexpected string literal {s!r}")
    return '"' + s + '"'


def _str_list(node) -> list:
    if not isinstance(node, ast.List):
        raise ValueError(f"line {node.lineno}: expected a list literal")
    out = []
    for e in node.elts:
        if not (isinstance(e, ast.Constant) and isinstance(e.value, str)):
            raise ValueError(f"line {e.lineno}: expected a string literal")
        out.append(e.value)
    return out


def _source_extensions(repo: Path):
    tree = ast.parse((repo / "codebasin" / "source.py").read_text())
    fns = [n for n in tree.body if isinstance(n, ast.FunctionDef) and n.name == "is_source_file"]
    if len(fns) != 1:
        raise ValueError("is_source_file not found exactly once")
    fn = fns[0]
    body = [s for s in fn.body if not (isinstance(s, ast.Expr) and isinstance(s.value, ast.Constant))]
    # shape:  if not isinstance...: raise ; extension = os.path.splitext(filename)[1] ;
    #         supported_extensions = [...] ; return extension in supported_extensions
    if len(body) != 4:
        raise ValueError(f"is_source_file: expected 4 statements, found {len(body)}")
    guard, a_ext, a_sup, ret = body
    if not (isinstance(guard, ast.If) and len(guard.body) == 1 and isinstance(guard.body[0], ast.Raise) and not guard.orelse):
        raise ValueError("is_source_file: first statement is not the type guard")
    want_ext = "extension = os.path.splitext(filename)[1]"      # modelled by Model/C09.v : splitext_ext
    if ast.unparse(a_ext) != want_ext:
        raise ValueError(f"is_source_file: expected `{want_ext}`, found `{ast.unparse(a_ext)}`")
    if not (isinstance(a_sup, ast.Assign) and len(a_sup.targets) == 1
            and isinstance(a_sup.targets[0], ast.Name) and a_sup.targets[0].id == "supported_extensions"):
        raise ValueError("is_source_file: supported_extensions assignment not found")
    exts = _str_list(a_sup.value)
    if ast.unparse(ret) != "return extension in supported_extensions":
        raise ValueError(f"is_source_file: unexpected return `{ast.unparse(ret)}`")
    return exts


def _language_tables(repo: Path):
    tree = ast.parse((repo / "codebasin" / "language.py").read_text())
    cls = [n for n in tree.body if isinstance(n, ast.ClassDef) and n.name == "FileLanguage"]
    if len(cls) != 1:
        raise ValueError("class FileLanguage not found exactly once")
    langs = None
    table = None
    for s in cls[0].body:
        if not isinstance(s, ast.Assign) or len(s.targets) != 1:
            continue
        t = s.targets[0]
        if isinstance(t, ast.Name) and t.id == "_supported_languages":
            langs = _str_list(s.value)
        elif isinstance(t, ast.Name) and t.id == "_language_extensions":
            if not (isinstance(s.value, ast.Dict) and not s.value.keys):
                raise ValueError("_language_extensions is not initialised with {}")
            table = []
        elif isinstance(t, ast.Subscript) and isinstance(t.value, ast.Name) and t.value.id == "_language_extensions":
            if table is None:
                raise ValueError("_language_extensions[...] assigned before the dict")
            k = t.slice
            if not (isinstance(k, ast.Constant) and isinstance(k.value, str)):
                raise ValueError("_language_extensions key is not a string literal")
            if any(k.value == k0 for k0, _ in table):
                raise ValueError(f"_language_extensions[{k.value!r}] assigned twice")
            table.append((k.value, _str_list(s.value)))
        elif isinstance(t, (ast.Name, ast.Subscript)) and "_language" in ast.unparse(t):
            raise ValueError(f"unexpected assignment to {ast.unparse(t)}")
    if langs is None or table is None:
        raise ValueError("FileLanguage tables not found")
    return langs, table


def generate(repo: Path):
    exts = _source_extensions(repo)
    langs, table = _language_tables(repo)
    lines = ["From Coq Require Import String List.", "Import ListNotations.", "Local Open Scope string_scope.", "",
             "(* codebasin/source.py : is_source_file : supported_extensions *)",
             "Definition source_extensions : list string :=",
             "  [" + "; ".join(_coq_str(e) for e in exts) + "].", "",
             "(* codebasin/language.py : FileLanguage._supported_languages *)",
             "Definition supported_languages : list string :=",
             "  [" + "; ".join(_coq_str(e) for e in langs) + "].", "",
             "(* codebasin/language.py : FileLanguage._language_extensions (assignment order) *)",
             "Definition language_extensions : list (string * list string) :=",
             "  [" + ";\n   ".join("(" + _coq_str(k) + ", [" + "; ".join(_coq_str(e) for e in v) + "])" for k, v in table) + "].", ""]
    return {"C09_tables.v": "\n".join(lines)}
