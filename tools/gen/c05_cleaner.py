"""C05 translator: turns the if/elif chains of c_cleaner.process and
c_cleaner.logical_newline (codebasin/file_source.py) into Coq tables.

Parses with `ast` only (never imports codebasin).  Fail-closed: any statement,
test or name outside the small vocabulary below raises, so that an edit of the
cleaner either moves the generated table (and Proofs/C05g.v, which proves the
hand-written model equal to the table's interpretation, stops compiling) or
stops the translator."""
import ast
from pathlib import Path

OUTPUTS = ["C05_tables.v"]

MODES = {
    "TOPLEVEL": "TOP", "CPP_DIRECTIVE": "CPP", "DOUBLE_QUOTATION": "DQ", "SINGLE_QUOTATION": "SQ",
    "ESCAPING": "ESC", "FOUND_SLASH": "SLASH", "IN_BLOCK_COMMENT": "BLOCK",
    "IN_BLOCK_COMMENT_FOUND_STAR": "BSTAR", "IN_INLINE_COMMENT": "INLINE",
}
CHARS = {"\\": "cBs", "/": "cSl", "*": "cSt", '"': "cDq", "'": "cSq", "#": "cHash"}


class Unexpected(Exception):
    pass


def bad(node, what):
    raise Unexpected(f"{what}: line {getattr(node, 'lineno', '?')}: {ast.unparse(node)[:120]}")


def chain(node):
    """if/elif/else chain -> list of (test or None, body)"""
    out = []
    while True:
        out.append((node.test, node.body))
        if not node.orelse:
            return out
        if len(node.orelse) == 1 and isinstance(node.orelse[0], ast.If):
            node = node.orelse[0]
            continue
        out.append((None, node.orelse))
        return out


def state_test(test, prefix):
    """<prefix>state[-1] == "NAME"  -> Coq mode"""
    if not (isinstance(test, ast.Compare) and len(test.ops) == 1 and isinstance(test.ops[0], ast.Eq)
            and ast.unparse(test.left) == f"{prefix}state[-1]" and isinstance(test.comparators[0], ast.Constant)):
        bad(test, "state test")
    name = test.comparators[0].value
    if name not in MODES:
        bad(test, "unknown state name")
    return MODES[name]


def char_cmp(test):
    if not (isinstance(test, ast.Compare) and len(test.ops) == 1 and ast.unparse(test.left) == "char"
            and isinstance(test.comparators[0], ast.Constant) and test.comparators[0].value in CHARS):
        bad(test, "character test")
    k = CHARS[test.comparators[0].value]
    if isinstance(test.ops[0], ast.Eq):
        return "CEq", k
    if isinstance(test.ops[0], ast.NotEq):
        return "CNe", k
    bad(test, "character test operator")


def char_test(test):
    if test is None:
        return "CElse"
    if isinstance(test, ast.BoolOp):
        if not (isinstance(test.op, ast.And) and len(test.values) == 2
                and ast.unparse(test.values[1]) == "obuf.category() == 'BLANK'"):
            bad(test, "compound character test")
        op, k = char_cmp(test.values[0])
        if (op, k) != ("CEq", "cHash"):
            bad(test, "compound character test")
        return "CHashBlank"
    op, k = char_cmp(test)
    return f"{op} {k}"


def check_block(stmt, prefix):
    return (isinstance(stmt, ast.If) and not stmt.orelse and len(stmt.body) == 1
            and isinstance(stmt.body[0], ast.Raise)
            and ast.unparse(stmt.test) == f"not {prefix}state[-1] == 'IN_BLOCK_COMMENT'")


def process_action(stmt):
    if isinstance(stmt, ast.Return) and stmt.value is None:
        return "AReturn"
    if isinstance(stmt, ast.Raise):
        return "ARaise"
    if check_block(stmt, ""):
        return "ACheckBlock"
    if isinstance(stmt, ast.Expr) and isinstance(stmt.value, ast.Call):
        src = ast.unparse(stmt.value)
        fixed = {
            "state.pop()": "APop", "obuf.append_nonspace(char)": "ANonspaceCh", "obuf.append_char(char)": "ACharCh",
            "obuf.append_char('/')": "ACharSlash", "obuf.append_space()": "ASpace", "inbuffer.putback(char)": "APutback",
        }
        if src in fixed:
            return fixed[src]
        c = stmt.value
        if ast.unparse(c.func) == "state.append" and len(c.args) == 1 and isinstance(c.args[0], ast.Constant) \
                and c.args[0].value in MODES:
            return f"APush {MODES[c.args[0].value]}"
    bad(stmt, "statement in process")


def newline_action(stmt):
    if check_block(stmt, "self."):
        return "NCheckBlock"
    if isinstance(stmt, ast.Assign) and ast.unparse(stmt) == "self.state = ['TOPLEVEL']":
        return "NReset"
    if isinstance(stmt, ast.Expr) and isinstance(stmt.value, ast.Call):
        fixed = {"self.outbuf.append_space()": "NSpace", "self.outbuf.append_nonspace('/')": "NNonspaceSlash",
                 "self.state.pop()": "NPop"}
        src = ast.unparse(stmt.value)
        if src in fixed:
            return fixed[src]
    bad(stmt, "statement in logical_newline")


# ---------------------------------------------------------------- one_space_line
CATS = {"BLANK": "BLANK", "CPP_DIRECTIVE": "CPPD", "SRC_NONBLANK": "SRC"}
BCONDS = {
    "not c.isspace()": "BNotSpaceArg",
    "not self.trailing_space": "BNotTrailing",
    "other.parts": "BOtherNonempty",
    "other.parts[0] == ' ' and self.trailing_space": "BOtherHeadSpAndTrailing",
    "not self.parts": "BNoParts",
    "len(self.parts) == 1": "BLen1",
    "self.parts[0] == ' '": "(BHeadIs \" \"%char)",
    "self.parts[0] == '#'": "(BHeadIs \"#\"%char)",
    "self.parts[:2] == [' ', '#'] or self.parts[0] == '#'": "BDirPrefix",
}
BSTMTS = {
    "self.parts.append(c)": "BAppendArg",
    "self.parts.append(' ')": "BAppendSp",
    "self.trailing_space = False": "(BSetTrailing false)",
    "self.trailing_space = True": "(BSetTrailing true)",
    "self.parts += other.parts[1:]": "BExtendTail",
    "self.parts += other.parts[:]": "BExtendAll",
    "self.trailing_space = other.trailing_space": "BTrailingOther",
}


def buf_stmt(stmt):
    if isinstance(stmt, ast.If):
        c = ast.unparse(stmt.test)
        if c not in BCONDS:
            bad(stmt.test, "condition in one_space_line")
        return f"BIf {BCONDS[c]} {buf_block(stmt.body)} {buf_block(stmt.orelse)}"
    src = ast.unparse(stmt)
    if src in BSTMTS:
        return BSTMTS[src].strip("()") if not BSTMTS[src].startswith("(") else BSTMTS[src][1:-1]
    if isinstance(stmt, ast.Assign) and ast.unparse(stmt.targets[0]) == "res" and isinstance(stmt.value, ast.Constant) \
            and stmt.value.value in CATS:
        return f"BSetRes {CATS[stmt.value.value]}"
    bad(stmt, "statement in one_space_line")


def buf_block(stmts):
    return "[" + "; ".join(buf_stmt(s) for s in stmts) + "]"


def strip_doc(body):
    return [s for s in body if not (isinstance(s, ast.Expr) and isinstance(s.value, ast.Constant))]


def gen_buffer(tree):
    cls = [n for n in tree.body if isinstance(n, ast.ClassDef) and n.name == "one_space_line"]
    if len(cls) != 1:
        raise Unexpected("class one_space_line not found exactly once")
    meth = {n.name: n for n in cls[0].body if isinstance(n, ast.FunctionDef)}
    init = [ast.unparse(s) for s in strip_doc(meth["__init__"].body)]
    if init != ["self.parts = []", "self.trailing_space = False"]:
        raise Unexpected(f"one_space_line.__init__ changed: {init}")
    out = []
    for name, args in (("append_char", ["self", "c"]), ("append_space", ["self"]), ("append_nonspace", ["self", "c"]),
                       ("join", ["self", "other"]), ("category", ["self"])):
        f = meth[name]
        if [a.arg for a in f.args.args] != args:
            bad(f, "signature in one_space_line")
        body = strip_doc(f.body)
        if name == "category":
            if not (isinstance(body[-1], ast.Return) and ast.unparse(body[-1]) == "return res"):
                bad(body[-1], "category must end in `return res`")
            body = body[:-1]
        out.append(f"Definition prog_{name} : list bstmt :=\n  {buf_block(body)}.")
    return out


# ---------------------------------------------------------------- the physical-line loop of c_file_source
LOOP_PRELUDE = [
    "current_physical_line.__init__()",
    "end = len(line)",
    "if line[-1] == '\\n':\n    end -= 1\nelif end > 0 and line[end - 1] == '\\\\':\n    raise RuntimeError('file seems to end in \\\\ with no newline!')",
    "continued = end > 0 and line[end - 1] == '\\\\'",
    "if continued:\n    end -= 1",
]
ENDS_LOGICAL = "not continued and cleaner.state[-1] != 'IN_BLOCK_COMMENT'"
LOOP_STEPS = {
    "cleaner.process(it.islice(line, 0, end))": "LProcess",
    "cleaner.logical_newline()": "LNewline",
    "curr_line.add_physical_line(physical_line_num)": "LAddLine",
    "curr_line.join(current_physical_line)": "LJoin",
}
CLOSE_BODY = ["curr_line.physical_update(physical_line_num + 1)",
              "if curr_line.category != 'BLANK':\n    yield curr_line",
              "total_sloc += curr_line.physical_reset()"]
LOOP_GUARDS = {ENDS_LOGICAL: "GEndsLogical", "not current_physical_line.category() == 'BLANK'": "GPhysNotBlank"}


def gen_loop(tree):
    fn = [n for n in tree.body if isinstance(n, ast.FunctionDef) and n.name == "c_file_source"]
    if len(fn) != 1:
        raise Unexpected("c_file_source not found exactly once")
    loops = [s for s in fn[0].body if isinstance(s, ast.For)]
    if len(loops) != 1 or ast.unparse(loops[0].target) != "(physical_line_num, line)" \
            or ast.unparse(loops[0].iter) != "enumerate(fp, start=1)" or loops[0].orelse:
        raise Unexpected("physical-line loop of c_file_source changed")
    body = loops[0].body
    pre = [ast.unparse(s) for s in body[:len(LOOP_PRELUDE)]]
    if pre != LOOP_PRELUDE:
        raise Unexpected(f"prelude of the physical-line loop changed: {pre}")
    rows = ["(GAlways, LResetPhys)"]
    for stmt in body[len(LOOP_PRELUDE):]:
        src = ast.unparse(stmt)
        if src in LOOP_STEPS:
            rows.append(f"(GAlways, {LOOP_STEPS[src]})")
            continue
        if isinstance(stmt, ast.If) and not stmt.orelse and ast.unparse(stmt.test) in LOOP_GUARDS:
            g = LOOP_GUARDS[ast.unparse(stmt.test)]
            inner = [ast.unparse(x) for x in stmt.body]
            if inner == CLOSE_BODY:
                rows.append(f"({g}, LClose)")
                continue
            if len(inner) == 1 and inner[0] in LOOP_STEPS:
                rows.append(f"({g}, {LOOP_STEPS[inner[0]]})")
                continue
        bad(stmt, "statement in the physical-line loop")
    return "Definition loop_table : list (lguard * lact) :=\n  [" + "; ".join(rows) + "]."


def coq_list(items, indent):
    if not items:
        return "[]"
    if indent == 0:
        return "[" + "; ".join(items) + "]"
    pad = " " * indent
    return "[" + (";\n" + pad + " ").join(items) + "]"


def generate(repo: Path):
    tree = ast.parse((repo / "codebasin" / "file_source.py").read_text())
    cls = [n for n in tree.body if isinstance(n, ast.ClassDef) and n.name == "c_cleaner"]
    if len(cls) != 1:
        raise Unexpected("class c_cleaner not found exactly once")
    meth = {n.name: n for n in cls[0].body if isinstance(n, ast.FunctionDef)}

    # ---- process
    body = [s for s in meth["process"].body
            if not (isinstance(s, ast.Expr) and isinstance(s.value, ast.Constant))]        # docstring
    prelude = [ast.unparse(s) for s in body[:-1]]
    if prelude != ["state = self.state", "obuf = self.outbuf", "inbuffer = self.iterkeep",
                   "iter_keep1.__init__(inbuffer, lineiter)"]:
        raise Unexpected(f"prelude of process changed: {prelude}")
    loop = body[-1]
    if not (isinstance(loop, ast.For) and ast.unparse(loop.target) == "char" and ast.unparse(loop.iter) == "inbuffer"
            and not loop.orelse and len(loop.body) == 1 and isinstance(loop.body[0], ast.If)):
        bad(loop, "loop of process")
    rows = []
    for test, br in chain(loop.body[0]):
        if test is None:
            if not (len(br) == 1 and isinstance(br[0], ast.Raise)):
                bad(br[0], "final else of process")
            continue
        mode = state_test(test, "")
        if mode == "TOP":
            if not (len(br) == 1 and isinstance(br[0], ast.If) and ast.unparse(br[0].test) == "self.directives_only"
                    and br[0].orelse):
                bad(br[0], "TOPLEVEL branch (directives_only split)")
            br = br[0].orelse                  # directives_only = False
        if len(br) == 1 and isinstance(br[0], ast.If) and not check_block(br[0], ""):
            conds = [(char_test(t), [process_action(s) for s in b]) for t, b in chain(br[0])]
        else:
            conds = [("CElse", [process_action(s) for s in br])]
        rows.append(f"({mode}, " + coq_list([f"({c}, {coq_list(a, 0)})" for c, a in conds], 6) + ")")
    # ---- logical_newline
    body = [s for s in meth["logical_newline"].body
            if not (isinstance(s, ast.Expr) and isinstance(s.value, ast.Constant))]
    if not (len(body) == 1 and isinstance(body[0], ast.If)):
        raise Unexpected("logical_newline is not a single if chain")
    nrows = []
    for test, br in chain(body[0]):
        if test is None:
            bad(br[0], "else branch in logical_newline")
        nrows.append(f"({state_test(test, 'self.')}, {coq_list([newline_action(s) for s in br], 0)})")
    text = "\n".join([
        "From Coq Require Import Ascii List.",
        "From CBI Require Import Model.C05 Model.C05g.",
        "Import ListNotations.",
        "",
        "(* c_cleaner.process: state[-1] -> ordered (character test, statements); directives_only = False *)",
        "Definition process_table : list (mode * list (cond * list action)) :=",
        "  " + coq_list(rows, 2) + ".",
        "",
        "(* c_cleaner.logical_newline: self.state[-1] -> statements *)",
        "Definition newline_table : list (mode * list naction) :=",
        "  " + coq_list(nrows, 2) + ".",
        "",
        "(* one_space_line: append_char, append_space, append_nonspace, join, category *)",
        *gen_buffer(tree),
        "",
        "(* c_file_source: the guarded steps of the loop over physical lines (after the end/continued prelude) *)",
        gen_loop(tree),
        ""])
    return {"C05_tables.v": text}


if __name__ == "__main__":
    import sys
    print(generate(Path(sys.argv[1]))["C05_tables.v"])
