"""C05 translator: turns the if/elif chains of c_cleaner.process and
c_cleaner.logical_newline (codebasin/file_source.py) into Coq tables.

Parses with `ast` only (never imports codebasin).  Fail-closed: any statement,
test or name outside the small vocabulary below raises, so that an edit of the
cleaner either moves the generated table (and Proofs/C05g.v, which proves the
hand-written model equal to the table's interpretation, stops compiling) or
stops the translator."""
import ast
from pathlib import Path

OUTPUTS = ["C05_tables.v"]

MODES = {
    "TOPLEVEL": "TOP", "CPP_DIRECTIVE": "CPP", "DOUBLE_QUOTATION": "DQ", "SINGLE_QUOTATION": "SQ",
    "ESCAPING": "ESC", "FOUND_SLASH": "SLASH", "IN_BLOCK_COMMENT": "BLOCK",
    "IN_BLOCK_COMMENT_FOUND_STAR": "BSTAR", "IN_INLINE_COMMENT": "INLINE",
}
CHARS = {"\\": "cBs", "/": "cSl", "*": "cSt", '"': "cDq", "'": "cSq", "#": "cHash"}


class Unexpected(Exception):
    pass


def bad(node, what):
    raise Unexpected(f"{what}: line {getattr(node, 'lineno', '?')}: {ast.unparse(node)[:120]}")


def chain(node):
    """if/elif/else chain -> list of (test or None, body)"""
    out = []
    while True:
        out.append((node.test, node.body))
        if not node.orelse:
            return out
        if len(node.orelse) == 1 and isinstance(node.orelse[0], ast.If):
            node = node.orelse[0]
            continue
        out.append((None, node.orelse))
        return out


def state_test(test, prefix):
    """<prefix>state[-1] == "NAME"  -> Coq mode"""
    if not (isinstance(test, ast.Compare) and len(test.ops) == 1 and isinstance(test.ops[0], ast.Eq)
            and ast.unparse(test.left) == f"{prefix}state[-1]" and isinstance(test.comparators[0], ast.Constant)):
        bad(test, "state test")
    name = test.comparators[0].value
    if name not in MODES:
        bad(test, "unknown state name")
    return MODES[name]


def char_cmp(test):
    if not (isinstance(test, ast.Compare) and len(test.ops) == 1 and ast.unparse(test.left) == "char"
            and isinstance(test.comparators[0], ast.Constant) and test.comparators[0].value in CHARS):
        bad(test, "character test")
    k = CHARS[test.comparators[0].value]
    if isinstance(test.ops[0], ast.Eq):
        return "CEq", k
    if isinstance(test.ops[0], ast.NotEq):
        return "CNe", k
    bad(test, "character test operator")


def char_test(test):
    if test is None:
        return "CElse"
    if isinstance(test, ast.BoolOp):
        if not (isinstance(test.op, ast.And) and len(test.values) == 2
                and ast.unparse(test.values[1]) == "obuf.category() == 'BLANK'"):
            bad(test, "compound character test")
        op, k = char_cmp(test.values[0])
        if (op, k) != ("CEq", "cHash"):
            bad(test, "compound character test")
        return "CHashBlank"
    op, k = char_cmp(test)
    return f"{op} {k}"


def check_block(stmt, prefix):
    return (isinstance(stmt, ast.If) and not stmt.orelse and len(stmt.body) == 1
            and isinstance(stmt.body[0], ast.Raise)
            and ast.unparse(stmt.test) == f"not {prefix}state[-1] == 'IN_BLOCK_COMMENT'")


def process_action(stmt):
    if isinstance(stmt, ast.Return) and stmt.value is None:
        return "AReturn"
    if isinstance(stmt, ast.Raise):
        return "ARaise"
    if check_block(stmt, ""):
        return "ACheckBlock"
    if isinstance(stmt, ast.Expr) and isinstance(stmt.value, ast.Call):
        src = ast.unparse(stmt.value)
        fixed = {
            "state.pop()": "APop", "obuf.append_nonspace(char)": "ANonspaceCh", "obuf.append_char(char)": "ACharCh",
            "obuf.append_char('/')": "ACharSlash", "obuf.append_space()": "ASpace", "inbuffer.putback(char)": "APutback",
        }
        if src in fixed:
            return fixed[src]
        c = stmt.value
        if ast.unparse(c.func) == "state.append" and len(c.args) == 1 and isinstance(c.args[0], ast.Constant) \
                and c.args[0].value in MODES:
            return f"APush {MODES[c.args[0].value]}"
    bad(stmt, "statement in process")


def newline_action(stmt):
    if check_block(stmt, "self."):
        return "NCheckBlock"
    if isinstance(stmt, ast.Assign) and ast.unparse(stmt) == "self.state = ['TOPLEVEL']":
        return "NReset"
    if isinstance(stmt, ast.Expr) and isinstance(stmt.value, ast.Call):
        fixed = {"self.outbuf.append_space()": "NSpace", "self.outbuf.append_nonspace('/')": "NNonspaceSlash",
                 "self.state.pop()": "NPop"}
        src = ast.unparse(stmt.value)
        if src in fixed:
            return fixed[src]
    bad(stmt, "statement in logical_newline")


def coq_list(items, indent):
    if not items:
        return "[]"
    if indent == 0:
        return "[" + "; ".join(items) + "]"
    pad = " " * indent
    return "[" + (";\n" + pad + " ").join(items) + "]"


def generate(repo: Path):
    tree = ast.parse((repo / "codebasin" / "file_source.py").read_text())
    cls = [n for n in tree.body if isinstance(n, ast.ClassDef) and n.name == "c_cleaner"]
    if len(cls) != 1:
        raise Unexpected("class c_cleaner not found exactly once")
    meth = {n.name: n for n in cls[0].body if isinstance(n, ast.FunctionDef)}

    # ---- process
    body = [s for s in meth["process"].body
            if not (isinstance(s, ast.Expr) and isinstance(s.value, ast.Constant))]        # docstring
    prelude = [ast.unparse(s) for s in body[:-1]]
    if prelude != ["state = self.state", "obuf = self.outbuf", "inbuffer = self.iterkeep",
                   "iter_keep1.__init__(inbuffer, lineiter)"]:
        raise Unexpected(f"prelude of process changed: {prelude}")
    loop = body[-1]
    if not (isinstance(loop, ast.For) and ast.unparse(loop.target) == "char" and ast.unparse(loop.iter) == "inbuffer"
            and not loop.orelse and len(loop.body) == 1 and isinstance(loop.body[0], ast.If)):
        bad(loop, "loop of process")
    rows = []
    for test, br in chain(loop.body[0]):
        if test is None:
            if not (len(br) == 1 and isinstance(br[0], ast.Raise)):
                bad(br[0], "final else of process")
            continue
        mode = state_test(test, "")
        if mode == "TOP":
            if not (len(br) == 1 and isinstance(br[0], ast.If) and ast.unparse(br[0].test) == "self.directives_only"
                    and br[0].orelse):
                bad(br[0], "TOPLEVEL branch (directives_only split)")
            br = br[0].orelse                  # directives_only = False
        if len(br) == 1 and isinstance(br[0], ast.If) and not check_block(br[0], ""):
            conds = [(char_test(t), [process_action(s) for s in b]) for t, b in chain(br[0])]
        else:
            conds = [("CElse", [process_action(s) for s in br])]
        rows.append(f"({mode}, " + coq_list([f"({c}, {coq_list(a, 0)})" for c, a in conds], 6) + ")")
    # ---- logical_newline
    body = [s for s in meth["logical_newline"].body
            if not (isinstance(s, ast.Expr) and isinstance(s.value, ast.Constant))]
    if not (len(body) == 1 and isinstance(body[0], ast.If)):
        raise Unexpected("logical_newline is not a single if chain")
    nrows = []
    for test, br in chain(body[0]):
        if test is None:
            bad(br[0], "else branch in logical_newline")
        nrows.append(f"({state_test(test, 'self.')}, {coq_list([newline_action(s) for s in br], 0)})")
    text = "\n".join([
        "From Coq Require Import List.",
        "From CBI Require Import Model.C05 Model.C05g.",
        "Import ListNotations.",
        "",
        "(* c_cleaner.process: state[-1] -> ordered (character test, statements); directives_only = False *)",
        "Definition process_table : list (mode * list (cond * list action)) :=",
        "  " + coq_list(rows, 2) + ".",
        "",
        "(* c_cleaner.logical_newline: self.state[-1] -> statements *)",
        "Definition newline_table : list (mode * list naction) :=",
        "  " + coq_list(nrows, 2) + ".",
        ""])
    return {"C05_tables.v": text}


if __name__ == "__main__":
    import sys
    print(generate(Path(sys.argv[1]))["C05_tables.v"])
