"""Translator for C01: the tree-shape predicates of every Node class in codebasin/preprocessor.py.

For each class deriving (transitively) from Node the three static predicates
is_start_node / is_cont_node / is_end_node are resolved along the (single)
inheritance chain; each must be a function whose body is a docstring followed by
`return True` or `return False`.  Anything else is an error (fail-closed)."""
import ast
from pathlib import Path

OUTPUTS = ["C01_tables.v"]
PREDS = ["is_start_node", "is_cont_node", "is_end_node"]


def const_bool(fn: ast.FunctionDef) -> bool:
    body = list(fn.body)
    if body and isinstance(body[0], ast.Expr) and isinstance(body[0].value, ast.Constant) and isinstance(body[0].value.value, str):
        body = body[1:]
    if len(body) != 1 or not isinstance(body[0], ast.Return) or not isinstance(body[0].value, ast.Constant) \
            or not isinstance(body[0].value.value, bool):
        raise ValueError(f"{fn.name} at line {fn.lineno}: expected a single 'return True/False'")
    return body[0].value.value


def generate(repo: Path):
    tree = ast.parse((repo / "codebasin" / "preprocessor.py").read_text())
    classes = {}
    for n in tree.body:
        if isinstance(n, ast.ClassDef):
            bases = []
            for b in n.bases:
                if not isinstance(b, ast.Name):
                    raise ValueError(f"class {n.name}: unexpected base expression")
                bases.append(b.id)
            own = {}
            for m in n.body:
                if isinstance(m, ast.FunctionDef) and m.name in PREDS:
                    own[m.name] = const_bool(m)
            classes[n.name] = (bases, own)
    if "Node" not in classes or set(classes["Node"][1]) != set(PREDS):
        raise ValueError("class Node must define the three predicates")

    def derives(c, seen=()):
        if c == "Node":
            return True
        if c not in classes or c in seen:
            return False
        return any(derives(b, seen + (c,)) for b in classes[c][0])

    def resolve(c, pred):
        while True:
            bases, own = classes[c]
            if pred in own:
                return own[pred]
            nb = [b for b in bases if b in classes and derives(b)]
            if len(nb) != 1:
                raise ValueError(f"class {c}: cannot resolve {pred} along a single inheritance chain")
            c = nb[0]

    rows = []
    for c in classes:
        if derives(c):
            rows.append((c, [resolve(c, p) for p in PREDS]))
    for need in ("CodeNode", "DirectiveNode", "IfNode", "ElIfNode", "ElseNode", "EndIfNode", "DefineNode", "UndefNode", "IncludeNode", "PragmaNode"):
        if need not in dict(rows):
            raise ValueError(f"class {need} not found")
    b = lambda x: "true" if x else "false"
    txt = ["From Coq Require Import String List.", "Import ListNotations.", "Local Open Scope string_scope.", "",
           "(* class name, (is_start_node, is_cont_node, is_end_node) *)",
           "Definition node_kinds : list (string * (bool * bool * bool)) :=", "  ["]
    txt.append(";\n".join(f'    ("{c}", ({b(v[0])}, {b(v[1])}, {b(v[2])}))' for c, v in rows))
    txt += ["  ].", ""]
    return {"C01_tables.v": "\n".join(txt)}
