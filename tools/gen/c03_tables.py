"""Translator for C03: constants the macro expander is driven by, read from the
CURRENT source with `ast` (codebasin is never imported).  Fail-closed.

  MacroExpander.__init__      self.max_level = <int>
  macro_from_definition_string  the default expansion NumericalConstant(..., "1")
                                and the separator of string.partition("=")
"""
import ast
from pathlib import Path

OUTPUTS = ["C03_tables.v"]


def _find(tree, kind, name):
    for n in ast.walk(tree):
        if isinstance(n, kind) and n.name == name:
            return n
    raise ValueError(f"{name} not found")


def _coq_str(s):
    if not isinstance(s, str) or '"' in s or "\\" in s or not s.isascii():
        raise ValueError(f"unexpected string literal {s!r}")
    return '"' + s + '"'


def generate(repo: Path):
    src = (repo / "codebasin" / "preprocessor.py").read_text()
    tree = ast.parse(src)
    # --- max_level
    cls = _find(tree, ast.ClassDef, "MacroExpander")
    init = _find(cls, ast.FunctionDef, "__init__")
    levels = []
    for n in ast.walk(init):
        if isinstance(n, ast.Assign) and len(n.targets) == 1:
            t = n.targets[0]
            if isinstance(t, ast.Attribute) and t.attr == "max_level" and isinstance(t.value, ast.Name) and t.value.id == "self":
                if not (isinstance(n.value, ast.Constant) and type(n.value.value) is int and n.value.value >= 0):
                    raise ValueError("max_level is not a non-negative int literal")
                levels.append(n.value.value)
    if len(levels) != 1:
        raise ValueError(f"expected exactly one assignment to self.max_level, found {len(levels)}")
    # overflow_check must compare len(parser_stack) >= max_level
    oc = _find(cls, ast.FunctionDef, "overflow_check")
    cmps = [n for n in ast.walk(oc) if isinstance(n, ast.Compare)]
    if len(cmps) != 1 or len(cmps[0].ops) != 1 or not isinstance(cmps[0].ops[0], ast.GtE):
        raise ValueError("overflow_check: expected a single `>=` comparison")
    # --- default expansion and separator of -D
    fn = _find(tree, ast.FunctionDef, "macro_from_definition_string")
    default = None
    sep = None
    for n in ast.walk(fn):
        if isinstance(n, ast.Call) and isinstance(n.func, ast.Name) and n.func.id == "NumericalConstant":
            if len(n.args) != 4 or not all(isinstance(a, ast.Constant) for a in n.args):
                raise ValueError("unexpected NumericalConstant call in macro_from_definition_string")
            if n.args[2].value is not False:
                raise ValueError("default expansion token: prev_white is not False")
            default = n.args[3].value
        if isinstance(n, ast.Call) and isinstance(n.func, ast.Attribute) and n.func.attr == "partition":
            if len(n.args) != 1 or not isinstance(n.args[0], ast.Constant) or \
                    not (isinstance(n.func.value, ast.Name) and n.func.value.id == "string"):
                raise ValueError("unexpected partition call in macro_from_definition_string")
            if sep is not None:
                raise ValueError("more than one partition call in macro_from_definition_string")
            sep = n.args[0].value
    if default is None or sep is None:
        raise ValueError("macro_from_definition_string: default expansion or separator not found")
    text = "\n".join([
        "From Coq Require Import String.",
        "Local Open Scope string_scope.",
        f"Definition max_level : nat := {levels[0]}.",
        f"Definition default_expansion : string := {_coq_str(default)}.",
        f"Definition define_separator : string := {_coq_str(sep)}.",
        ""])
    return {"C03_tables.v": text}
