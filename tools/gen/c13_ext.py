"""C13 translator: the extension list of codebasin/source.py:is_source_file
(the table CompileCommand.is_supported is driven by) -> Gen/C13_tables.v.

Parses with `ast` only; fail-closed: the function must have exactly the shape
    extension = os.path.splitext(filename)[1]
    supported_extensions = [<string literals>]
    return extension in supported_extensions
(after an optional isinstance guard that raises), and CompileCommand.is_supported
must be `if len(self.arguments) > 0 and codebasin.source.is_source_file(self.filename): return True; return False`."""
import ast
from pathlib import Path

OUTPUTS = ["C13_tables.v"]


def _fail(msg):
    raise ValueError("c13_ext: unexpected source shape: " + msg)


def _func(tree, name, cls=None):
    body = tree.body
    if cls is not None:
        cs = [n for n in body if isinstance(n, ast.ClassDef) and n.name == cls]
        if len(cs) != 1:
            _fail(f"class {cls}")
        body = cs[0].body
    fs = [n for n in body if isinstance(n, ast.FunctionDef) and n.name == name]
    if len(fs) != 1:
        _fail(f"function {name}")
    return fs[0]


def _strip_doc(body):
    if body and isinstance(body[0], ast.Expr) and isinstance(body[0].value, ast.Constant) and isinstance(body[0].value.value, str):
        return body[1:]
    return body


def extensions(repo: Path):
    tree = ast.parse((repo / "codebasin" / "source.py").read_text())
    f = _func(tree, "is_source_file")
    body = _strip_doc(f.body)
    # optional type guard: `if not (...): raise TypeError(...)`
    if body and isinstance(body[0], ast.If):
        g = body[0]
        if not (len(g.body) == 1 and isinstance(g.body[0], ast.Raise) and not g.orelse):
            _fail("guard of is_source_file")
        body = body[1:]
    if len(body) != 3:
        _fail("is_source_file has %d statements after the guard" % len(body))
    a, b, c = body
    if ast.unparse(a) != "extension = os.path.splitext(filename)[1]":
        _fail("extension assignment: " + ast.unparse(a))
    if not (isinstance(b, ast.Assign) and len(b.targets) == 1 and isinstance(b.targets[0], ast.Name)
            and b.targets[0].id == "supported_extensions" and isinstance(b.value, ast.List)):
        _fail("supported_extensions assignment")
    exts = []
    for e in b.value.elts:
        if not (isinstance(e, ast.Constant) and isinstance(e.value, str)):
            _fail("non-literal extension")
        if not e.value.isascii() or '"' in e.value:
            _fail("extension not plain ASCII")
        exts.append(e.value)
    if ast.unparse(c) != "return extension in supported_extensions":
        _fail("return statement: " + ast.unparse(c))
    return exts


def check_is_supported(repo: Path):
    tree = ast.parse((repo / "codebasin" / "__init__.py").read_text())
    f = _func(tree, "is_supported", "CompileCommand")
    body = _strip_doc(f.body)
    got = [ast.unparse(s) for s in body]
    want = ["if len(self.arguments) > 0 and codebasin.source.is_source_file(self.filename):\n    return True",
            "return False"]
    if got != want:
        _fail("CompileCommand.is_supported: " + repr(got))


def generate(repo: Path):
    exts = extensions(repo)
    check_is_supported(repo)
    lines = ["From Coq Require Import String List.", "Import ListNotations.", "Local Open Scope string_scope.", "",
             "(* codebasin/source.py : is_source_file : supported_extensions *)",
             "Definition source_extensions : list string :=",
             "  [" + "; ".join('"%s"' % e for e in exts) + "].", ""]
    return {"C13_tables.v": "\n".join(lines)}
