"""C11 translator: the options config.ArgumentParser.parse_args registers with argparse.

Parses codebasin/config.py with `ast` (never imports it) and emits
Gen/C11_tables.v:
  c11_options          the add_argument calls for options, in registration order
  c11_argerror_caught  whether parse_known_args sits in a try with an
                       `except argparse.ArgumentError` handler (warn and go on)
  c11_error_raises     whether parser.error is replaced by a function raising ArgumentError
  c11_catalogue        the harness' catalogue of unmodelled options (harness/c11_catalogue.py)
Fail-closed: any add_argument shape, parser constructor keyword or positional
the model does not cover raises (the check then reports a broken tie)."""
import ast
from pathlib import Path

OUTPUTS = ["C11_tables.v"]
HERE = Path(__file__).resolve().parent

DESTS = {"defines": "DDef", "include_paths": "DPath", "system_include_paths": "DSys", "include_files": "DFile"}


def coq_str(s: str) -> str:
    if any(ord(c) < 32 or ord(c) > 126 for c in s):
        raise ValueError(f"non printable character in {s!r}")
    return '"' + s.replace('"', '""') + '"'


def const(node, what):
    if not isinstance(node, ast.Constant):
        raise ValueError(f"{what}: expected a literal, got {ast.dump(node)}")
    return node.value


def find_parse_args(tree):
    for n in tree.body:
        if isinstance(n, ast.ClassDef) and n.name == "ArgumentParser":
            for m in n.body:
                if isinstance(m, ast.FunctionDef) and m.name == "parse_args":
                    return m
    raise ValueError("config.ArgumentParser.parse_args not found")


def is_call_to(node, obj, attr):
    return (isinstance(node, ast.Call) and isinstance(node.func, ast.Attribute) and node.func.attr == attr
            and isinstance(node.func.value, ast.Name) and node.func.value.id == obj)


def generate(repo: Path):
    src = (repo / "codebasin" / "config.py").read_text()
    fn = find_parse_args(ast.parse(src))

    # 1. the parser constructor
    ctor = None
    for n in ast.walk(fn):
        if isinstance(n, ast.Assign) and isinstance(n.value, ast.Call) and isinstance(n.value.func, ast.Attribute) \
                and n.value.func.attr == "ArgumentParser" and isinstance(n.value.func.value, ast.Name) \
                and n.value.func.value.id == "argparse":
            if ctor is not None:
                raise ValueError("more than one argparse.ArgumentParser(...) in parse_args")
            ctor = n
    if ctor is None or len(ctor.targets) != 1 or not isinstance(ctor.targets[0], ast.Name):
        raise ValueError("argparse.ArgumentParser(...) assignment not found")
    pname = ctor.targets[0].id
    if ctor.value.args:
        raise ValueError("positional arguments to argparse.ArgumentParser")
    kws = {k.arg: const(k.value, "ArgumentParser keyword") for k in ctor.value.keywords}
    if kws != {"add_help": False, "exit_on_error": False, "allow_abbrev": False}:
        raise ValueError(f"parser constructed with {kws}; the model assumes add_help=False, exit_on_error=False, allow_abbrev=False")

    # 2. the add_argument calls: top-level statements of parse_args with literal
    #    arguments; the one inside `for option in self.compiler.parser` (starred) is C12's
    options, positionals, starred = [], [], 0
    for n in ast.walk(fn):
        if not is_call_to(n, pname, "add_argument"):
            continue
        if any(isinstance(a, ast.Starred) for a in n.args):
            starred += 1
            if any(k.arg is not None for k in n.keywords):
                raise ValueError("unexpected starred add_argument shape")
            continue
        names = [const(a, "add_argument name") for a in n.args]
        if not names or not all(isinstance(x, str) and x for x in names):
            raise ValueError(f"add_argument names {names}")
        kw = {}
        for k in n.keywords:
            if k.arg not in ("dest", "action", "nargs"):
                raise ValueError(f"add_argument({names}) keyword {k.arg} is not modelled")
            kw[k.arg] = const(k.value, "add_argument keyword")
        if all(x.startswith("-") for x in names):
            for x in names:
                if len(x) < 2 or x.startswith("--") or "=" in x or " " in x:
                    raise ValueError(f"option string {x!r} is outside the model (single dash, no '=' or blank)")
            action = kw.get("action", "store")
            nargs = kw.get("nargs", None)
            dest = kw.get("dest", None)
            if action == "append":
                if dest not in DESTS:
                    raise ValueError(f"append to unmodelled dest {dest!r}")
                d = DESTS[dest]
            elif action == "store":
                if dest in DESTS:
                    raise ValueError(f"store into {dest!r} would replace the list")
                d = "DIgn"
            else:
                raise ValueError(f"add_argument({names}) action {action!r} is not modelled (zero-argument actions cluster)")
            if nargs is None:
                na = "N1"
            elif nargs == "?":
                na = "NOpt"
            else:
                raise ValueError(f"add_argument({names}) nargs {nargs!r} is not modelled")
            options.append((names, na, d))
        elif len(names) == 1 and not names[0].startswith("-"):
            if kw != {"nargs": "*"}:
                raise ValueError(f"positional {names} with {kw}; the model assumes one positional with nargs='*'")
            positionals.append(names[0])
        else:
            raise ValueError(f"mixed option/positional names {names}")
    if starred != 1:
        raise ValueError(f"expected exactly one starred add_argument (compiler-specific options), found {starred}")
    if len(positionals) != 1:
        raise ValueError(f"expected exactly one positional, found {positionals}")
    seen = set()
    for names, _, _ in options:
        for x in names:
            if x in seen:
                raise ValueError(f"option string {x} registered twice")
            seen.add(x)

    # 3. parse_known_args(argv + self.compiler.options, namespace), and its try/except
    calls = [n for n in ast.walk(fn) if is_call_to(n, pname, "parse_known_args")]
    if len(calls) != 1:
        raise ValueError("expected exactly one parse_known_args call")
    call = calls[0]
    if len(call.args) != 2 or call.keywords or not isinstance(call.args[0], ast.BinOp) \
            or not isinstance(call.args[0].op, ast.Add) or ast.unparse(call.args[0]) != "argv + self.compiler.options":
        raise ValueError("parse_known_args is not called as parse_known_args(argv + self.compiler.options, namespace)")
    caught = False
    for t in ast.walk(fn):
        if isinstance(t, ast.Try) and any(c is call for s in t.body for c in ast.walk(s)):
            if len(t.handlers) != 1 or t.orelse or t.finalbody:
                raise ValueError("unexpected try shape around parse_known_args")
            h = t.handlers[0]
            if h.type is None or ast.unparse(h.type) != "argparse.ArgumentError":
                raise ValueError("handler around parse_known_args is not `except argparse.ArgumentError`")
            body = [ast.unparse(s) for s in h.body]
            if len(body) != 2 or not body[0].startswith("log.warning(") or body[1].replace("(", "").replace(")", "") != "args, unrecognized = namespace, []":
                raise ValueError(f"unexpected ArgumentError handler body {body}")
            caught = True

    # 3a. what the configuration is built from: PreprocessorConfiguration(args.defines.copy(),
    #     args.include_paths + args.system_include_paths, args.include_files.copy(), pass_name)
    pcs = [n for n in ast.walk(fn) if isinstance(n, ast.Call) and isinstance(n.func, ast.Name)
           and n.func.id == "PreprocessorConfiguration"]
    if len(pcs) != 1 or pcs[0].keywords or len(pcs[0].args) != 4:
        raise ValueError("expected exactly one PreprocessorConfiguration(defines, include_paths, include_files, pass_name)")
    got = [ast.unparse(a) for a in pcs[0].args]
    has_sys = any(d == "DSys" for _, _, d in options)
    want_paths = ["args.include_paths + args.system_include_paths"] + ([] if has_sys else ["args.include_paths.copy()"])
    if got[0] != "args.defines.copy()" or got[1] not in want_paths or got[2] != "args.include_files.copy()" \
            or got[3] != "pass_name":
        raise ValueError(f"PreprocessorConfiguration is built from {got}; the model assumes defines, include_paths "
                         "followed by system_include_paths, include_files")

    # 3b. parser.error replaced by a function that raises argparse.ArgumentError(None, message)
    error_raises = False
    assigns = [n for n in ast.walk(fn) if isinstance(n, ast.Assign) and len(n.targets) == 1
               and isinstance(n.targets[0], ast.Attribute) and isinstance(n.targets[0].value, ast.Name)
               and n.targets[0].value.id == pname]
    for n in assigns:
        if n.targets[0].attr != "error" or not isinstance(n.value, ast.Name):
            raise ValueError(f"unexpected assignment to {pname}.{n.targets[0].attr}")
        defs = [d for d in ast.walk(fn) if isinstance(d, ast.FunctionDef) and d.name == n.value.id]
        if len(defs) != 1:
            raise ValueError("replacement for parser.error not found")
        d = defs[0]
        if [a.arg for a in d.args.args] != ["message"] or d.args.vararg or d.args.kwarg or d.args.kwonlyargs \
                or len(d.body) != 1 or ast.unparse(d.body[0]) != "raise argparse.ArgumentError(None, message)":
            raise ValueError("replacement for parser.error does not simply raise argparse.ArgumentError(None, message)")
        if n.lineno < ctor.lineno or n.lineno > call.lineno:
            raise ValueError("parser.error must be replaced between construction and parse_known_args")
        error_raises = True
    if len(assigns) > 1:
        raise ValueError("parser.error assigned more than once")

    # 4. the catalogue of unmodelled options used by the harness
    cat_src = (HERE.parent.parent / "harness" / "c11_catalogue.py").read_text()
    cat = None
    for n in ast.parse(cat_src).body:
        if isinstance(n, ast.Assign) and len(n.targets) == 1 and isinstance(n.targets[0], ast.Name) and n.targets[0].id == "CATALOGUE":
            cat = ast.literal_eval(n.value)
    if not cat or not all(isinstance(e, list) and e and all(isinstance(t, str) for t in e) for e in cat):
        raise ValueError("harness/c11_catalogue.py: CATALOGUE must be a non-empty list of non-empty token lists")

    def lst(xs):
        return "[" + "; ".join(xs) + "]"

    lines = [
        "From Coq Require Import String List.",
        "From CBI Require Import Lib.C11_types.",
        "Import ListNotations.",
        "Local Open Scope string_scope.",
        "",
        "(* parser.add_argument(...) calls of config.ArgumentParser.parse_args, in order *)",
        "Definition c11_options : list optdef :=",
        "  " + lst("{| ostrs := %s; onargs := %s; odest := %s |}" % (lst(coq_str(x) for x in names), na, d)
                   for names, na, d in options) + ".",
        "",
        "(* parse_known_args is wrapped in try/except argparse.ArgumentError (warn, keep what was parsed) *)",
        "Definition c11_argerror_caught : bool := %s." % ("true" if caught else "false"),
        "",
        "(* parser.error raises argparse.ArgumentError instead of exiting *)",
        "Definition c11_error_raises : bool := %s." % ("true" if error_raises else "false"),
        "",
        "(* harness/c11_catalogue.py *)",
        "Definition c11_catalogue : list (list string) :=",
        "  " + lst(lst(coq_str(t) for t in e) for e in cat) + ".",
        "",
    ]
    return {"C11_tables.v": "\n".join(lines)}
