"""Translator for C12: the built-in compiler definition files -> Gen/C12_tables.v.

Reads  codebasin/config.py  with `ast` (only to learn WHICH files _load_compilers
reads, and in which order) and the TOML files with `tomllib`.  Never imports
codebasin.  Fail-closed: any key, action, pattern, format or separator outside
the family the Coq model (Model/C12.v) covers raises, which breaks the build of
C12 instead of silently producing a default.

Also used by harness/c12.py (functions rule_of / pattern_of / format_of) so that
user configurations are restricted to exactly the same family."""
from __future__ import annotations

import ast
import re
import tomllib
from pathlib import Path

OUTPUTS = ["C12_tables.v"]

DESTS = {"defines": "DDefs", "include_paths": "DPaths", "include_files": "DFiles", "modes": "DModes", "passes": "DPasses"}
_PAT = re.compile(r"^(?:\(\?:([A-Za-z_]+(?:\|[A-Za-z_]+)*)\))?\(\\d\+\)$")
_FMT = re.compile(r"^([^$]*)\$value((?:[^A-Za-z0-9_$][^$]*)?)$")


class Unsupported(ValueError):
    pass


def pattern_of(p: str) -> list[str]:
    m = _PAT.match(p)
    if not m:
        raise Unsupported(f"extend_match pattern outside the modelled family (?:lit|lit)(\\d+): {p!r}")
    return m.group(1).split("|") if m.group(1) else []


def format_of(f):
    if f is None:
        return None
    m = _FMT.match(f)
    if not m:
        raise Unsupported(f"format outside the modelled family 'text$valuetext': {f!r}")
    return [m.group(1), m.group(2)]


def check_str(s):
    if not isinstance(s, str) or any(ord(c) < 32 or ord(c) > 126 for c in s):
        raise Unsupported(f"string outside printable ASCII: {s!r}")
    return s


def rule_of(opt: dict) -> dict:
    """Normalised parser rule: {flags, act, dest, default}; act is a list."""
    known = {"flags", "action", "dest", "const", "sep", "format", "pattern", "default", "override"}
    extra = set(opt) - known
    if extra:
        raise Unsupported(f"unknown parser keys {sorted(extra)}")
    flags = opt.get("flags")
    if not isinstance(flags, list) or not flags or any(not isinstance(f, str) or len(f) < 2 or f[0] != "-" for f in flags):
        raise Unsupported(f"flags must be a non-empty list of option strings: {flags!r}")
    for f in flags:
        check_str(f)
    if opt.get("dest") not in DESTS:
        raise Unsupported(f"dest outside the five namespace lists: {opt.get('dest')!r}")
    action = opt.get("action")
    allowed = {"append_const": {"const"}, "append": set(), "store_split": {"sep", "format", "default"},
               "extend_match": {"pattern", "format", "default", "override"}}
    if action not in allowed:
        raise Unsupported(f"action not modelled: {action!r}")
    bad = set(opt) - {"flags", "action", "dest"} - allowed[action]
    if bad:
        raise Unsupported(f"keys {sorted(bad)} not modelled for action {action}")
    default = opt.get("default")
    if default is not None:
        if not isinstance(default, list):
            raise Unsupported("string-valued default not modelled")
        for d in default:
            check_str(d)
    if action == "append_const":
        if "const" not in opt:
            raise Unsupported("append_const without const")
        act = ["AC", check_str(opt["const"])]
    elif action == "append":
        act = ["AP"]
    elif action == "store_split":
        sep = opt.get("sep")
        if not isinstance(sep, str) or len(sep) != 1:
            raise Unsupported(f"store_split separator must be one character: {sep!r}")
        fm = format_of(opt.get("format"))
        for x in fm or []:
            check_str(x)
        act = ["SS", check_str(sep), fm]
    else:
        if "pattern" not in opt:
            raise Unsupported("extend_match without pattern")
        fm = format_of(opt.get("format"))
        for x in fm or []:
            check_str(x)
        act = ["EM", pattern_of(opt["pattern"]), fm, bool(opt.get("override", False))]
    return {"flags": flags, "act": act, "dest": opt["dest"], "default": default}


def mode_of(m: dict) -> dict:
    extra = set(m) - {"name", "defines", "include_paths", "include_files"}
    if extra or "name" not in m:
        raise Unsupported(f"mode keys {sorted(m)}")
    return {"name": check_str(m["name"]), "defines": [check_str(x) for x in m.get("defines", [])],
            "include_paths": [check_str(x) for x in m.get("include_paths", [])],
            "include_files": [check_str(x) for x in m.get("include_files", [])]}


def pass_of(p: dict) -> dict:
    extra = set(p) - {"name", "defines", "include_paths", "include_files", "modes"}
    if extra or "name" not in p:
        raise Unsupported(f"pass keys {sorted(p)}")
    d = mode_of({k: v for k, v in p.items() if k != "modes"})
    d["modes"] = [check_str(x) for x in p.get("modes", [])]
    return d


def udef_of(d: dict):
    """['A', target] | ['C', opts|None, rules|None, modes|None, passes|None]"""
    if "alias_of" in d:
        if set(d) != {"alias_of"}:
            raise Unsupported("alias_of mixed with other keys")
        return ["A", check_str(d["alias_of"])]
    extra = set(d) - {"options", "parser", "modes", "passes"}
    if extra:
        raise Unsupported(f"unknown compiler keys {sorted(extra)}")
    return ["C",
            [check_str(x) for x in d["options"]] if "options" in d else None,
            [rule_of(o) for o in d["parser"]] if "parser" in d else None,
            [mode_of(m) for m in d["modes"]] if "modes" in d else None,
            [pass_of(p) for p in d["passes"]] if "passes" in d else None]


# ---------------------------------------------------------------- Coq printing
def q(s: str) -> str:
    return '"' + s.replace('"', '""') + '"'


def ql(l) -> str:
    return "[" + "; ".join(q(x) for x in l) + "]"


def qfmt(f) -> str:
    return "None" if f is None else f"(Some ({q(f[0])}, {q(f[1])}))"


def coq_rule(r) -> str:
    a = r["act"]
    if a[0] == "AC":
        act = f"(AAppendConst {q(a[1])})"
    elif a[0] == "AP":
        act = "AAppend"
    elif a[0] == "SS":
        act = f"(AStoreSplit {q(a[1])}%char {qfmt(a[2])})"
    else:
        act = f"(AExtendMatch {ql(a[1])} {qfmt(a[2])} {'true' if a[3] else 'false'})"
    dflt = "None" if r["default"] is None else f"(Some {ql(r['default'])})"
    return f"{{| r_flags := {ql(r['flags'])}; r_act := {act}; r_dest := {DESTS[r['dest']]}; r_default := {dflt} |}}"


def coq_mode(m) -> str:
    return (f"{{| m_name := {q(m['name'])}; m_defs := {ql(m['defines'])}; m_paths := {ql(m['include_paths'])}; "
            f"m_files := {ql(m['include_files'])} |}}")


def coq_pass(p) -> str:
    return (f"{{| p_name := {q(p['name'])}; p_defs := {ql(p['defines'])}; p_paths := {ql(p['include_paths'])}; "
            f"p_files := {ql(p['include_files'])}; p_modes := {ql(p['modes'])} |}}")


def copt(x, f) -> str:
    return "None" if x is None else "(Some [" + ";\n        ".join(f(y) for y in x) + "])"


def coq_udef(u) -> str:
    if u[0] == "A":
        return f"UAlias {q(u[1])}"
    return ("UComp " + ("None" if u[1] is None else f"(Some {ql(u[1])})") + "\n      " + copt(u[2], coq_rule)
            + "\n      " + copt(u[3], coq_mode) + "\n      " + copt(u[4], coq_pass))


def builtin_names(repo: Path) -> list[str]:
    """The list literal iterated by `for compiler in [...]` inside _load_compilers."""
    tree = ast.parse((repo / "codebasin" / "config.py").read_text())
    fn = [n for n in tree.body if isinstance(n, ast.FunctionDef) and n.name == "_load_compilers"]
    if len(fn) != 1:
        raise Unsupported("_load_compilers not found exactly once")
    loops = [n for n in ast.walk(fn[0]) if isinstance(n, ast.For) and isinstance(n.target, ast.Name)
             and n.target.id == "compiler" and isinstance(n.iter, ast.List)]
    if len(loops) != 1:
        raise Unsupported("expected exactly one `for compiler in [literal list]` in _load_compilers")
    names = []
    for e in loops[0].iter.elts:
        if not (isinstance(e, ast.Constant) and isinstance(e.value, str)):
            raise Unsupported("non-literal element in the built-in file list")
        names.append(e.value)
    return names


def load_builtin(repo: Path):
    """[(file name, [(compiler name, udef)])] in load order."""
    out = []
    for n in builtin_names(repo):
        data = tomllib.loads((repo / "codebasin" / "compilers" / f"{n}.toml").read_text())
        if set(data) != {"compiler"}:
            raise Unsupported(f"{n}.toml: top-level keys {sorted(data)}")
        defs = []
        for name, d in data["compiler"].items():
            u = udef_of(d)
            if u[0] == "C" and all(x is None for x in u[1:]):
                raise Unsupported(f"{n}.toml: empty table for {name} fails the schema (oneOf)")
            defs.append((check_str(name), u))
        out.append((n, defs))
    return out


def generate(repo: Path) -> dict:
    files = load_builtin(repo)
    lines = ["From Coq Require Import Ascii String List.", "From CBI Require Import Model.C12.", "Import ListNotations.",
             "Local Open Scope string_scope.", "Local Open Scope list_scope.", ""]
    for n, defs in files:
        lines.append(f"Definition file_{n} : list (string * udef) :=")
        lines.append("  [ " + ";\n    ".join(f"({q(name)},\n     {coq_udef(u)})" for name, u in defs) + " ].")
        lines.append("")
    lines.append("Definition builtin_files : list (list (string * udef)) := [" + "; ".join(f"file_{n}" for n, _ in files) + "].")
    lines.append("Definition builtin_table : table := load_builtin builtin_files.")
    return {"C12_tables.v": "\n".join(lines) + "\n"}
