#!/usr/bin/env python3
"""One-off helper: the builders' fix: commits were cherry-picked onto /repo main, which changed
their ids.  Rewrites the commit ids quoted in findings/*.json (and docs/*.md, claims/*.json) to the id of
the commit with the same subject on /repo main."""
import json, re, subprocess, sys
from pathlib import Path
V = Path(__file__).resolve().parent.parent
def log(rev):
    out = subprocess.run(["git", "-C", "/repo", "log", "--format=%h %s", rev], capture_output=True, text=True).stdout
    return [l.split(" ", 1) for l in out.splitlines() if " " in l]
allc = {h: s for h, s in log("--all")}
main = {s: h for h, s in log("main")}
mainids = set(main.values())
def remap(m):
    h = m.group(0)
    for k, s in allc.items():
        if k.startswith(h) or h.startswith(k):
            if k in mainids:
                return h
            if s in main:
                return main[s]
    return h
n = 0
for p in list((V / "findings").glob("C*.json")) + list((V / "docs").glob("C*.md")) + list((V / "claims").rglob("C*.json")):
    t = p.read_text()
    t2 = re.sub(r"\b[0-9a-f]{7,10}\b", remap, t)
    if t2 != t:
        p.write_text(t2); n += 1; print("updated", p.relative_to(V))
print(n, "files updated")
