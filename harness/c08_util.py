"""Shared by C08 and C10: generation of multi-command / multi-platform code bases,
materialisation, in-process runners for finder.find and for the two CLIs."""
from __future__ import annotations

import contextlib
import io
import json
import logging
import os
import re
import shlex
import shutil
import subprocess
import sys
from pathlib import Path

from . import common
from .c01 import render_cond, balanced, normalise
from .c04 import render_file, pstr

# coqc (the vm_compute cross-check of the extraction) overflows the default 8 MB stack on the largest
# configurations; child processes inherit this limit
try:
    import resource
    _soft, _hard = resource.getrlimit(resource.RLIMIT_STACK)
    resource.setrlimit(resource.RLIMIT_STACK, (_hard, _hard))
except Exception:  # noqa
    pass

DIRS = [["src"], ["inc1"], ["inc2"], ["src", "sub"]]
HDRS = ["h.h", "g.h", "k.h"]
FLAGS = ["F0", "F1", "F2"]
VALS = ["V0", "V1"]
PMACS = ["H0"]
FWD = ["f.h", "w.h"]                # single-node files (forwarding headers)
FWD_MACS = ["W0", "W1"]            # defined only by a single-node file, always with the same value
TUNE = ["T0", "T1", "T2"]          # defined / undefined only by compiled files, tested by other compiled files and shared headers
MAINS = [["src", "a.c"], ["src", "b.c"], ["src", "sub", "c.c"], ["inc1", "d.c"]]
PLATFORMS = ["P0", "P1", "P2", "P3"]
COMPILERS = ["gcc", "gcc", "cc", "clang", "g++", "icx", "nvcc", "mycc"]


# ---------------------------------------------------------------- generation
def gen_cond(rng, wild=False):
    r = rng.random()
    if r < 0.35:
        return ["Defd", rng.choice(FLAGS + VALS)]
    if r < 0.55:
        return ["NDefd", rng.choice(FLAGS + VALS)]
    if r < 0.68:
        return ["Val", rng.choice(VALS)]
    if r < 0.84:
        return ["Eq", rng.choice(VALS), rng.choice([0, 1, 2])]
    if r < 0.94:
        return ["Gt", rng.choice(VALS), rng.choice([0, 1])]
    if wild and r < 0.97:
        return ["Bad"]
    return ["Const", rng.choice([0, 1, 5])]


def gen_plain(rng, names, wild=False):
    """One plain item (a short list of lines).  Unless `wild`, a #define is always preceded by
    #undef of the same name and a computed include directly follows the definition of its macro,
    so that the reference preprocessor accepts the file whatever was defined before."""
    r = rng.random()
    if r < 0.28:
        return [["Code"]]
    if r < 0.42:
        m = rng.choice(VALS)
        pre = [] if (wild and rng.random() < 0.5) else [["Undef", m]]
        return pre + [["Def", m, rng.choice([0, 1, 2])]]
    if r < 0.56:
        m = rng.choice(FLAGS)
        pre = [] if (wild and rng.random() < 0.5) else [["Undef", m]]
        return pre + [["Def", m, rng.choice(["E", 1])]]
    if r < 0.64:
        return [["Undef", rng.choice(FLAGS + VALS)]]
    if r < 0.67:
        return [["Other"]]
    if r < 0.71:
        # computed include of a macro that only some commands define (-DH0=...)
        return [["If", ["Defd", "H0"]], ["Inc", ["M", "H0"]], ["Endif"]]
    if names:
        n = rng.choice(names)
        rr = rng.random()
        if rr < 0.55:
            return [["Inc", ["Q", n]]]
        if rr < 0.88:
            return [["Inc", ["A", n]]]
        m = rng.choice(PMACS)
        if wild and rng.random() < 0.5:
            return [["Inc", ["M", m]]]
        return [["Undef", m], ["Def", m, ["P", rng.random() < 0.4, n]], ["Inc", ["M", m]]]
    return [["Code"]]


def gen_body(rng, names, depth, budget, wild=False):
    out = []
    for _ in range(rng.randint(1, 5) if depth == 0 else rng.randint(0, 3)):
        if len(out) > budget:
            break
        if depth < 3 and rng.random() < 0.33:
            out.append(["If", gen_cond(rng, wild)])
            out += gen_body(rng, names, depth + 1, budget // 2, wild)
            if rng.random() < 0.4:
                out.append(["Elif", gen_cond(rng, wild)])
                out += gen_body(rng, names, depth + 1, budget // 3, wild)
            if rng.random() < 0.5:
                out.append(["Else"])
                out += gen_body(rng, names, depth + 1, budget // 3, wild)
            out.append(["Endif"])
        else:
            out += gen_plain(rng, names, wild)
    return out


def parse_ok(lines):
    """True if `lines` is a sequence of complete items (a safe place to insert something after it)."""
    return balanced(lines)


def tagname(p):
    return "_".join(p).replace(".", "_")


def gen_files(rng, wild=False, prefix=(), outside=None, cxx=False):
    """Headers (1-4 names, each in 1-3 directories: clashes are the norm; bare, guarded or #pragma once;
    they define, undefine and test the macros the compiled files test) and 2-4 compiled files.
    `prefix` is prepended to every path; `outside` (a path prefix) receives some header copies."""
    prefix = list(prefix)
    names = [[h] for h in rng.sample(HDRS, rng.randint(1, 3))]
    if rng.random() < 0.3:
        names.append(["sub", rng.choice(HDRS)])
    files = {}
    order = list(names)
    for idx, n in enumerate(order):
        later = order[idx + 1:] if rng.random() < 0.9 else order
        places = [prefix + d for d in rng.sample(DIRS, rng.randint(1, 3))]
        if outside is not None and rng.random() < 0.6:
            places.append(list(outside) + rng.choice([["inc1"], ["ext"]]))
        for d in places:
            p = d + n
            body = gen_body(rng, later, 0, 10, wild)
            if rng.random() < 0.35:
                # a shared header testing a macro that only a compiled file defines
                t = rng.choice(TUNE)
                body += rng.choice([[["If", ["Defd", t]], ["Code"], ["Endif"]],
                                    [["If", ["NDefd", t]], ["Code"], ["Else"], ["Code"], ["Endif"]]])
            fp = f"IN_{tagname(p)}"
            body += [["Def", fp, "E"]]          # fingerprint of which copy was read
            style = rng.random()
            if style < 0.35:
                g = f"G_{tagname(p)}"
                body = [["If", ["NDefd", g]], ["Def", g, "E"]] + body + [["Endif"]]
            elif style < 0.65:
                body = [["Once"]] + body
            files[pstr(p)] = [p, normalise(body)]
    # single-node files: a header that is ONLY `#include "other.h"`, only `#define W v`, only `#undef X`,
    # only `#pragma once`, or only one block of code - typically a forwarding header every command reaches
    fwd = []
    for wi, wname in enumerate(rng.sample(FWD, rng.choice([0, 1, 1, 2]))):
        kind = rng.choice(["inc", "inc", "inc", "def", "def", "undef", "once", "code"])
        if kind == "inc":
            line = ["Inc", [rng.choice(["Q", "Q", "A"]), rng.choice(names)]]
        elif kind == "def":
            line = ["Def", FWD_MACS[wi], 1]
        elif kind == "undef":
            line = ["Undef", rng.choice(FLAGS + TUNE + VALS)]
        elif kind == "once":
            line = ["Once"]
        else:
            line = ["Code"]
        places = [prefix + ["src"]] + [prefix + d for d in rng.sample(DIRS[1:], rng.randint(0, 2))]
        for d in places:
            files[pstr(d + [wname])] = [d + [wname], [list(line)]]
        fwd.append([wname])
    names = names + fwd
    mains = [prefix + m for m in rng.sample(MAINS, rng.randint(2, 4))]
    if cxx and rng.random() < 0.45:
        # opt-in (C08): a mixed-language code base - some compiled files get a C++ extension (the language comes
        # from the extension only; parsing is the same), at least one stays C, so that the shared headers are
        # reached from translation units of two languages in one run
        k = rng.randint(1, len(mains) - 1)
        for i in rng.sample(range(len(mains)), k):
            mains[i] = mains[i][:-1] + [mains[i][-1].rsplit(".", 1)[0] + rng.choice([".cpp", ".cpp", ".cc", ".cxx"])]
    if outside is not None and rng.random() < 0.35:
        mains.append(list(outside) + ["ext", "e.c"])       # a compiled file outside the code-base directory
    for mi, m in enumerate(mains):
        body = []
        if rng.random() < 0.85:
            body.append(["Inc", [rng.choice(["Q", "A"]), rng.choice(names)]])
        body += gen_body(rng, names, 0, 14, wild)
        for f in rng.sample(FLAGS + VALS, rng.randint(1, 3)):
            body += [["If", ["Defd", f]], ["Code"], ["Endif"]]
        # macros flowing from one compiled file to the next: this file defines (or undefines) its own
        # tuning macro AFTER any forced include and tests the other files' ones
        mine = TUNE[mi % len(TUNE)]
        r = rng.random()
        if r < 0.6:
            own = [["Undef", mine], ["Def", mine, rng.choice(["E", 1])]]
        elif r < 0.75:
            own = [["Undef", mine]]
        else:
            own = []
        tests = []
        for t in TUNE:
            if t != mine and rng.random() < 0.6:
                tests += rng.choice([[["If", ["Defd", t]], ["Code"], ["Endif"]],
                                     [["If", ["Defd", t]], ["Code"], ["Else"], ["Code"], ["Endif"]],
                                     [["If", ["NDefd", t]], ["Code"], ["Endif"]]])
        k = rng.choice([0, 0, 1, len(body)])
        body = body[:k] + own + body[k:] if parse_ok(body[:k]) else own + body
        body = rng.choice([tests + body, body + tests])
        if fwd and rng.random() < 0.75:
            # reach a single-node file early and test, further down, what it (or what it forwards to) provides
            w = rng.choice(fwd)
            body = [["Inc", [rng.choice(["Q", "Q", "A"]), w]]] + body
            for wm in FWD_MACS:
                if rng.random() < 0.6:
                    body += [["If", ["Defd", wm]], ["Code"], ["Else"], ["Code"], ["Endif"]]
            for f in rng.sample(FLAGS + VALS, 2):
                body += [["If", ["Defd", f]], ["Code"], ["Endif"]]
        files[pstr(m)] = [m, normalise(body)]
    return sorted(files.values(), key=lambda f: f[0]), mains, names


def gen_entry(rng, mains, names, prefix=(), outside=None):
    prefix = list(prefix)
    main = rng.choice(mains)
    pool = [prefix + d for d in DIRS]
    if outside is not None:
        pool += [list(outside) + ["inc1"], list(outside) + ["ext"]]
    dirs = rng.sample(pool, rng.randint(0, 3))
    defs = []
    for m in FLAGS:
        if rng.random() < 0.25:
            defs.append([m, rng.choice(["E", 1])])
    for m in VALS:
        if rng.random() < 0.4:
            defs.append([m, rng.choice([0, 1, 2])])
    if rng.random() < 0.2:
        defs.append(["H0", ["P", rng.random() < 0.5, rng.choice(names)]])
    incs = [rng.choice(names) for _ in range(rng.choice([0, 0, 0, 1, 1, 2]))]
    return [main, dirs, defs, incs]


def gen_group(rng, mains, names, prefix=(), outside=None):
    """2-4 commands with IDENTICAL -I/-D/-include options (0-2 forced includes, mostly >= 1) on different
    compiled files, preferably of one directory - what a build system emits for one target."""
    _, dirs, defs, incs = gen_entry(rng, mains, names, prefix, outside)
    incs = [rng.choice(names) for _ in range(rng.choice([1, 1, 1, 2, 2, 0]))]
    by_dir = {}
    for m in mains:
        by_dir.setdefault(pstr(m[:-1]), []).append(m)
    same = [g for g in by_dir.values() if len(g) >= 2]
    pool = rng.choice(same) if same and rng.random() < 0.7 else list(mains)
    k = rng.choice([2, 2, 3, 4])
    chosen = list(pool)
    rng.shuffle(chosen)
    chosen = chosen[:k]
    while len(chosen) < k:
        chosen.append(rng.choice(pool))
    return [[m, list(dirs), [list(d) for d in defs], [list(n) for n in incs]] for m in chosen]


def gen_cfg(rng, mains, names, prefix=(), outside=None, max_plat=4):
    cfg = []
    for p in PLATFORMS[:rng.randint(1, max_plat)]:
        if rng.random() < 0.45:
            es = gen_group(rng, mains, names, prefix, outside)
            if rng.random() < 0.3:
                es.insert(rng.randint(0, len(es)), gen_entry(rng, mains, names, prefix, outside))
        else:
            k = rng.choice([1, 1, 2, 2, 2, 3, 3, 4])
            es = [gen_entry(rng, mains, names, prefix, outside) for _ in range(k)]
        cfg.append([p, es])
    return cfg


# ---------------------------------------------------------------- materialisation
def node_lines_of(files):
    """path -> list (per node) of physical line numbers, as rendered."""
    return {pstr(p): render_file(ls, style=len(ls))[1] for p, ls in files}


def weights_of(files):
    return [[p, [len(x) for x in render_file(ls, style=len(ls))[1]]] for p, ls in files]


def materialise(files, root, extra_dirs=()):
    if root.exists():
        shutil.rmtree(root)
    root.mkdir(parents=True)
    for p, ls in files:
        f = root.joinpath(*p)
        f.parent.mkdir(parents=True, exist_ok=True)
        f.write_text(render_text(ls))
    for d in extra_dirs:
        root.joinpath(*d).mkdir(parents=True, exist_ok=True)


# ---------------------------------------------------------------- two-level rendering of path-valued macros
# The model says "m is defined to the path (angle, name)" (mval VP).  A faithful C rendering is `#define m "name"`
# or the pair `#define m__P "name"` / `#define m m__P`.  In a case that uses the indirect rendering every
# path-valued definition of m is the pair of nodes  ["Def", m__P, v], ["Def", m, v, m__P]  (4th element = the
# alias the implementation sees; the model sees two VP definitions), every #undef m the pair
# ["Undef", m__P], ["Undef", m], and -D lists carry both.  m__P is defined / undefined only together with m,
# so Platform.define's keep-the-first rule gives the same result in both readings.
ALIAS_SUFFIX = "__P"


def strip_alias_lines(ls):
    return [l[:3] if l[0] == "Def" and len(l) > 3 else l for l in ls]


def strip_alias_defs(defs):
    return [d[:2] for d in defs]


def render_text(ls):
    text, nl = render_file(strip_alias_lines(ls), style=len(ls))
    if not any(l[0] == "Def" and len(l) > 3 for l in ls):
        return text
    out = text.split("\n")
    for i, l in enumerate(ls):
        if l[0] == "Def" and len(l) > 3:
            assert len(nl[i]) == 1
            out[nl[i][0] - 1] = f"#define {l[1]} {l[3]}"
    return "\n".join(out)


def make_indirect(files, cfg):
    """Rewrite a case so that every path-valued macro of PMACS is defined through an alias."""
    def lines(ls):
        out = []
        for l in ls:
            if l[0] == "Def" and l[1] in PMACS and isinstance(l[2], list):
                out += [["Def", l[1] + ALIAS_SUFFIX, l[2]], ["Def", l[1], l[2], l[1] + ALIAS_SUFFIX]]
            elif l[0] == "Undef" and l[1] in PMACS:
                out += [["Undef", l[1] + ALIAS_SUFFIX], ["Undef", l[1]]]
            else:
                out.append(l)
        return out

    def defs(ds):
        out = []
        for d in ds:
            if d[0] in PMACS and isinstance(d[1], list):
                out += [[d[0], d[1], d[0] + ALIAS_SUFFIX], [d[0] + ALIAS_SUFFIX, d[1]]]
            else:
                out.append(d)
        return out
    files2 = [[p, lines(ls)] for p, ls in files]
    cfg2 = [[pn, [[e[0], e[1], defs(e[2]), e[3]] + e[4:] for e in es]] for pn, es in cfg]
    return files2, cfg2


def alias_invariant(files, cfg):
    """The pairing that makes the two readings equivalent (a shrinker must not break it)."""
    for _, ls in files:
        for i, l in enumerate(ls):
            if l[0] == "Def" and len(l) > 3:
                if i == 0 or ls[i - 1] != ["Def", l[3], l[2]]:
                    return False
            if l[0] == "Def" and l[1].endswith(ALIAS_SUFFIX):
                if i + 1 >= len(ls) or ls[i + 1] != ["Def", l[1][:-len(ALIAS_SUFFIX)], l[2], l[1]]:
                    return False
            if l[0] == "Undef" and l[1].endswith(ALIAS_SUFFIX):
                if i + 1 >= len(ls) or ls[i + 1] != ["Undef", l[1][:-len(ALIAS_SUFFIX)]]:
                    return False
        names = {l[1] for l in ls if l[0] in ("Def", "Undef")}
        if any(n + ALIAS_SUFFIX in names for n in PMACS):
            for i, l in enumerate(ls):
                if l[0] == "Undef" and l[1] in PMACS and (i == 0 or ls[i - 1] != ["Undef", l[1] + ALIAS_SUFFIX]):
                    return False
                if l[0] == "Def" and l[1] in PMACS and isinstance(l[2], list) and len(l) == 3:
                    return False
    for _, es in cfg:
        for e in es:
            al = {d[0]: d for d in e[2]}
            for d in e[2]:
                if len(d) > 2 and (d[2] not in al or al[d[2]][1] != d[1]):
                    return False
                if d[0].endswith(ALIAS_SUFFIX):
                    base = d[0][:-len(ALIAS_SUFFIX)]
                    if base not in al or len(al[base]) < 3 or al[base][1] != d[1]:
                        return False
    return True


def uses_indirect(files, cfg):
    return any(l[0] == "Def" and len(l) > 3 for _, ls in files for l in ls) or \
        any(len(d) > 2 for _, es in cfg for e in es for d in e[2])


def define_strings(defs):
    out = []
    for d in defs:
        m, v = d[0], d[1]
        if len(d) > 2:
            out.append(f"{m}={d[2]}")
            continue
        if v == "E":
            out.append(f"{m}=")
        elif isinstance(v, list):
            out.append(f"{m}=<{pstr(v[2])}>" if v[1] else f'{m}="{pstr(v[2])}"')
        else:
            out.append(f"{m}={v}")
    return out


def entry_dict(root, e):
    main, dirs, defs, incs = e[:4]
    return {"file": str(root.joinpath(*main)), "defines": define_strings(defs),
            "include_paths": [str(root.joinpath(*d)) for d in dirs],
            "include_files": [pstr(n) for n in incs]}


def cfg_dict(root, cfg):
    return {p: [entry_dict(root, e) for e in es] for p, es in cfg}


_quiet_done = False


def quiet():
    global _quiet_done
    if not _quiet_done:
        logging.disable(logging.CRITICAL)
        _quiet_done = True


def err_kind(e):
    return ["Err", type(e).__name__]


def run_find(root, cb_root, cfg, files, shapes, exclude=None, want_setmap=True):
    """finder.find in process.  Returns ("Ok", triples, setmap rows) or ["Err", kind].
    triples: sorted [platform, file, node index]; files given relative to `root`."""
    quiet()
    import codebasin
    from codebasin import finder, preprocessor
    cb = codebasin.CodeBase(cb_root, exclude_patterns=list(exclude or []))
    try:
        state = finder.find(str(cb_root), cb, cfg_dict(root, cfg))
    except RecursionError:
        return ["Err", "RecursionError"]
    except Exception as e:  # noqa
        return err_kind(e)
    triples = []
    for p, ls in files:
        f = str(root.joinpath(*p))
        tree = state.get_tree(f)
        if tree is None:
            continue
        amap = state.get_map(f)
        nodes = [n for n in tree.walk() if isinstance(n, preprocessor.CodeNode)]
        if [n.lines for n in nodes] != shapes[pstr(p)]:
            return ["Err", "NodeShapeMismatch", pstr(p)]
        for i, n in enumerate(nodes):
            for name in amap[n]:
                triples.append([name, pstr(p), i])
    rows = None
    if want_setmap:
        try:
            sm = state.get_setmap(cb)
        except Exception as e:  # noqa
            return ["Err", "setmap:" + type(e).__name__]
        rows = canon_rows([[sorted(k), v] for k, v in sm.items()])
    return ["Ok", sorted(triples), rows]


def canon_rows(rows):
    acc = {}
    for k, v in rows:
        acc[tuple(sorted(k))] = acc.get(tuple(sorted(k)), 0) + v
    return sorted([[list(k), v] for k, v in acc.items() if v != 0])


def setmap_from_triples(triples, files, member, names=None):
    """Independent Python rendering of get_setmap from an attribution relation."""
    by = {}
    for n, f, i in triples:
        if names is None or n in names:
            by.setdefault((f, i), set()).add(n)
    shapes = node_lines_of(files)
    rows = []
    for p, ls in files:
        if not member(p):
            continue
        for i, nl in enumerate(shapes[pstr(p)]):
            rows.append([sorted(by.get((pstr(p), i), ())), len(nl)])
    return canon_rows(rows)


def project(triples, names):
    return sorted(t for t in triples if t[0] in names)


# ---------------------------------------------------------------- the CLIs
def write_cli_inputs(root, cfg, seed, toml_exclude=None, shuffle=False, rel_root=None, toml_name="analysis.toml"):
    """One compilation database per platform and analysis.toml in `root` (the code-base root)."""
    import random
    rng = random.Random(seed)
    order = list(cfg)
    if shuffle:
        rng.shuffle(order)
    lines = []
    if toml_exclude is not None:
        lines += ["[codebase]", "exclude = " + json.dumps(list(toml_exclude)), ""]
    for p, es in order:
        es = list(es)
        if shuffle:
            rng.shuffle(es)
        db = []
        for e in es:
            main, dirs, defs, incs = e[:4]
            arch = e[4] if len(e) > 4 else None
            rng_sh = rng
            rng = random.Random(f"{seed}:{json.dumps([dirs, defs, incs, arch])}")     # a function of the options only
            comp = rng.choice(COMPILERS)
            if arch is not None:
                comp = "archcc"                      # defined in .cbi/config (USER_CONFIG)
            args = [comp]
            if arch:
                args += [f"--arch={arch}"] if rng.random() < 0.5 else ["--arch", f"sm{arch}"]
            pieces = [f"-D{d}" for d in define_strings(defs)]
            for d in dirs:
                rel = os.path.relpath(root.joinpath(*d) if rel_root is None else rel_root.joinpath(*d), root)
                if rng.random() < 0.5:
                    pieces.append("-I" + rel)
                else:
                    pieces += ["-I", rel]
            for n in incs:
                pieces += ["-include", pstr(n)]
            args += pieces
            if comp == "nvcc" and rng.random() < 0.5:
                args += ["--gpu-architecture=sm_80"]
            if comp in ("gcc", "clang", "g++", "icx", "nvcc") and rng.random() < 0.3:
                args += ["-fopenmp"]
            args += rng.choice([["-c"], ["-O2", "-c"], ["-c", "-o", "x.o"]])
            frel = os.path.relpath((root if rel_root is None else rel_root).joinpath(*main), root)
            args.append(frel)
            ent = {"file": frel, "directory": str(root)}
            if rng.random() < 0.5:
                ent["arguments"] = args
            else:
                ent["command"] = shlex.join(args)
            db.append(ent)
            rng = rng_sh
        (root / f"db_{p}.json").write_text(json.dumps(db, indent=1))
        lines += [f"[platform.{p}]", f'commands = "db_{p}.json"', ""]
    (root / toml_name).write_text("\n".join(lines))


def _drop_handlers(before):
    lg = logging.getLogger("codebasin")
    for h in list(lg.handlers):
        if h not in before:
            lg.removeHandler(h)
            try:
                h.close()
            except Exception:  # noqa
                pass


def cli_inproc(which, argv, cwd):
    """Run codebasin (which='main') or codebasin.tree (which='tree') in this process.
    Returns (exit code, stdout)."""
    quiet()
    import codebasin.__main__ as cbmain
    import codebasin.tree as cbtree
    import codebasin.coverage.__main__ as cbcov
    lg = logging.getLogger("codebasin")
    before = list(lg.handlers)
    old_level = lg.level
    old_cwd = os.getcwd()
    old_argv = sys.argv
    code = None
    # report.summary/files bind sys.stdout as a default argument at import time, so the
    # redirection has to happen at file-descriptor level
    cap = common.scratch() / "cli_stdout.txt"
    sys.stdout.flush()
    sys.__stdout__.flush()
    saved = os.dup(1)
    fd = os.open(str(cap), os.O_WRONLY | os.O_CREAT | os.O_TRUNC, 0o600)
    os.dup2(fd, 1)
    os.close(fd)
    os.chdir(cwd)
    try:
        sys.argv = [{"main": "codebasin", "tree": "codebasin.tree", "cov": "codebasin.coverage"}[which]] + list(argv)
        with contextlib.redirect_stderr(io.StringIO()):
            try:
                if which == "main":
                    cbmain.main()
                elif which == "cov":
                    cbcov.main()
                else:
                    cbtree.main()
                code = 0
            except SystemExit as e:
                code = e.code if isinstance(e.code, int) else (0 if e.code is None else 1)
    finally:
        sys.stdout.flush()
        sys.__stdout__.flush()
        os.dup2(saved, 1)
        os.close(saved)
        sys.argv = old_argv
        os.chdir(old_cwd)
        _drop_handlers(before)
        lg.setLevel(old_level)
        try:
            os.unlink(os.path.join(cwd, "cbi.log"))
        except OSError:
            pass
    return code, cap.read_text()


def cli_subproc(which, argv, cwd):
    env = dict(os.environ)
    env["PYTHONPATH"] = str(common.REPO)
    env["PYTHONHASHSEED"] = "0"
    mod = {"main": "codebasin", "tree": "codebasin.tree", "cov": "codebasin.coverage"}[which]
    p = subprocess.run([sys.executable, "-W", "ignore", "-m", mod] + list(argv), cwd=cwd, env=env,
                       capture_output=True, text=True, timeout=120)
    try:
        os.unlink(os.path.join(cwd, "cbi.log"))
    except OSError:
        pass
    return p.returncode, p.stdout


_ROW = re.compile(r"^\s*│\s*\{(.*?)\}\s*│\s*(\d+)\s*│")


def parse_summary(text):
    rows = []
    for line in text.splitlines():
        m = _ROW.match(line)
        if m:
            names = [x.strip() for x in m.group(1).split(",") if x.strip()]
            rows.append([names, int(m.group(2))])
    return canon_rows(rows)


_TREE = re.compile(r"^\[([A-Z-]*)\s*\|\s*(\d+)\s*\|\s*([0-9.naNA]+)\s*\|\s*([0-9.naNA]+)\] (.*)$")


def parse_tree(text):
    """-> (legend {letter: platform}, {relative file path: [platform letters, sloc]})."""
    legend = {}
    rows = {}
    stack = []
    for line in text.splitlines():
        m = re.match(r"^([A-Z]): (.*)$", line)
        if m:
            legend[m.group(1)] = m.group(2)
            continue
        m = _TREE.match(line)
        if not m:
            continue
        rest = m.group(5)
        k = re.search(r"(o|--) (.*)$", rest)
        if not k:
            continue
        indent = rest.index(k.group(0))
        name = k.group(2)
        if k.group(1) == "o":
            level = indent // 2
            stack = stack[:level] + [name.rstrip("/") if level else ""]
        else:
            level = (indent - 1) // 2 + 1
            path = [s_ for s_ in stack[1:level]] + [name]
            plats = sorted(legend[c] for c in m.group(1) if c != "-")
            rows["/".join(path)] = [plats, int(m.group(2)), m.group(3)]
    return rows


def tree_prediction(triples, files, member, names, strip=0):
    by = {}
    for n, f, i in triples:
        if n in names:
            by.setdefault((f, i), set()).add(n)
    shapes = node_lines_of(files)
    rows = {}
    for p, ls in files:
        if not member(p):
            continue
        plats = set()
        used = 0
        total = 0
        for i, nl in enumerate(shapes[pstr(p)]):
            s = by.get((pstr(p), i), ())
            total += len(nl)
            if s:
                plats |= set(s)
                used += len(nl)
        cov = "nan" if total == 0 else f"{(used / total) * 100.0:.2f}"
        rows[pstr(p[strip:])] = [sorted(plats), total, cov]
    return rows


# ---------------------------------------------------------------- exclude patterns (C10)
def render_pat(pt):
    k = pt[0]
    if k == "Exact":
        r = pt[1]
        return ("/" if (len(pt) > 2 and pt[2]) or len(r) == 1 else "") + "/".join(r)
    if k == "Dir":
        return pt[1] + "/"
    if k == "Ext":
        return "*." + pt[1]
    if k == "Base":
        return pt[1]
    if k == "Glob":
        _, neg, lead, dironly, segs = pt
        return ("!" if neg else "") + ("/" if lead else "") + "/".join(segs) + ("/" if dironly else "")
    raise ValueError(pt)


def is_shape(pt):
    return pt[0] in ("Exact", "Dir", "Ext", "Base")


def _seg_match(seg, name):
    """One path component against one pattern segment; `*` does not cross a slash."""
    rx = "[^/]*".join(re.escape(x) for x in seg.split("*"))
    return re.fullmatch(rx, name) is not None


def _segs_match(segs, comps):
    if not segs:
        return not comps
    if segs[0] == "**":
        if len(segs) == 1:
            return len(comps) >= 1                      # trailing /**: everything inside
        return any(_segs_match(segs[1:], comps[i:]) for i in range(len(comps) + 1))
    return bool(comps) and _seg_match(segs[0], comps[0]) and _segs_match(segs[1:], comps[1:])


def pat_negated(pt):
    return pt[0] == "Glob" and bool(pt[1])


def direct_match(pt, comps, is_dir):
    """Does the pattern match THIS path (a file, or a directory when is_dir), not one of its parents?
    Independent Python reading of the gitignore rules for the shapes the generator emits."""
    k = pt[0]
    if k == "Exact":
        return comps == pt[1]
    if k == "Dir":
        return is_dir and comps[-1] == pt[1]
    if k == "Ext":
        return comps[-1].endswith("." + pt[1])
    if k == "Base":
        return comps[-1] == pt[1]
    if k == "Glob":
        _, neg, lead, dironly, segs = pt
        if dironly and not is_dir:
            return False
        if not lead and len(segs) == 1:
            return _seg_match(segs[0], comps[-1])       # no slash: matches at any depth
        return _segs_match(segs, comps)
    raise ValueError(pt)


def _decide(pats, comps, is_dir):
    res = False
    for pt in pats:
        if direct_match(pt, comps, is_dir):
            res = not pat_negated(pt)
    return res


def ignored_git(pats, rel):
    """git's rule: a file below an excluded directory is ignored (it cannot be re-included);
    otherwise the last pattern matching the file itself decides."""
    for i in range(1, len(rel)):
        if _decide(pats, rel[:i], True):
            return True
    return _decide(pats, rel, False)


def ignored_lastmatch(pats, rel):
    """the simple reading: the last pattern matching the file or any of its parents decides"""
    res = False
    for pt in pats:
        if direct_match(pt, rel, False) or any(direct_match(pt, rel[:i], True) for i in range(1, len(rel))):
            res = not pat_negated(pt)
    return res


def readings_agree(pats, rels):
    """The two readings coincide on these paths: the list is outside C09's known classes
    (re-inclusion below an excluded directory), where pathspec and git differ."""
    return all(ignored_git(pats, r) == ignored_lastmatch(pats, r) for r in rels)


def pat_matches(pt, rel):
    return direct_match(pt, rel, False) or any(direct_match(pt, rel[:i], True) for i in range(1, len(rel)))


def member_py(root_prefix, pats):
    root_prefix = list(root_prefix)

    def m(p):
        if p[:len(root_prefix)] != root_prefix or len(p) <= len(root_prefix):
            return False
        return not ignored_git(pats, p[len(root_prefix):])
    return m


def coverage_prediction(triples, files, member, name, strip=0):
    used = {(f, i) for n, f, i in triples if n == name}
    shapes = node_lines_of(files)
    rows = []
    for p, ls in files:
        if not member(p):
            continue
        u, un = [], []
        for i, nl in enumerate(shapes[pstr(p)]):
            (u if (pstr(p), i) in used else un).extend(nl)
        rows.append([pstr(p[strip:]), sorted(u), sorted(un)])
    return sorted(rows)


# ---------------------------------------------------------------- a user-defined compiler with passes (C08 cli kind)
USER_CONFIG = """[compiler.archcc]

[[compiler.archcc.parser]]
flags = ["--arch"]
action = "extend_match"
pattern = '(\\d+)'
format = "a$value"
dest = "passes"
default = ["a1"]

[[compiler.archcc.passes]]
name = "a1"
defines = ["V1=1"]

[[compiler.archcc.passes]]
name = "a2"
defines = ["V1=2"]
"""


def write_user_config(root):
    (root / ".cbi").mkdir(exist_ok=True)
    (root / ".cbi" / "config").write_text(USER_CONFIG)


def expand_entry(e):
    """A command of the user-defined compiler `archcc` is one entry per pass: the default pass, pass a1
    (the option's default) and, with --arch=2, pass a2; a pass appends its defines AFTER the command's -D."""
    if len(e) <= 4 or e[4] is None:
        return [e[:4]]
    main, dirs, defs, incs, arch = e
    out = [[main, dirs, defs, incs], [main, dirs, defs + [["V1", 1]], incs]]
    if arch == 2:
        out.append([main, dirs, defs + [["V1", 2]], incs])
    return out


def expand_cfg(cfg):
    return [[p, [x for e in es for x in expand_entry(e)]] for p, es in cfg]
