"""C04 — #include resolution and cross-file attribution: finder.find vs multi-file model M vs textual-inclusion spec S."""
from __future__ import annotations

import logging
import os
import shutil
import subprocess
from pathlib import Path

from . import common
from .common import Check, enc
from .c01 import render_cond, gen_cond, balanced, normalise, parse_items, unparse_items, shrink_candidates

DIRS = [["src"], ["inc1"], ["inc2"], ["src", "sub"]]
HDRS = ["h.h", "g.h", "k.h"]
FLAGS = ["F0", "F1"]
VALS = ["V0", "V1"]
PMACS = ["H0", "H1"]


def pstr(p):
    return "/".join(p)


# ---------------------------------------------------------------- rendering
def render_file(lines, style=0):
    out = []
    node_lines = []
    for i, l in enumerate(lines):
        k = l[0]
        start = len(out) + 1
        if k == "Code":
            for j in range(1 + (i + style) % 2):
                out.append(f"int tok_{i}_{j};")
        elif k == "Def":
            v = l[2]
            if v == "E":
                out.append(f"#define {l[1]}")
            elif isinstance(v, list):
                out.append(f"#define {l[1]} " + (f"<{pstr(v[2])}>" if v[1] else f'"{pstr(v[2])}"'))
            else:
                out.append(f"#define {l[1]} {v}")
        elif k == "Undef":
            out.append(f"#undef {l[1]}")
        elif k == "Other":
            out.append("#pragma unroll")
        elif k == "Once":
            out.append("#pragma once")
        elif k == "Inc":
            s = l[1]
            if s[0] == "Q":
                out.append(f'#include "{pstr(s[1])}"')
            elif s[0] == "A":
                out.append(f"#include <{pstr(s[1])}>")
            else:
                out.append(f"#include {s[1]}")
        elif k == "If":
            out.append(render_cond(l[1], False, style + i))
        elif k == "Elif":
            out.append(render_cond(l[1], True, style + i))
        elif k == "Else":
            out.append("#else")
        elif k == "Endif":
            out.append("#endif")
        else:
            raise ValueError(l)
        node_lines.append(list(range(start, len(out) + 1)))
    return "\n".join(out) + ("\n" if out else ""), node_lines


# ---------------------------------------------------------------- generation
def gen_plain(rng, names, depth_ok=True):
    r = rng.random()
    if r < 0.30:
        return [["Code"]]
    if r < 0.42:
        m = rng.choice(VALS)
        pre = [["Undef", m]] if rng.random() < 0.8 else []
        return pre + [["Def", m, rng.choice([0, 1, 2])]]
    if r < 0.52:
        m = rng.choice(FLAGS)
        pre = [["Undef", m]] if rng.random() < 0.7 else []
        return pre + [["Def", m, rng.choice(["E", 1])]]
    if r < 0.60:
        return [["Undef", rng.choice(FLAGS + VALS)]]
    if r < 0.64:
        return [["Other"]]
    if r < 0.70 and names:
        m = rng.choice(PMACS)
        return [["Undef", m], ["Def", m, ["P", rng.random() < 0.4, rng.choice(names)]]]
    if names:
        n = rng.choice(names)
        rr = rng.random()
        if rr < 0.55:
            return [["Inc", ["Q", n]]]
        if rr < 0.88:
            return [["Inc", ["A", n]]]
        return [["Inc", ["M", rng.choice(PMACS)]]]
    return [["Code"]]


def gen_body(rng, names, depth, budget):
    out = []
    for _ in range(rng.randint(1, 5) if depth == 0 else rng.randint(0, 3)):
        if len(out) > budget:
            break
        if depth < 3 and rng.random() < 0.3:
            out.append(["If", gen_cond(rng)])
            out += gen_body(rng, names, depth + 1, budget // 2)
            if rng.random() < 0.4:
                out.append(["Elif", gen_cond(rng)])
                out += gen_body(rng, names, depth + 1, budget // 3)
            if rng.random() < 0.5:
                out.append(["Else"])
                out += gen_body(rng, names, depth + 1, budget // 3)
            out.append(["Endif"])
        else:
            out += gen_plain(rng, names)
    return out


def decorate(rng, body, d):
    """Respell some include names with '.' / '..' segments (the directories all exist, so
    lexical and physical resolution agree).  d = directory of the including file."""
    tops = ["src", "inc1", "inc2"]
    out = []
    for l in body:
        if l[0] == "Inc" and l[1][0] in ("Q", "A") and rng.random() < 0.3:
            n = l[1][1]
            r = rng.random()
            if r < 0.35:
                n2 = ["."] + n
            elif r < 0.8:
                # from any directory of depth len(d): climb one level and name a sibling
                n2 = [".."] + ([rng.choice(tops)] if len(d) == 1 else [rng.choice(["sub", "."])]) + n
            else:
                n2 = n[:-1] + [".", n[-1]]
            out.append(["Inc", [l[1][0], n2]])
        else:
            out.append(l)
    return out


def gen_case(rng):
    # header names (possibly with a sub-directory component)
    names = [[h] for h in rng.sample(HDRS, rng.randint(1, 3))]
    if rng.random() < 0.3:
        names.append(["sub", rng.choice(HDRS)])
    files = {}
    guards = {}                                   # header name -> guard macros of its guarded copies
    # place each header name in 1..3 directories (clashes are the norm)
    order = list(names)
    for idx, n in enumerate(order):
        later = order[idx + 1:] if rng.random() < 0.85 else order   # mostly acyclic
        for d in rng.sample(DIRS, rng.randint(1, 3)):
            p = d + n
            body = decorate(rng, gen_body(rng, later, 0, 12), d)
            if rng.random() < 0.5:
                body.append(["Def", f"IN_{'_'.join(p).replace('.', '_')}", "E"])   # fingerprint of which copy was read
            else:
                # a body whose second pass differs from its first (exposes a header processed twice)
                t = f"T_{'_'.join(p).replace('.', '_')}"
                body += [["If", ["Defd", t]], ["Code"], ["Endif"], ["Def", t, "E"]]
            style = rng.random()
            # a header that may take part in an include cycle (back edge, or a computed include whose
            # target is decided elsewhere) is always guarded or #pragma once: unguarded cycles with
            # two or more includes per level grow exponentially in the implementation and the model
            # alike (the linear unguarded self-include is a corpus case)
            strictly_later = {pstr(x) for x in order[idx + 1:]}
            risky = any(l[0] == "Inc" and (l[1][0] == "M" or pstr([c for c in l[1][1] if c not in (".", "..", "src", "inc1", "inc2", "sub")]) not in strictly_later
                                           and pstr(l[1][1][-1:]) not in strictly_later)
                        for l in body)
            if risky and style >= 0.6:
                style = rng.random() * 0.6
            if style < 0.35:
                g = f"G_{'_'.join(p).replace('.', '_')}"
                body = [["If", ["NDefd", g]], ["Def", g, "E"]] + body + [["Endif"]]
                guards.setdefault(pstr(n), []).append(g)
            elif style < 0.6:
                body = [["Once"]] + body
            files[pstr(p)] = [p, normalise(body)]
    main = ["src", "a.c"]
    body = decorate(rng, gen_body(rng, names, 0, 20), ["src"])
    if rng.random() < 0.2:
        # a header that re-enters itself a bounded number of times: every inclusion is processed
        # under the macro state at that point and what it defines is visible afterwards
        d = rng.choice(DIRS[:3])
        it = d + ["iter.h"]
        files[pstr(it)] = [it, [["If", ["NDefd", "IT1"]], ["Def", "IT1", "E"], ["Inc", ["Q", ["iter.h"]]], ["Code"],
                                ["Elif", ["NDefd", "IT2"]], ["Def", "IT2", "E"], ["Inc", ["Q", ["iter.h"]]],
                                ["Else"], ["Def", "IT3", "E"], ["Code"], ["Endif"]]]
        pos = rng.randint(0, len(body))
        body = body[:pos] + [["Inc", ["Q", [".."] + it if d != ["src"] else ["iter.h"]]],
                             ["If", ["Defd", "IT3"]], ["Code"], ["Else"], ["Code"], ["Endif"]] + body[pos:]
    if guards and rng.random() < 0.3:
        # a guarded header included, its guard(s) undefined, and the header included again: an include
        # guard is only a macro test made at EACH inclusion, so the second inclusion is processed under
        # the macro state at that point (a header must not be remembered as "guarded, skip it")
        n = [x for x in names if pstr(x) in guards]
        n = rng.choice(n)
        form = rng.choice(["Q", "A"])
        blk = [["Inc", [form, n]]] + [["Undef", g] for g in guards[pstr(n)]]
        if rng.random() < 0.5:
            m = rng.choice(FLAGS)
            blk += [["Undef", m]] if rng.random() < 0.5 else [["Undef", m], ["Def", m, "E"]]
        blk += [["Inc", [rng.choice(["Q", "A"]) if rng.random() < 0.3 else form, n]]]
        pos = rng.randint(0, len(body)) if all(l[0] not in ("If", "Elif", "Else", "Endif") for l in body) else len(body)
        body = body[:pos] + blk + body[pos:]
    # make sure the main file includes something
    body = gen_plain(rng, names)[:0] + [["Inc", [rng.choice(["Q", "A"]), rng.choice(names)]]] + body
    for m in FLAGS:
        body += [["If", ["Defd", m]], ["Code"], ["Endif"]]
    files[pstr(main)] = [main, normalise(body)]
    dirs = rng.sample(DIRS, rng.randint(0, 3))
    defs = []
    for m in FLAGS:
        if rng.random() < 0.3:
            defs.append([m, rng.choice(["E", 1])])
    for m in VALS:
        if rng.random() < 0.5:
            defs.append([m, rng.choice([0, 1, 2])])
    if rng.random() < 0.3:
        defs.append([rng.choice(PMACS), ["P", rng.random() < 0.5, rng.choice(names)]])
    incs = [rng.choice(names) for _ in range(rng.choice([0, 0, 0, 1, 1, 2]))]
    entry = [main, dirs, defs, incs]
    more = []
    if rng.random() < 0.3:
        # further commands of the same platform: other compiled files (or the same one) with
        # their own -I order / -D set - nothing found or defined for one may leak into the next
        for j in range(rng.randint(1, 2)):
            m2 = ["src", f"b{j}.c"]
            b2 = decorate(rng, gen_body(rng, names, 0, 12), ["src"])
            b2 = [["Inc", [rng.choice(["Q", "A"]), rng.choice(names)]]] + b2
            files[pstr(m2)] = [m2, normalise(b2)]
            d2 = list(dirs)
            rng.shuffle(d2)
            if rng.random() < 0.4:
                d2 = rng.sample(DIRS, rng.randint(0, 3))
            more.append([m2, d2, [d for d in defs if rng.random() < 0.7], []])
    if len(dirs) >= 2 and rng.random() < 0.3:
        # a directory named twice with another one in between (generated build lines): the first
        # occurrence decides its place in the search order
        k = rng.randrange(len(dirs) - 1)
        dirs = dirs + [dirs[k]]
        entry[1] = dirs
    elif dirs and rng.random() < 0.45:
        # the directories are given on a command line as -I / -isystem (1 = -isystem) and go
        # through config.ArgumentParser.parse_args
        entry.append([1 if rng.random() < 0.5 else 0 for _ in dirs])
    if more:
        return [sorted(files.values(), key=lambda f: f[0]), entry, more]
    return [sorted(files.values(), key=lambda f: f[0]), entry]


CORPUS_EXTRA = [
    # an include guard is a macro test made at each inclusion: after #undef of the guard the header is processed again
    [[[["src", "a.c"], [["Inc", ["Q", ["defs.h"]]], ["Undef", "DEFS_H"], ["Def", "WIDE", "E"], ["Inc", ["Q", ["defs.h"]]],
                        ["If", ["Defd", "HAVE_WIDE"]], ["Code"], ["Endif"], ["Code"]]],
      [["src", "defs.h"], [["If", ["NDefd", "DEFS_H"]], ["Def", "DEFS_H", "E"], ["If", ["Defd", "WIDE"]], ["Def", "HAVE_WIDE", "E"], ["Code"],
                           ["Else"], ["Code"], ["Endif"], ["Endif"]]]],
     [["src", "a.c"], [], [], []]],
    # -I inc1 -I inc2 -I inc1: the repeated directory keeps its FIRST position
    [[[["inc1", "h.h"], [["Def", "FROM_1", "E"]]], [["inc2", "h.h"], [["Def", "FROM_2", "E"]]],
      [["src", "a.c"], [["Inc", ["A", ["h.h"]]], ["If", ["Defd", "FROM_1"]], ["Code"], ["Else"], ["Code"], ["Endif"]]]],
     [["src", "a.c"], [["inc1"], ["inc2"], ["inc1"]], [], []]],
    # the same #pragma once header forced twice (-include h.h -include h.h) is read once
    [[[["src", "a.c"], [["Code"]]],
      [["src", "h.h"], [["Once"], ["If", ["Defd", "SEEN"]], ["Code"], ["Endif"], ["Def", "SEEN", "E"]]]],
     [["src", "a.c"], [], [], [["h.h"], ["h.h"]]]],
    # an unguarded header that includes itself: the implementation hits the recursion limit, the model its include-depth fuel
    [[[["src", "a.c"], [["Inc", ["Q", ["h.h"]]], ["Code"]]], [["src", "h.h"], [["Code"], ["Inc", ["Q", ["h.h"]]]]]],
     [["src", "a.c"], [], [], []]],
    # two commands of one platform with opposite -I order: each resolves <h.h> along ITS OWN list
    [[[["inc1", "h.h"], [["Def", "FROM_1", "E"]]], [["inc2", "h.h"], [["Def", "FROM_2", "E"]]],
      [["src", "a.c"], [["Inc", ["A", ["h.h"]]], ["If", ["Defd", "FROM_1"]], ["Code"], ["Endif"]]],
      [["src", "b0.c"], [["Inc", ["A", ["h.h"]]], ["If", ["Defd", "FROM_2"]], ["Code"], ["Endif"]]]],
     [["src", "a.c"], [["inc1"], ["inc2"]], [], []],
     [[["src", "b0.c"], [["inc2"], ["inc1"]], [], []]]],
    # -isystem before -I on the command line: a compiler still searches the -I directory first
    [[[["inc1", "h.h"], [["Def", "FROM_I", "E"]]], [["inc2", "h.h"], [["Def", "FROM_SYS", "E"]]],
      [["src", "a.c"], [["Inc", ["A", ["h.h"]]], ["If", ["Defd", "FROM_I"]], ["Code"], ["Endif"]]]],
     [["src", "a.c"], [["inc2"], ["inc1"]], [], [], [1, 0]]],
    # a #pragma once header reached through two spellings is processed once (its second pass would differ)
    [[[["common", "once.h"], [["Once"], ["If", ["Defd", "SEEN"]], ["Code"], ["Endif"], ["Def", "SEEN", "E"]]],
      [["src", "a.c"], [["Inc", ["Q", ["..", "common", "once.h"]]], ["Inc", ["Q", ["..", "common", ".", "once.h"]]],
                        ["Inc", ["A", ["once.h"]]], ["Code"]]]],
     [["src", "a.c"], [["common"]], [], []]],
    # the memo must not carry a resolution from one includer directory to another
    [[[["d1", "a.h"], [["Inc", ["Q", ["h.h"]]]]], [["d1", "h.h"], [["Def", "FROM_D1", "E"]]],
      [["d2", "b.h"], [["Inc", ["Q", ["h.h"]]]]], [["d2", "h.h"], [["Def", "FROM_D2", "E"]]],
      [["src", "a.c"], [["Inc", ["Q", ["a.h"]]], ["Inc", ["Q", ["b.h"]]], ["If", ["Defd", "FROM_D2"]], ["Code"], ["Endif"]]]],
     [["src", "a.c"], [["d1"], ["d2"]], [], []]],
    # a failed angle include must not poison a later resolvable quote include of the same spelling
    [[[["src", "a.c"], [["Inc", ["A", ["x.h"]]], ["Inc", ["Q", ["x.h"]]], ["If", ["Defd", "X"]], ["Code"], ["Endif"]]],
      [["src", "x.h"], [["Def", "X", "E"]]]],
     [["src", "a.c"], [], [], []]],
    # quote include found beside the includer although an -I directory is listed first
    [[[["inc1", "h.h"], [["Def", "INC", "E"]]], [["src", "h.h"], [["Def", "SRC", "E"]]],
      [["src", "a.c"], [["Inc", ["Q", ["h.h"]]], ["Inc", ["A", ["h.h"]]]]]],
     [["src", "a.c"], [["inc1"]], [], []]],
]


class C04(Check):
    prop_id = "C04"
    rule = ("multi-directory trees (src, inc1, inc2, src/sub) with 1-4 header names each placed in 1-3 directories (name clashes are the norm), "
            "quote/angle/computed includes nested, guarded / #pragma once / bare headers that define, undefine and test macros, random "
            "-I order, -D sets and 0-2 -include files; non-trivial = at least two files attributed AND some header name exists in >= 2 directories "
            "AND at least one node skipped")
    assumptions = ["paths are absolute and normalised, without symbolic links (C13/C15 cover spelling and links)",
                   "a missing forced include (-include) is ignored by CBI and diagnosed by gcc: such cases are outside C04's quantifier (missing headers excluded)"]

    def __init__(self, tier, seed):
        super().__init__(tier, seed)
        self.oracle_cases = 0
        self.oracle_bad = []
        self.oracle_skipped = 0

    def generate(self):
        out = [c for c in CORPUS_EXTRA]
        n = 250 if self.tier == "quick" else 4000
        for _ in range(n):
            out.append(gen_case(self.rng))
        return out

    def encode(self, case):
        files, entry = case[0], case[1]
        if len(case) > 2:
            return enc([[[p, ls] for p, ls in files], entry, case[2]])
        return enc([[[p, ls] for p, ls in files], entry])

    # ---- implementation ----
    def materialise(self, case, root):
        files, entry = case[0], case[1]
        if root.exists():
            shutil.rmtree(root)
        root.mkdir(parents=True)
        shapes = {}
        for p, ls in files:
            f = root.joinpath(*p)
            f.parent.mkdir(parents=True, exist_ok=True)
            text, nl = render_file(ls, style=len(ls))
            f.write_text(text)
            shapes[pstr(p)] = nl
        for d in DIRS:
            root.joinpath(*d).mkdir(parents=True, exist_ok=True)
        return shapes

    def impl(self, case):
        logging.disable(logging.CRITICAL)
        import codebasin
        from codebasin import finder, platform as cbplatform, preprocessor
        files, entry = case[0], case[1]
        more = case[2] if len(case) > 2 else []
        root = common.scratch() / "c04"
        shapes = self.materialise(case, root)
        main, dirs, defs, incs = entry[:4]
        kinds = entry[4] if len(entry) > 4 else None
        defines = []
        for m, v in defs:
            if v == "E":
                defines.append(f"{m}=")
            elif isinstance(v, list):
                defines.append(f"{m}=<{pstr(v[2])}>" if v[1] else f'{m}="{pstr(v[2])}"')
            else:
                defines.append(f"{m}={v}")
        created = []
        records = []

        class Capturing(cbplatform.Platform):
            def __init__(self, *a, **k):
                super().__init__(*a, **k)
                created.append(self)

        class H(logging.Handler):
            def emit(self, rec):
                records.append(rec.getMessage())
        orig = finder.platform.Platform
        finder.platform.Platform = Capturing
        lg = logging.getLogger("codebasin")
        h = H()
        lg.addHandler(h)
        logging.disable(logging.NOTSET)
        old_level = lg.level
        lg.setLevel(logging.WARNING)
        old_prop = lg.propagate
        lg.propagate = False
        try:
            cb = codebasin.CodeBase(root)
            ipaths = [str(root.joinpath(*d)) for d in dirs]
            if kinds is not None:
                from codebasin import config as cbconfig
                argv = []
                for i, (d, k) in enumerate(zip(ipaths, kinds)):
                    flag = "-isystem" if k else "-I"
                    argv += [flag, d] if (k or i % 2) else [flag + d]
                ipaths = cbconfig.ArgumentParser("cc").parse_args(argv + ["-c", "a.c"])[0].include_paths
            cfg = {"P": [{"file": str(root.joinpath(*main)), "defines": defines,
                          "include_paths": ipaths,
                          "include_files": [pstr(n) for n in incs]}]}
            for (m2, d2, f2, i2) in more:
                defs2 = []
                for m, v in f2:
                    if v == "E":
                        defs2.append(f"{m}=")
                    elif isinstance(v, list):
                        defs2.append(f"{m}=<{pstr(v[2])}>" if v[1] else f'{m}="{pstr(v[2])}"')
                    else:
                        defs2.append(f"{m}={v}")
                cfg["P"].append({"file": str(root.joinpath(*m2)), "defines": defs2,
                                 "include_paths": [str(root.joinpath(*d)) for d in d2],
                                 "include_files": [pstr(n) for n in i2]})
            try:
                state = finder.find(str(root), cb, cfg)
            except RecursionError:
                return ["Err", "RecursionError"]
            except Exception as e:  # noqa
                return ["Err", type(e).__name__]
        finally:
            finder.platform.Platform = orig
            lg.removeHandler(h)
            lg.setLevel(old_level)
            lg.propagate = old_prop
            logging.disable(logging.CRITICAL)
        assoc = []
        for p, ls in files:
            f = str(root.joinpath(*p))
            tree = state.get_tree(f)
            if tree is None:
                continue
            amap = state.get_map(f)
            nodes = [n for n in tree.walk() if isinstance(n, preprocessor.CodeNode)]
            if [n.lines for n in nodes] != shapes[pstr(p)]:
                return ["Err", "NodeShapeMismatch", pstr(p)]
            for i, n in enumerate(nodes):
                if "P" in amap[n]:
                    assoc.append([pstr(p), i])
        events = []
        import re
        for msg in records:
            m = re.match(r"(.*):(\d+): (user|system) include '(.*)' not found", msg.split("\n")[0])
            if m:
                fpath = os.path.relpath(m.group(1), root)
                events.append([fpath, int(m.group(2)), m.group(4), m.group(3) == "system"])
        envd = sorted(created[-1]._definitions.keys())
        return ["Ok", sorted(assoc), sorted(events), envd]

    def _view(self, case, ans):
        if ans[0] != "Ok":
            kind = ans[1].split(":")[0]
            # unbounded include recursion: Python's recursion limit / the model's include-depth fuel
            return ["Err", "RecursionError" if kind == "OutOfFuel" else kind]
        files = {pstr(p): ls for p, ls in case[0]}
        assoc = sorted({(pstr(p), i) for p, i in ans[1]})
        assoc = [[p, i] for p, i in assoc]
        events = []
        for f, tag, name, angle in ans[2]:
            # the implementation reports the physical line of the directive
            _, nl = render_file(files[pstr(f)], style=len(files[pstr(f)]))
            events.append([pstr(f), nl[tag][0], pstr(name), bool(angle)])
        envd = sorted(k for k, _ in ans[3])
        return ["Ok", assoc, sorted(events), envd]

    def model_view(self, case, ans):
        return self._view(case, ans[0])

    def spec(self, case, ans):
        if ans is None or isinstance(ans, str):
            return None
        return self._view(case, ans[1])

    def impl_view_for_model(self, case, ia):
        return ia[:2] if ia[0] == "Err" else ia

    impl_view_for_spec = impl_view_for_model

    def in_domain(self, case, sa):
        if sa is None or sa[0] != "Ok":
            return False
        if sa[2]:
            return False          # a missing header: gcc rejects, C18's subject
        files, entry = case[0], case[1]
        if not all(balanced(ls) for _, ls in files):
            return False
        # a missing forced include is diagnosed by gcc
        main, dirs, defs, incs = entry[:4]
        present = {pstr(p) for p, _ in files}
        for n in incs:
            cands = [main[:-1] + n] + [d + n for d in dirs]
            if not any(pstr(c) in present for c in cands):
                return False
        return True

    def nontrivial(self, case, ia):
        if ia[0] != "Ok":
            return False
        files = case[0]
        names = {}
        for p, _ in files:
            names.setdefault(p[-1], 0)
            names[p[-1]] += 1
        attributed_files = {f for f, _ in ia[1]}
        total_nodes = sum(len(ls) for p, ls in files if pstr(p) in attributed_files)
        return len(attributed_files) >= 2 and any(v >= 2 for v in names.values()) and len(ia[1]) < total_nodes

    def shrink(self, case, still_fails):
        if len(case) > 2:
            # several commands: first try to do without the later ones, then shrink the files only
            if still_fails([case[0], case[1]]):
                return self.shrink([case[0], case[1]], still_fails)
            more = common.shrink_list(case[2], lambda m: bool(m) and still_fails([case[0], case[1], m]))
            keep = {pstr(case[1][0])} | {pstr(e[0]) for e in more}
            files = common.shrink_list(case[0], lambda fs: keep <= {pstr(f[0]) for f in fs} and still_fails([fs, case[1], more]))
            return [files, case[1], more]
        files, entry = case
        # drop files, then shrink each file's lines, then the entry
        files = common.shrink_list(files, lambda fs: any(f[0] == entry[0] for f in fs) and still_fails([fs, entry]))
        for idx in range(len(files)):
            p, ls = files[idx]
            items = parse_items(ls)
            if items is None:
                continue
            progress = True
            steps = 0
            while progress and steps < 200:
                progress = False
                for cand in shrink_candidates(items):
                    steps += 1
                    cl = normalise(unparse_items(cand))
                    trial = files[:idx] + [[p, cl]] + files[idx + 1:]
                    if still_fails([trial, entry]):
                        items = cand
                        files = trial
                        progress = True
                        break
        main, dirs, defs, incs = entry[:4]
        if len(entry) > 4:
            # shrink (directory, kind) pairs together
            pairs = common.shrink_list(list(zip(dirs, entry[4])),
                                       lambda dk: still_fails([files, [main, [d for d, _ in dk], defs, incs, [k for _, k in dk]]]))
            dirs, kinds = [d for d, _ in pairs], [k for _, k in pairs]
            tail = lambda: [kinds]
        else:
            dirs = common.shrink_list(dirs, lambda d: still_fails([files, [main, d, defs, incs]]))
            tail = lambda: []
        defs = common.shrink_list(defs, lambda d: still_fails([files, [main, dirs, d, incs] + tail()]))
        incs = common.shrink_list(incs, lambda d: still_fails([files, [main, dirs, defs, d] + tail()]))
        return [files, [main, dirs, defs, incs] + tail()]

    # ---- S versus gcc -E ----
    def self_tests(self):
        if shutil.which("gcc") is None:
            return []
        n = 30 if self.tier == "quick" else 400
        cases = [gen_case(self.rng) for _ in range(n)]
        answers = common.run_model("C04", [self.encode(c) for c in cases])
        root = common.scratch() / "c04gcc"
        problems = []
        for c, a in zip(cases, answers):
            sa = self.spec(c, a)
            if len(c) > 2:
                continue          # the gcc oracle validates S on single translation units
            files, entry = c
            main, dirs, defs, incs = entry[:4]
            kinds = entry[4] if len(entry) > 4 else [0] * len(dirs)
            self.materialise(c, root)
            # unique tokens per (file, node) so that survival identifies the copy that was read
            for p, ls in files:
                text, nl = render_file(ls, style=len(ls))
                tag = "_".join(p).replace(".", "_")
                text = text.replace("int tok_", f"int {tag}_tok_")
                root.joinpath(*p).write_text(text)
            args = ["gcc", "-E", "-P", "-undef", "-nostdinc"]
            for d, k in zip(dirs, kinds):
                args += ["-isystem" if k else "-I", str(root.joinpath(*d))]
            for m, v in defs:
                if v == "E":
                    args.append(f"-D{m}=")
                elif isinstance(v, list):
                    args.append(f"-D{m}=<{pstr(v[2])}>" if v[1] else f'-D{m}="{pstr(v[2])}"')
                else:
                    args.append(f"-D{m}={v}")
            for nme in incs:
                args += ["-include", pstr(nme)]
            # gcc resolves -include relative to its cwd first: run it in the directory of the main file
            pr = subprocess.run(args + [str(root.joinpath(*main))], cwd=root.joinpath(*main[:-1]), capture_output=True, text=True)
            self.oracle_cases += 1
            if pr.returncode != 0 or pr.stderr.strip():
                self.oracle_skipped += 1
                continue
            if sa is None or sa[0] != "Ok" or not self.in_domain(c, sa):
                # gcc is silent but S rejects: only acceptable for reasons S states (e.g. include depth)
                if sa is not None and sa[0] == "Ok":
                    self.oracle_skipped += 1
                    continue
                if sa is not None and sa[0] == "Err" and sa[1] == "diagnostic" and any(kinds):
                    # gcc suppresses the "macro redefined" diagnostic inside headers found through
                    # -isystem (system headers); S keeps the ISO rule and puts the case outside the domain
                    self.oracle_skipped += 1
                    continue
                self.oracle_bad.append({"case": c, "spec": sa, "gcc": "accepted silently"})
                continue
            marked = {(f, i) for f, i in sa[1]}
            bad = None
            for p, ls in files:
                tag = "_".join(p).replace(".", "_")
                for i, l in enumerate(ls):
                    if l[0] == "Code":
                        surv = f"{tag}_tok_{i}_0;" in pr.stdout
                        if surv != ((pstr(p), i) in marked):
                            bad = {"file": pstr(p), "node": i, "gcc_survives": surv}
            if bad:
                self.oracle_bad.append({"case": c, "diff": bad})
        if self.oracle_bad:
            problems.append(f"S disagrees with gcc -E on {len(self.oracle_bad)} of {self.oracle_cases} trees: {self.oracle_bad[0]}")
        return problems

    def extra_coverage(self):
        return {"spec_oracle_cases": self.oracle_cases, "spec_oracle_disagreements": len(self.oracle_bad),
                "spec_oracle_diagnosed_or_out_of_domain": self.oracle_skipped}


CHECK = C04
