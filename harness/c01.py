"""C01 — conditional inclusion: finder.find vs tree/visitor model M vs skipping machine S."""
from __future__ import annotations

import itertools
import logging
import os
import shutil
import subprocess
from pathlib import Path

from . import common
from .common import Check, enc

FLAGS = ["F0", "F1"]
VALS = ["V0", "V1"]

_setup_done = False


def _setup():
    global _setup_done
    if not _setup_done:
        logging.disable(logging.CRITICAL)
        _setup_done = True


# ---------------------------------------------------------------- rendering
# Function-like renderings of the value conditions (case flag fn): the same condition in C, spelled
# through helper macros given on the command line - a direct call, a call through an object-like alias
# of the function-like macro (the '(' is outside the alias's replacement) and an identity wrapper.
HELPERS = ["EQ__(a,b)=((a) == (b))", "GT__(a,b)=((a) > (b))", "ID__(x)=x", "EQA__=EQ__", "GTA__=GT__", "IDA__=ID__"]


def render_cond(c, elif_=False, style=0, fn=False):
    k = c[0]
    kw = "#elif" if elif_ else "#if"
    if fn and k in ("Val", "Eq", "Gt"):
        v = style % 4
        if k == "Val":
            return [f"{kw} ID__({c[1]})", f"{kw} IDA__({c[1]})", f"{kw} ID__(IDA__({c[1]}))", f"{kw} {c[1]}"][v]
        f, op = ("EQ", "==") if k == "Eq" else ("GT", ">")
        return [f"{kw} {f}__({c[1]}, {c[2]})", f"{kw} {f}A__({c[1]}, {c[2]})", f"{kw} ID__({c[1]}) {op} {c[2]}",
                f"{kw} {f}A__(IDA__({c[1]}), {c[2]})"][v]
    if k == "Defd":
        if not elif_ and style % 3 == 0:
            return f"#ifdef {c[1]}"
        return f"{kw} defined({c[1]})" if style % 2 else f"{kw} defined {c[1]}"
    if k == "NDefd":
        if not elif_ and style % 3 == 0:
            return f"#ifndef {c[1]}"
        return f"{kw} !defined({c[1]})"
    if k == "Val":
        return f"{kw} {c[1]}"
    if k == "Eq":
        return f"{kw} {c[1]} == {c[2]}"
    if k == "Gt":
        return f"{kw} {c[1]} > {c[2]}"
    if k == "Const":
        return f"{kw} {c[1]}"
    if k == "Bad":
        return [f"{kw}", f"{kw} 1 +", f"{kw} ("][style % 3]
    raise ValueError(c)


def render(lines, style=0, fn=False):
    """Returns (text, node_lines) where node_lines[i] = physical line numbers of node i."""
    out = []
    node_lines = []
    for i, l in enumerate(lines):
        k = l[0]
        start = len(out) + 1
        if k == "Code":
            n = 1 + (i + style) % 2
            for j in range(n):
                out.append(f"int tok_{i}_{j};")
        elif k == "Def":
            v = l[2]
            out.append(f"#define {l[1]}" + ("" if v == "E" else (f" {v[1]}" if isinstance(v, list) else f" {v}")))
        elif k == "Undef":
            out.append(f"#undef {l[1]}")
        elif k == "Other":
            out.append("#pragma unroll")
        elif k == "If":
            out.append(render_cond(l[1], False, style + i, fn))
        elif k == "Elif":
            out.append(render_cond(l[1], True, style + i, fn))
        elif k == "Else":
            out.append("#else")
        elif k == "Endif":
            out.append("#endif")
        else:
            raise ValueError(l)
        node_lines.append(list(range(start, len(out) + 1)))
    return "\n".join(out) + "\n", node_lines


def normalise(lines):
    """Merge adjacent Code lines (the file parser makes one node of them)."""
    out = []
    for l in lines:
        if l[0] == "Code" and out and out[-1][0] == "Code":
            continue
        out.append(l)
    return out


def balanced(lines):
    """Structurally acceptable to a C preprocessor (chains nest, at most one #else, last)."""
    stk = []
    for l in lines:
        k = l[0]
        if k == "If":
            stk.append(False)
        elif k == "Elif":
            if not stk or stk[-1]:
                return False
        elif k == "Else":
            if not stk or stk[-1]:
                return False
            stk[-1] = True
        elif k == "Endif":
            if not stk:
                return False
            stk.pop()
    return not stk


# ---------------------------------------------------------------- structured shrinking
def parse_items(lines):
    """lines -> nested items: ["P", line] | ["C", groups] with groups = [[header_line, items], ...]; None if unbalanced."""
    pos = 0

    def items(stop):
        nonlocal pos
        out = []
        while pos < len(lines):
            k = lines[pos][0]
            if k in stop:
                return out
            if k in ("Elif", "Else", "Endif"):
                raise ValueError
            if k == "If":
                groups = []
                hdr = lines[pos]
                pos += 1
                while True:
                    body = items(("Elif", "Else", "Endif"))
                    groups.append([hdr, body])
                    if pos >= len(lines):
                        raise ValueError
                    hdr = lines[pos]
                    pos += 1
                    if hdr[0] == "Endif":
                        break
                out.append(["C", groups])
            else:
                out.append(["P", lines[pos]])
                pos += 1
        return out
    try:
        r = items(())
        return r if pos == len(lines) else None
    except ValueError:
        return None


def unparse_items(items):
    out = []
    for it in items:
        if it[0] == "P":
            out.append(it[1])
        else:
            for hdr, body in it[1]:
                out.append(hdr)
                out += unparse_items(body)
            out.append(["Endif"])
    return out


def shrink_candidates(items):
    """Yield smaller item lists."""
    for i, it in enumerate(items):
        yield items[:i] + items[i + 1:]
        if it[0] == "C":
            groups = it[1]
            for g, (hdr, body) in enumerate(groups):
                yield items[:i] + body + items[i + 1:]
                if g > 0:
                    yield items[:i] + [["C", groups[:g] + groups[g + 1:]]] + items[i + 1:]
                for sub in shrink_candidates(body):
                    yield items[:i] + [["C", groups[:g] + [[hdr, sub]] + groups[g + 1:]]] + items[i + 1:]


def shrink_structured(lines, fails, max_steps=600):
    items = parse_items(lines)
    if items is None:
        return lines
    steps = 0
    progress = True
    while progress and steps < max_steps:
        progress = False
        for cand in shrink_candidates(items):
            steps += 1
            if steps >= max_steps:
                break
            if fails(normalise(unparse_items(cand))):
                items = cand
                progress = True
                break
    return normalise(unparse_items(items))


# ---------------------------------------------------------------- generation
def gen_cond(rng):
    r = rng.random()
    if r < 0.30:
        return ["Defd", rng.choice(FLAGS + VALS)]
    if r < 0.50:
        return ["NDefd", rng.choice(FLAGS + VALS)]
    if r < 0.65:
        return ["Val", rng.choice(VALS)]
    if r < 0.80:
        return ["Eq", rng.choice(VALS), rng.choice([0, 1, 2])]
    if r < 0.90:
        return ["Gt", rng.choice(VALS), rng.choice([0, 1])]
    if r < 0.94:
        return ["Bad"]
    return ["Const", rng.choice([0, 1, 5])]


def gen_plain(rng):
    r = rng.random()
    if r < 0.40:
        return [["Code"]]
    if r < 0.60:
        m = rng.choice(VALS)
        pre = [["Undef", m]] if rng.random() < 0.8 else []
        return pre + [["Def", m, rng.choice([0, 1, 2, 3])]]
    if r < 0.75:
        m = rng.choice(FLAGS)
        pre = [["Undef", m]] if rng.random() < 0.7 else []
        return pre + [["Def", m, rng.choice(["E", 1])]]
    if r < 0.92:
        return [["Undef", rng.choice(FLAGS + VALS)]]
    return [["Other"]]


def gen_items(rng, depth, budget):
    out = []
    n = rng.randint(0, 4) if depth else rng.randint(1, 6)
    for _ in range(n):
        if len(out) > budget:
            break
        if depth < 6 and rng.random() < (0.45 if depth < 3 else 0.25):
            out.append(["If", gen_cond(rng)])
            out += gen_items(rng, depth + 1, budget // 2)
            for _ in range(rng.choice([0, 0, 1, 1, 2, 3])):
                out.append(["Elif", gen_cond(rng)])
                out += gen_items(rng, depth + 1, budget // 3)
            if rng.random() < 0.6:
                out.append(["Else"])
                out += gen_items(rng, depth + 1, budget // 3)
            out.append(["Endif"])
        else:
            out += gen_plain(rng)
    return out


def inject_alias(rng, lines):
    """A macro defined as another identifier, a condition on it, a redefinition of the OTHER macro,
    and the textually identical condition again: #define/#undef must take effect in source order
    also through an alias (a cached condition value must not survive)."""
    a, b = rng.sample(VALS, 2)
    cond = rng.choice([["Val", a], ["Eq", a, rng.choice([0, 1, 2])], ["Gt", a, rng.choice([0, 1])]])
    k1, k2 = rng.sample([0, 1, 2, 3], 2)
    blk = [["Undef", a], ["Def", a, ["R", b]], ["Undef", b]]
    if rng.random() < 0.8:
        blk += [["Def", b, k1]]
    test = [["If", cond], ["Code"]] + ([["Else"], ["Code"]] if rng.random() < 0.5 else []) + [["Endif"]]
    blk += test
    r = rng.random()
    if r < 0.6:
        blk += [["Undef", b], ["Def", b, k2]]
    elif r < 0.8:
        blk += [["Undef", b]]
    else:
        blk += [["Undef", a], ["Def", a, k2]]
    blk += [list(x) for x in test]
    # splice at a top-level position
    depth, tops = 0, [0]
    for i, l in enumerate(lines):
        if l[0] == "If":
            depth += 1
        elif l[0] == "Endif":
            depth -= 1
            if depth == 0:
                tops.append(i + 1)
        elif depth == 0:
            tops.append(i + 1)
    p = rng.choice(tops)
    return lines[:p] + blk + lines[p:]


def gen_env(rng):
    env = []
    for m in FLAGS:
        r = rng.random()
        if r < 0.35:
            env.append([m, "E"])
        elif r < 0.55:
            env.append([m, 1])
    for m in VALS:
        r = rng.random()
        if r < 0.6:
            env.append([m, rng.choice([0, 1, 2])])
    return env


PLAIN_SMALL = [["Code"], ["Def", "F0", "E"], ["Def", "V0", 1], ["Def", "V0", 2], ["Undef", "F0"], ["Undef", "V0"]]
COND_SMALL = [["Defd", "F0"], ["NDefd", "F0"], ["Val", "V0"], ["Eq", "V0", 1]]
ENV_SMALL = [[], [["F0", "E"]], [["V0", 1]], [["V0", 2], ["F0", 1]], [["V0", 0]]]


def enum_blocks(n, memo={}):
    """All structured line lists with exactly n lines over the small alphabets."""
    if n in memo:
        return memo[n]
    if n == 0:
        res = [[]]
    else:
        res = []
        # first item plain
        for p in PLAIN_SMALL:
            for rest in enum_blocks(n - 1):
                res.append([p] + rest)
        # first item chain of total length m (>= 2)
        for m in range(2, n + 1):
            for ch in enum_chain(m):
                for rest in enum_blocks(n - m):
                    res.append(ch + rest)
    memo[n] = res
    return res


def enum_chain(m, memo={}):
    if m in memo:
        return memo[m]
    res = []
    # If c ; body(a) ; tail(m - 1 - a) where tail ends with Endif
    for c in COND_SMALL:
        for a in range(0, m - 1):
            for body in enum_blocks(a):
                for tail in enum_tail(m - 1 - a, True):
                    res.append([["If", c]] + body + tail)
    memo[m] = res
    return res


def enum_tail(t, else_ok, memo={}):
    key = (t, else_ok)
    if key in memo:
        return memo[key]
    res = []
    if t == 1:
        res.append([["Endif"]])
    elif t > 1:
        for a in range(0, t - 1):
            for body in enum_blocks(a):
                for c in COND_SMALL[:2]:
                    for tail in enum_tail(t - 1 - a, else_ok):
                        res.append([["Elif", c]] + body + tail)
                if else_ok:
                    for tail in enum_tail(t - 1 - a, False):
                        if tail[0][0] == "Endif":
                            res.append([["Else"]] + body + tail)
    memo[key] = res
    return res


CORPUS_EXTRA = [
    # an #elif after a selected branch is not evaluated (gcc accepts silently)
    [[["If", ["Const", 1]], ["Code"], ["Elif", ["Bad"]], ["Code"], ["Endif"]], []],
    [[["If", ["Defd", "F0"]], ["Code"], ["Elif", ["Bad"]], ["Code"], ["Else"], ["Code"], ["Endif"]], [["F0", "E"]]],
    # malformed #if inside a skipped group
    [[["If", ["Const", 0]], ["If", ["Bad"]], ["Code"], ["Endif"], ["Endif"]], []],
    # an alias: the second, textually identical condition sees the redefinition of the aliased macro
    [[["Def", "V1", ["R", "V0"]], ["If", ["Gt", "V1", 1]], ["Code"], ["Endif"], ["Undef", "V0"], ["Def", "V0", 0],
      ["If", ["Gt", "V1", 1]], ["Code"], ["Else"], ["Code"], ["Endif"]], [["V0", 2]]],
    # alias cycle and self-reference: the name survives expansion and counts as 0
    [[["Def", "V0", ["R", "V1"]], ["Def", "V1", ["R", "V0"]], ["If", ["Val", "V0"]], ["Code"], ["Else"], ["Code"], ["Endif"],
      ["Def", "V2", ["R", "V2"]], ["If", ["Eq", "V2", 0]], ["Code"], ["Endif"]], []],
    # value conditions spelled through function-like helper macros and through object-like aliases of them
    # (four consecutive chains: each of the four spellings of Eq / Gt / Val occurs)
    [[["If", ["Eq", "V0", 2]], ["Code"], ["Else"], ["Code"], ["Endif"]] * 4, [["V0", 2]], 1],
    [[["If", ["Gt", "V0", 1]], ["Code"], ["Else"], ["Code"], ["Endif"]] * 4, [["V0", 2]], 1],
    [[["Code"], ["If", ["Val", "V1"]], ["Code"], ["Elif", ["Eq", "V0", 1]], ["Code"], ["Else"], ["Code"], ["Endif"]] * 4, [["V0", 1], ["V1", 0]], 1],
    [[["Def", "V1", ["R", "V0"]], ["If", ["Eq", "V1", 2]], ["Code"], ["Else"], ["Code"], ["Endif"], ["Code"]] * 2
     + [["If", ["Gt", "V1", 0]], ["Code"], ["Endif"]], [["V0", 2]], 1],
    # one file compiled by two commands of the platform with different -D sets: a line is used if either command uses it
    [[["If", ["Eq", "V0", 1]], ["Code"], ["Elif", ["Eq", "V0", 2]], ["Code"], ["Endif"], ["If", ["Defd", "F0"]], ["Code"], ["Endif"], ["Code"]],
     [["V0", 1]], 0, [[["V0", 2], ["F0", "E"]]]],
    [[["If", ["Eq", "V0", 1]], ["Code"], ["Elif", ["Eq", "V0", 2]], ["Code"], ["Endif"], ["If", ["Defd", "F0"]], ["Code"], ["Endif"], ["Code"]],
     [["V0", 2], ["F0", "E"]], 0, [[["V0", 1]], [["V0", 0]]]],
]

MALFORMED = [
    [["Endif"]], [["Else"]], [["Elif", ["Const", 1]]],
    [["Code"], ["Endif"]], [["Code"], ["Else"], ["Code"], ["Endif"]],
    [["If", ["Const", 1]], ["Endif"], ["Endif"]],
    [["If", ["Const", 1]], ["Code"]],
    [["If", ["Const", 0]], ["Else"], ["Else"], ["Endif"]],
    [["If", ["Const", 0]], ["Else"], ["Code"], ["Elif", ["Const", 1]], ["Code"], ["Endif"]],
    [["Else"], ["Code"], ["Endif"], ["Code"]],
    [["Elif", ["Const", 1]], ["Code"], ["Endif"]],
]


class C01(Check):
    prop_id = "C01"
    rule = ("structured programs of nested #if/#ifdef/#ifndef/#elif/#else/#endif chains (depth <= 6), object-like "
            "#define/#undef, code lines, x random -D assignments (undefined/empty/0/1/2); in 35 % of the random programs the value conditions are spelled through function-like helper macros given with -D (EQ__(V,k), an object-like alias EQA__(V,k), ID__(V) == k); 20 % of the random programs are compiled by 2-3 commands of the platform with different -D sets (expected marks: the union over the commands, each from a fresh state); exhaustive block: every "
            "structured program up to a line bound over 6 plain lines x 4 conditions x 5 define sets; plus a malformed "
            "stream (error class only). Non-trivial = at least one conditional chain AND at least one node skipped AND one node inside a chain used")
    assumptions = ["directive recognition / line counting of FileParser is C05's subject; here every node is one directive or a block of code lines",
                   "gcc -E (thorough tier) validates S on code lines only: directive attribution has no gcc observable"]

    def __init__(self, tier, seed):
        super().__init__(tier, seed)
        self.oracle_cases = 0
        self.oracle_bad = []
        self.hist = {"depth": {}, "len": {}, "out_of_domain": 0}

    def generate(self):
        out = [list(c) for c in CORPUS_EXTRA]
        n = 400 if self.tier == "quick" else 6000
        for _ in range(n):
            lines = normalise(gen_items(self.rng, 0, 60))
            if self.rng.random() < 0.3:
                lines = normalise(inject_alias(self.rng, lines))
            case = [lines, gen_env(self.rng)]
            if self.rng.random() < 0.35:
                case.append(1)                      # value conditions spelled through function-like helper macros
                self.hist["fn_rendered"] = self.hist.get("fn_rendered", 0) + 1
            if self.rng.random() < 0.2:
                # the same file compiled again by further commands of the platform with other -D sets
                case = case[:2] + [case[2] if len(case) > 2 else 0, [gen_env(self.rng) for _ in range(self.rng.randint(1, 2))]]
                self.hist["several_commands"] = self.hist.get("several_commands", 0) + 1
            out.append(case)
        bound = 4 if self.tier == "quick" else 6
        for k in range(1, bound + 1):
            progs = enum_blocks(k)
            for p in progs:
                q = normalise(p)
                if len(q) != len(p):
                    continue
                envs = ENV_SMALL if (k <= 3 or self.tier == "thorough") else [self.rng.choice(ENV_SMALL)]
                if self.tier == "thorough" and k == 6:
                    envs = [self.rng.choice(ENV_SMALL)]
                for e in envs:
                    out.append([q, e])
        for m in MALFORMED:
            out.append([m, []])
            out.append([m, [["V0", 1]]])
        return out

    @staticmethod
    def more_of(case):
        return case[3] if len(case) > 3 else []

    def encode(self, case):
        lines, env = case[:2]
        more = self.more_of(case)

        def ec(c):
            return [c[0]] + list(c[1:])

        def el(l):
            if l[0] in ("If", "Elif"):
                return [l[0], ec(l[1])]
            return list(l)
        if more:
            return enc([[el(l) for l in lines], [[m, v] for m, v in env], [[[m, v] for m, v in e] for e in more]])
        return enc([[el(l) for l in lines], [[m, v] for m, v in env]])

    def impl(self, case):
        _setup()
        import codebasin
        from codebasin import finder, platform as cbplatform, preprocessor
        lines, env = case[:2]
        fn = len(case) > 2 and bool(case[2])
        root = common.scratch() / "c01"
        if root.exists():
            shutil.rmtree(root)
        root.mkdir(parents=True)
        text, node_lines = render(lines, style=len(lines), fn=fn)
        f = root / "main.c"
        f.write_text(text)
        def defs_of(env):
            d = [m if v == 1 and (len(m) + len(lines)) % 2 else
                 (f"{m}=" if v == "E" else (f"{m}={v[1]}" if isinstance(v, list) else f"{m}={v}")) for m, v in env]
            return d + HELPERS if fn else d
        created = []

        class Capturing(cbplatform.Platform):
            def __init__(self, *a, **k):
                super().__init__(*a, **k)
                created.append(self)
        orig = finder.platform.Platform
        finder.platform.Platform = Capturing
        try:
            cb = codebasin.CodeBase(root)
            cfg = {"P": [{"file": str(f), "defines": defs_of(e), "include_paths": [], "include_files": []}
                         for e in [env] + self.more_of(case)]}
            try:
                state = finder.find(str(root), cb, cfg)
            except Exception as e:  # noqa
                return ["Err", type(e).__name__]
        finally:
            finder.platform.Platform = orig
        tree = state.get_tree(str(f))
        amap = state.get_map(str(f))
        nodes = [n for n in tree.walk() if isinstance(n, preprocessor.CodeNode)]
        marks = [i for i, n in enumerate(nodes) if "P" in amap[n]]
        shape = [n.lines for n in nodes]
        if shape != node_lines:
            return ["Err", "NodeShapeMismatch", shape, node_lines]
        envd = []
        for name, mac in created[-1]._definitions.items():
            if name.endswith("__"):
                continue                            # the rendering's helper macros are not part of the program
            s = " ".join(str(t) for t in mac.replacement)
            envd.append([name, "E" if s == "" else (int(s) if s.lstrip("-").isdigit() else ["R", s])])
        return ["Ok", marks, sorted(envd)]

    @staticmethod
    def _view(ans):
        if ans[0] == "Ok":
            return ["Ok", ans[1], sorted([list(x) for x in ans[2]])]
        return ["Err", ans[1].split(":")[0]]

    @classmethod
    def _combine(cls, first, rest, k):
        """Several commands over one file: the first diagnostic in command order, else the union of the
        marks and the macro table of the last command."""
        views = [cls._view(first)] + [cls._view(r[k]) for r in rest]
        for v in views:
            if v[0] != "Ok":
                return v
        return ["Ok", sorted(set().union(*[set(v[1]) for v in views])), views[-1][2]]

    def model_view(self, case, ans):
        return self._combine(ans[0], ans[2] if len(ans) > 2 else [], 0)

    def impl_view_for_model(self, case, ia):
        return ia[:2] if ia[0] == "Err" else ia

    def impl_view_for_spec(self, case, ia):
        return ia[:2] if ia[0] == "Err" else ia

    def spec(self, case, ans):
        if ans is None or isinstance(ans, str):
            return None
        return self._combine(ans[1], ans[2] if len(ans) > 2 else [], 1)

    def in_domain(self, case, sa):
        ok = sa is not None and sa[0] == "Ok" and balanced(case[0])
        if not ok:
            self.hist["out_of_domain"] += 1
        return ok

    def nontrivial(self, case, ia):
        lines = case[0]
        if ia[0] != "Ok":
            return False
        marks = set(ia[1])
        has_chain = any(l[0] == "If" for l in lines)
        skipped = len(marks) < len(lines)
        # a used node inside a chain
        depth = 0
        inside_used = False
        for i, l in enumerate(lines):
            if l[0] == "If":
                depth += 1
            elif l[0] == "Endif":
                depth -= 1
            elif depth > 0 and l[0] not in ("Elif", "Else") and i in marks:
                inside_used = True
        return has_chain and skipped and inside_used

    def shrink(self, case, still_fails):
        lines, env = case[:2]
        rest = list(case[2:])
        lines2 = shrink_structured(lines, lambda ls: still_fails([ls, env] + rest))
        env2 = common.shrink_list(env, lambda e: still_fails([lines2, e] + rest))
        if rest and still_fails([lines2, env2]):
            rest = []
        if len(rest) > 1 and rest[1]:
            if still_fails([lines2, env2, rest[0]]):
                rest = rest[:1]
            else:
                for i in range(len(rest[1])):
                    cand = rest[1][:i] + rest[1][i + 1:]
                    if cand and still_fails([lines2, env2, rest[0], cand]):
                        rest = [rest[0], cand]
                        break
        return [lines2, env2] + rest

    # ---- S versus gcc (thorough tier, and a small sample in quick) ----
    def self_tests(self):
        if shutil.which("gcc") is None:
            return []
        n = 40 if self.tier == "quick" else 600
        rng = self.rng
        problems = []
        cases = []
        for _ in range(n):
            ls = normalise(gen_items(rng, 0, 40))
            if rng.random() < 0.4:
                ls = normalise(inject_alias(rng, ls))
            cases.append([ls, gen_env(rng)] + ([1] if rng.random() < 0.5 else []))
        answers = common.run_model("C01", [self.encode(c) for c in cases])
        d = common.scratch() / "gcc"
        d.mkdir(exist_ok=True)
        for c, a in zip(cases, answers):
            lines, env = c[:2]
            fn = len(c) > 2
            sa = self._view(a[1])
            text, node_lines = render(lines, style=len(lines), fn=fn)
            (d / "t.c").write_text(text)
            args = ["gcc", "-E", "-P", "-undef", "-nostdinc"] + (["-D" + h for h in HELPERS] if fn else [])
            for m, v in env:
                args.append(f"-D{m}=" + ("" if v == "E" else str(v)))
            p = subprocess.run(args + ["t.c"], cwd=d, capture_output=True, text=True)
            diagnosed = p.returncode != 0 or p.stderr.strip() != ""
            self.oracle_cases += 1
            if diagnosed:
                # S may accept what gcc diagnoses only for reasons outside the modelled fragment;
                # the other direction (S rejects, gcc silent) is a spec problem
                continue
            if sa[0] != "Ok":
                self.oracle_bad.append({"case": c, "spec": sa, "gcc": "accepted silently"})
                continue
            surviving = set()
            for i, l in enumerate(lines):
                if l[0] == "Code" and f"tok_{i}_0" in p.stdout:
                    surviving.add(i)
            expect = {i for i in sa[1] if lines[i][0] == "Code"}
            if surviving != expect:
                self.oracle_bad.append({"case": c, "spec_code_nodes": sorted(expect), "gcc": sorted(surviving)})
        if self.oracle_bad:
            problems.append(f"S disagrees with gcc -E on {len(self.oracle_bad)} of {self.oracle_cases} programs: {self.oracle_bad[0]}")
        return problems

    def extra_coverage(self):
        return {"spec_oracle_cases": self.oracle_cases, "spec_oracle_disagreements": len(self.oracle_bad),
                "out_of_domain_detail": "S returned a diagnostic (differing redefinition, empty macro in arithmetic, stray directive) or the program is not balanced"}


CHECK = C01
