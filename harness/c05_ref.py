"""Independent reference for C05: ISO C translation phases 2-3 'by the book' on the raw text.

Unlike Spec/C05.v (a per-physical-line state machine with pending-slash and
block-star states) this one works on the whole spliced character stream with
one-character look-ahead, the way the standard describes it:

  phase 2: delete every backslash immediately followed by a newline, remembering
           the physical line of every remaining character;
  phase 3: replace // ... (up to, not including, the newline) and /* ... */ by
           one space; string and character literals are opaque.

A physical line is counted iff a surviving non-white-space character lies on it.
A logical line ends at a surviving newline; it is a directive iff its first
surviving non-white-space character is '#'.

Used (a) to cross-check the Coq specification on every generated case and
(b) against `gcc -E -P` (surviving text, diagnostics) in the self test.
"""
from __future__ import annotations

WS = " \t\n\r\x0b\x0c\x1c\x1d\x1e\x1f"


def splice(text):
    """phase 2 -> list of (char, physical line); also reports backslash-newline at EOF / missing final newline"""
    out = []
    line = 1
    i = 0
    n = len(text)
    while i < n:
        c = text[i]
        if c == "\\" and i + 1 < n and text[i + 1] == "\n":
            line += 1
            i += 2
            continue
        out.append((c, line))
        if c == "\n":
            line += 1
        i += 1
    return out


def scan(text):
    """returns dict(logical=[[lines], is_dir], wf=bool, surviving=str)"""
    chars = splice(text)
    n = len(chars)
    wf = True
    # c_file_source refuses a file whose last line ends in a backslash without newline: outside every domain
    if text.endswith("\\"):
        return None
    if text.endswith("\\\n"):
        wf = False          # backslash-newline at end of file
    logical = []
    cur = []                # counted lines of the current logical line
    first = None            # first surviving non-ws char of the logical line
    surviving = []

    def mark(ch, ln):
        nonlocal first
        surviving.append(ch)
        if ch in WS:
            return
        if first is None:
            first = ch
        if not cur or cur[-1] != ln:
            cur.append(ln)

    def end_line():
        nonlocal cur, first
        if cur:
            logical.append([cur, 1 if first == "#" else 0])
        cur, first = [], None

    i = 0
    while i < n:
        c, ln = chars[i]
        nxt = chars[i + 1][0] if i + 1 < n else None
        if c == "/" and nxt == "/":
            i += 2
            while i < n and chars[i][0] != "\n":
                i += 1
            surviving.append(" ")
            continue
        if c == "/" and nxt == "*":
            i += 2
            closed = False
            while i < n:
                if chars[i][0] == "*" and i + 1 < n and chars[i + 1][0] == "/":
                    i += 2
                    closed = True
                    break
                i += 1
            if not closed:
                wf = False
            surviving.append(" ")
            continue
        if c in "\"'":
            q = c
            mark(c, ln)
            i += 1
            closed = False
            while i < n:
                d, dl = chars[i]
                if d == "\n":
                    break
                if d == "\\":
                    mark(d, dl)
                    i += 1
                    if i < n and chars[i][0] != "\n":
                        mark(*chars[i])
                        i += 1
                    continue
                mark(d, dl)
                i += 1
                if d == q:
                    closed = True
                    break
            if not closed:
                wf = False
            continue
        if c == "\n":
            end_line()
            i += 1
            continue
        if c == "\\":
            wf = False      # stray backslash
        mark(c, ln)
        i += 1
    end_line()
    return {"logical": logical, "wf": wf, "surviving": "".join(surviving)}


def strip_ws(s):
    return "".join(ch for ch in s if ch not in WS)
