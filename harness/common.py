"""Shared machinery: build, model driver, serialisation, decision logic, evidence.

Every check is  I (Python implementation in /repo)  vs  M (Gallina model,
extracted)  vs  S (specification), plus the Coq build of Props/<id>.v.
See DESIGN.md section 2.3 for the decision procedure implemented by `decide`.
"""
from __future__ import annotations

import fcntl
import hashlib
import json
import os
import random
import re
import shutil
import subprocess
import sys
import time
from pathlib import Path

VERIF = Path(__file__).resolve().parent.parent
COQ = VERIF / "coq"
THEORIES = COQ / "theories"
OCAML = VERIF / "ocaml"
def driver_path(pid):
    return OCAML / f"cbimodel_{pid}"
REPO = Path(os.environ.get("VERIF_REPO", "/repo"))
EVIDENCE = VERIF / "evidence"
REPLAYS = VERIF / "replays"
KNOWN = VERIF / "known_findings.json"
CORPUS = VERIF / "corpus"

BANNED = re.compile(
    r"\b(Admitted|admit|Axiom|Axioms|Parameter|Parameters|Conjecture|Conjectures|"
    r"Unset\s+Guard|bypass_check|Admit\s+Obligations|Unset\s+Positivity|Unset\s+Universe|"
    r"type-in-type|impredicative-set|native_compute)\b"
)

TRUSTED_BASE = [
    "Coq 8.16.1 kernel (coqc); vm_compute used for finite sweeps and witnesses; native_compute not used",
    "no Axiom/Parameter/Admitted in the development (grep enforced on every run); Print Assumptions text of this run is in coverage.print_assumptions",
    "translator tools/gen_tables.py (Python ast/tomllib, fail-closed) for generated tables",
    "extraction: Require Extraction, ExtrOcamlBasic, ExtrOcamlString only (bool/option/list/prod/unit/sumbool, ascii=>char, string=>char list); Z/N/positive/nat stay inductive; OCaml 4.13.1 ocamlfind ocamlopt; ocaml/driver.ml moves lines only",
    "correspondence harness (Python generators, runners, canonicalisers) under /verif/harness",
    "CPython 3.12.1 and third-party libraries are modelled, not verified (see DESIGN.md section 3)",
]


# --------------------------------------------------------------------------
# scratch space
# --------------------------------------------------------------------------
_scratch = None


def scratch() -> Path:
    global _scratch
    if _scratch is None:
        base = os.environ.get("VERIF_SCRATCH") or f"/var/tmp/cbi-verif.{os.getpid()}"
        _scratch = Path(base)
        if _scratch.exists():
            shutil.rmtree(_scratch, ignore_errors=True)
        _scratch.mkdir(parents=True)
    return _scratch


def cleanup_scratch():
    global _scratch
    if _scratch is not None:
        shutil.rmtree(_scratch, ignore_errors=True)
        _scratch = None


# --------------------------------------------------------------------------
# serialisation (format of coq/theories/Lib/Data.v)
# --------------------------------------------------------------------------
_WORD = re.compile(r"[A-Za-z_][A-Za-z0-9_.]*\Z")


def enc(x) -> str:
    if isinstance(x, bool):
        return "1" if x else "0"
    if isinstance(x, int):
        return str(x)
    if isinstance(x, bytes):
        return "#" + x.hex()
    if isinstance(x, str):
        if _WORD.match(x):
            return x
        return "#" + x.encode("latin-1", errors="replace").hex()
    if isinstance(x, (list, tuple)):
        return "(" + " ".join(enc(y) for y in x) + ")"
    raise TypeError(f"cannot encode {type(x)}")


def dec(s: str):
    """Parse one answer line into nested lists / ints / strs."""
    toks = re.findall(r"\(|\)|[^\s()]+", s)
    pos = 0

    def atom(t):
        if t[0] == "#":
            return bytes.fromhex(t[1:]).decode("latin-1")
        if t[0] == "-" or t[0].isdigit():
            return int(t)
        return t

    def go():
        nonlocal pos
        t = toks[pos]
        pos += 1
        if t == "(":
            out = []
            while toks[pos] != ")":
                out.append(go())
            pos += 1
            return out
        if t == ")":
            raise ValueError("unbalanced")
        return atom(t)

    v = go()
    if pos != len(toks):
        raise ValueError("trailing tokens in " + s[:80])
    return v


# --------------------------------------------------------------------------
# build
# --------------------------------------------------------------------------
def sh(cmd, cwd=None, timeout=900, env=None):
    t0 = time.time()
    try:
        p = subprocess.run(cmd, cwd=cwd, shell=isinstance(cmd, str), capture_output=True,
                           text=True, timeout=timeout, env=env)
        return p.returncode, p.stdout + p.stderr, time.time() - t0
    except subprocess.TimeoutExpired as e:
        return 124, f"TIMEOUT after {timeout}s: {cmd}\n{e.stdout or ''}{e.stderr or ''}", time.time() - t0


class BuildResult:
    def __init__(self):
        self.ok_model = True          # models + driver built
        self.proof_ok = True          # Props/<id>.v compiled
        self.broken = []              # names of files/theorems that no longer check
        self.log = ""
        self.assumptions = ""         # Print Assumptions text
        self.theorems = []            # theorem names in Props/<id>.v
        self.lemmas = 0               # Qed count in Proofs files it depends on
        self.banned = []
        self.gen_ok = True
        self.wall = 0.0


def grep_banned():
    hits = []
    for p in sorted(THEORIES.rglob("*.v")):
        txt = p.read_text()
        # strip comments (non-nested is enough for our own sources)
        code = re.sub(r"\(\*.*?\*\)", " ", txt, flags=re.S)
        for m in BANNED.finditer(code):
            hits.append(f"{p.relative_to(VERIF)}: {m.group(0)}")
    return hits


def coq_project_files():
    out = []
    for line in (COQ / "_CoqProject").read_text().splitlines():
        line = line.strip()
        if line.endswith(".v"):
            out.append(line)
    return out


def _lock():
    f = open(VERIF / ".build.lock", "w")
    fcntl.flock(f, fcntl.LOCK_EX)
    return f


def gen_tables():
    """Regenerate Gen/*.v from /repo's current source.  Fail-closed."""
    tool = VERIF / "tools" / "gen_tables.py"
    rc, out = 0, ""
    if tool.exists():
        rc, out, _ = sh([sys.executable, str(tool), str(REPO), str(THEORIES / "Gen")], timeout=120)
    rc2, out2, _ = sh([sys.executable, str(VERIF / "tools" / "gen_project.py")], timeout=60)
    return rc == 0 and rc2 == 0, out + out2


def build(prop_id: str, need_props=True) -> BuildResult:
    """Regenerate tables, build models + driver, then the property's proofs."""
    r = BuildResult()
    t0 = time.time()
    lock = _lock()
    try:
        r.banned = grep_banned()
        ok, out = gen_tables()
        gen_msg = "" if ok else " [translator: " + out[-600:].replace("\n", " | ") + "]"
        r.log += out
        if not (COQ / "Makefile").exists() or (COQ / "Makefile").stat().st_mtime < (COQ / "_CoqProject").stat().st_mtime:
            rc, out, _ = sh("coq_makefile -f _CoqProject -o Makefile", cwd=COQ, timeout=60)
            r.log += out
        files = coq_project_files()
        # 1. models + dispatcher (what the driver needs)
        rc, out, _ = sh(["make", "-j16", f"theories/Extract/Main_{prop_id}.vo"], cwd=COQ, timeout=1500)
        r.log += out
        if rc != 0:
            r.ok_model = False
            r.gen_ok = ok
            r.broken.append("model build failed: " + _first_error(out) + gen_msg)
        else:
            ok, out = build_driver(prop_id)
            r.log += out
            if not ok:
                r.ok_model = False
                r.broken.append("extraction/driver build failed")
        # 2. proofs of this property
        if need_props:
            props = f"theories/Props/{prop_id}.v"
            if props not in files:
                r.proof_ok = False
                r.broken.append(f"{props} missing from _CoqProject")
            else:
                deps_target = props[:-2] + ".vo"
                # build dependencies with make (-k so that we learn every failure), then the
                # property file itself with coqc to capture Print Assumptions output
                vo = COQ / deps_target
                if vo.exists():
                    vo.unlink()
                rc, out, _ = sh(["make", "-j16", deps_target], cwd=COQ, timeout=2400)
                r.log += out
                if rc != 0:
                    r.proof_ok = False
                    r.gen_ok = ok
                    r.broken.append("proof build failed: " + _first_error(out) + gen_msg)
                else:
                    r.assumptions = "\n".join(
                        l for l in out.splitlines()
                        if not l.startswith(("COQC", "COQDEP", "make", "coqdep")))
                src = (COQ / props).read_text()
                r.theorems = re.findall(r"^(?:Theorem|Corollary)\s+(\w+)", src, flags=re.M)
                r.lemmas = count_qed(prop_id)
                if rc == 0:
                    closed = r.assumptions.count("Closed under the global context")
                    axioms = [l for l in r.assumptions.splitlines() if l.strip().startswith("Axioms:")]
                    if axioms:
                        r.proof_ok = False
                        r.broken.append("Print Assumptions reports axioms: " + r.assumptions[:400])
        if r.banned:
            r.proof_ok = False
            r.broken.append("banned token in development: " + "; ".join(r.banned[:5]))
    finally:
        lock.close()
    r.wall = time.time() - t0
    return r


def coqchk(prop_id: str):
    """Independent re-check of Props/<id>.vo and everything it depends on (thorough tier).
    Returns (ok, axioms_text)."""
    rc, out, _ = sh(["coqchk", "-silent", "-o", "-Q", "theories", "CBI", f"CBI.Props.{prop_id}"], cwd=COQ, timeout=3000)
    summary = out[out.find("CONTEXT SUMMARY"):] if "CONTEXT SUMMARY" in out else out[-1500:]
    m = re.search(r"\* Axioms:(.*?)\n\s*\n", summary, flags=re.S)
    axioms = m.group(1).strip() if m else "?"
    clean = rc == 0 and "type-in-type: <none>" in summary and "unsafe (co)fixpoints: <none>" in summary \
        and "positivity is assumed: <none>" in summary
    return clean, axioms, summary[-1500:]


def _first_error(out: str) -> str:
    lines = out.splitlines()
    for i, l in enumerate(lines):
        if l.startswith("File ") and i + 1 < len(lines) and ("Error" in lines[i + 1] or "Error" in "".join(lines[i + 1:i + 4])):
            return " ".join(x.strip() for x in lines[i:i + 6])[:600]
    for l in lines:
        if "Error" in l or "TIMEOUT" in l:
            return l[:400]
    return out[-400:]


def count_qed(prop_id: str) -> int:
    n = 0
    for sub in ("Proofs", "Props"):
        for p in (THEORIES / sub).glob(f"{prop_id}*.v"):
            n += len(re.findall(r"\bQed\.", p.read_text()))
    return n


def build_driver(pid):
    """Extract run_line for one property and compile its OCaml driver if stale."""
    gen = OCAML / "gen" / pid
    gen.mkdir(parents=True, exist_ok=True)
    main_vo = THEORIES / "Extract" / f"Main_{pid}.vo"
    drv = driver_path(pid)
    if drv.exists() and drv.stat().st_mtime >= main_vo.stat().st_mtime \
            and drv.stat().st_mtime >= (OCAML / "driver.ml").stat().st_mtime:
        return True, ""
    rc, out, _ = sh(["coqc", "-Q", str(THEORIES), "CBI", "-w", "-notation-overridden,-extraction",
                     str(THEORIES / "Extract" / f"Extract_{pid}.v")], cwd=gen, timeout=600)
    if rc != 0:
        return False, out
    shutil.copy(OCAML / "driver.ml", gen / "driver.ml")
    rc, out2, _ = sh(f"ocamlfind ocamlopt -w -a -O2 cbimodel.mli cbimodel.ml driver.ml -o cbimodel.new 2>&1 && mv cbimodel.new {drv}",
                     cwd=gen, timeout=600)
    return rc == 0, out + out2


# --------------------------------------------------------------------------
# running the model
# --------------------------------------------------------------------------
def run_model(prop_id: str, cases_enc: list[str], timeout=1800) -> list:
    """Feed encoded cases to the extracted model; returns decoded answers."""
    if not cases_enc:
        return []
    inp = "".join(f"({prop_id} {c})\n" for c in cases_enc)
    p = subprocess.run(["bash", "-c", f"ulimit -s unlimited 2>/dev/null; exec {driver_path(prop_id)}"], input=inp,
                       capture_output=True, text=True, timeout=timeout)
    lines = p.stdout.splitlines()
    if p.returncode != 0 or len(lines) != len(cases_enc):
        raise RuntimeError(f"model driver failed rc={p.returncode} got {len(lines)}/{len(cases_enc)} lines: {p.stderr[:300]}")
    out = []
    for l in lines:
        if l in ("PARSEERROR", "BADCASE", "UNKNOWN"):
            out.append(l)
        else:
            out.append(dec(l))
    return out


def run_model_parallel(prop_id: str, cases_enc: list[str], jobs=8, timeout=3600) -> list:
    if len(cases_enc) < 2000:
        return run_model(prop_id, cases_enc, timeout)
    from concurrent.futures import ThreadPoolExecutor
    n = len(cases_enc)
    chunk = (n + jobs - 1) // jobs
    parts = [cases_enc[i:i + chunk] for i in range(0, n, chunk)]
    with ThreadPoolExecutor(jobs) as ex:
        res = list(ex.map(lambda p: run_model(prop_id, p, timeout), parts))
    return [x for r in res for x in r]


def vm_crosscheck(prop_id: str, cases_enc: list[str], expected: list) -> tuple[int, list]:
    """Evaluate a sample with `Eval vm_compute` inside coqc and compare with the extracted answers."""
    if not cases_enc:
        return 0, []
    d = scratch() / "vmx"
    d.mkdir(exist_ok=True)
    body = ["From Coq Require Import String.", f"From CBI Require Import Extract.Main_{prop_id}.",
            "Local Open Scope string_scope.", "Set Printing Width 100000000.", "Set Printing Depth 100000000."]
    for c in cases_enc:
        line = f"({prop_id} {c})"
        assert '"' not in line
        body.append(f'Eval vm_compute in run_line "{line}".')
    (d / "cases.v").write_text("\n".join(body) + "\n")
    # long string literals need a deep stack in coqc's parser
    rc, out, _ = sh(["bash", "-c", f"ulimit -s unlimited 2>/dev/null || ulimit -s $(ulimit -H -s) 2>/dev/null; "
                                   f"exec coqc -Q {THEORIES} CBI cases.v"], cwd=d, timeout=900)
    if rc != 0:
        return 0, [("coqc failed", out[-400:])]
    got = re.findall(r'^\s*= "(.*)"\s*$', out, flags=re.M)
    if len(got) != len(cases_enc):
        # answers may be printed on the line after '='
        got = re.findall(r'= "((?:[^"]|"")*)"\s*:\s*string', out.replace("\n", " "))
    bad = []
    for c, g, e in zip(cases_enc, got, expected):
        try:
            gv = dec(g.replace('""', '"'))
        except Exception:
            gv = g
        if gv != e:
            bad.append((c, gv, e))
    if len(got) != len(cases_enc):
        bad.append(("count", len(got), len(cases_enc)))
    return len(got), bad


# --------------------------------------------------------------------------
# known findings
# --------------------------------------------------------------------------
def load_known(prop_id: str):
    if not KNOWN.exists():
        return []
    data = json.loads(KNOWN.read_text())
    return [f for f in data.get("findings", []) if f.get("property") == prop_id]


# --------------------------------------------------------------------------
# generic shrinker (delta debugging on a list-shaped case)
# --------------------------------------------------------------------------
def shrink_list(items: list, still_fails, max_steps=400) -> list:
    items = list(items)
    steps = 0
    n = 2
    while len(items) >= 1 and steps < max_steps:
        chunk = max(1, len(items) // n)
        reduced = False
        i = 0
        while i < len(items) and steps < max_steps:
            cand = items[:i] + items[i + chunk:]
            steps += 1
            if cand != items and still_fails(cand):
                items = cand
                reduced = True
            else:
                i += chunk
        if not reduced:
            if chunk == 1:
                break
            n = min(len(items), n * 2)
    return items


# --------------------------------------------------------------------------
# the check runner
# --------------------------------------------------------------------------
class Check:
    """Base class; a property module subclasses this."""
    prop_id = "C00"
    level = "proof"
    rule = ""
    assumptions: list[str] = []

    def __init__(self, tier: str, seed: int):
        self.tier = tier
        self.seed = seed
        self.rng = random.Random(seed)
        self.stats = {}

    # ---- to be provided by subclasses ----
    def corpus(self) -> list:
        p = CORPUS / self.prop_id / "cases.json"
        if p.exists():
            return json.loads(p.read_text())
        return []

    def generate(self) -> list:
        return []

    def encode(self, case) -> str:
        raise NotImplementedError

    def impl(self, case):
        raise NotImplementedError

    def model_view(self, case, ans):
        """Canonical M answer from the decoded driver output."""
        return ans

    def spec(self, case, ans):
        """Canonical S answer (from the driver output and/or computed here)."""
        raise NotImplementedError

    def impl_view_for_model(self, case, impl_ans):
        return impl_ans

    def impl_view_for_spec(self, case, impl_ans):
        return impl_ans

    def in_domain(self, case, spec_ans) -> bool:
        """False for cases outside the property's quantifier (counted, not compared with S)."""
        return True

    def nontrivial(self, case, impl_ans) -> bool:
        return True

    def classify(self, case, impl_ans, spec_ans):
        """Return the id of the known-finding class this failing case belongs to, or None."""
        return None

    def shrink(self, case, still_fails):
        return case

    def key(self, case) -> str:
        return hashlib.sha1(json.dumps(case, sort_keys=True, default=str).encode()).hexdigest()

    def extra_coverage(self) -> dict:
        return {}

    def self_tests(self) -> list[str]:
        """Framework self-tests (S vs oracle etc.); returned strings are framework problems."""
        return []


def write_replay(prop_id, seed, kind, payload) -> Path:
    REPLAYS.mkdir(exist_ok=True)
    h = hashlib.sha1(json.dumps(payload, sort_keys=True, default=str).encode()).hexdigest()[:10]
    p = REPLAYS / f"{prop_id}-{kind}-{h}.json"
    p.write_text(json.dumps(payload, indent=1, default=str))
    return p


def run_check(chk: Check) -> int:
    t0 = time.time()
    pid = chk.prop_id
    violations = []          # (kind, replay payload, suffix)
    known_lines = []
    notes = []

    b = build(pid)
    proof_broken = (not b.proof_ok) or (not b.gen_ok)
    model_ok = b.ok_model

    cases = []
    seen = set()
    for c in chk.corpus() + chk.generate():
        k = chk.key(c)
        if k not in seen:
            seen.add(k)
            cases.append(c)

    # implementation
    impl_ans = [chk.impl(c) for c in cases]
    # model (and spec through the driver)
    model_raw = [None] * len(cases)
    if model_ok:
        try:
            model_raw = run_model_parallel(pid, [chk.encode(c) for c in cases])
        except Exception as e:  # noqa
            model_ok = False
            b.broken.append(f"model driver: {e}")
    corr_bad = []
    cand = []
    out_of_domain = 0
    nontrivial = set()
    for c, ia, mr in zip(cases, impl_ans, model_raw):
        sa = chk.spec(c, mr)
        dom = chk.in_domain(c, sa)
        if model_ok:
            if mr in ("PARSEERROR", "BADCASE", "UNKNOWN"):
                corr_bad.append((c, ia, mr))
            else:
                ma = chk.model_view(c, mr)
                if ma is not None and chk.impl_view_for_model(c, ia) != ma:
                    corr_bad.append((c, ia, ma))
        if not dom:
            out_of_domain += 1
            continue
        if sa is not None and chk.impl_view_for_spec(c, ia) != sa:
            cand.append((c, ia, sa))
        if chk.nontrivial(c, ia):
            nontrivial.add(chk.key(c))

    # vm_compute cross-check of the extraction on a 1 % sample
    vm_n, vm_bad = 0, []
    if model_ok and cases:
        k = max(3, min(40, len(cases) // 100))
        # the cross-check re-evaluates cases as Coq string literals: keep it to cases of moderate size
        small = [i for i in range(len(cases)) if len(chk.encode(cases[i])) <= 30000] or list(range(len(cases)))
        idx = sorted(chk.rng.sample(small, min(k, len(small))))
        vm_n, vm_bad = vm_crosscheck(pid, [chk.encode(cases[i]) for i in idx], [model_raw[i] for i in idx])
        if vm_bad:
            b.broken.append(f"extraction cross-check (vm_compute vs OCaml) disagrees: {vm_bad[:2]}")
            model_ok = False

    # DESIGN 2.3 step 3, widened: something is broken but no case of this run violates the
    # property -> search I vs S on a larger budget (the thorough-tier generator, other seeds)
    widened = 0
    if (proof_broken or corr_bad or not model_ok) and not cand and os.environ.get("VERIF_NO_WIDEN") != "1":
        t_w = time.time()
        budget_s = 240 if chk.tier == "quick" else 900
        for extra_seed in range(1, 6):
            if cand or time.time() - t_w > budget_s:
                break
            try:
                wide = type(chk)("thorough", chk.seed + 1000 * extra_seed)
                wcases = [c for c in wide.generate() if chk.key(c) not in seen]
            except Exception as e:  # noqa
                notes.append(f"widened search: generator failed: {e}")
                break
            wcases = wcases[:20000]
            step = 500
            for i in range(0, len(wcases), step):
                if cand or time.time() - t_w > budget_s:
                    break
                part = wcases[i:i + step]
                try:
                    raws = run_model(pid, [chk.encode(c) for c in part]) if model_ok else [None] * len(part)
                except Exception:
                    raws = [None] * len(part)
                for c, mr in zip(part, raws):
                    widened += 1
                    try:
                        sa = chk.spec(c, mr)
                        if sa is None or not chk.in_domain(c, sa):
                            continue
                        ia = chk.impl(c)
                        if chk.impl_view_for_spec(c, ia) != sa:
                            cand.append((c, ia, sa))
                    except Exception:
                        continue
        notes.append(f"widened I-vs-S search after a broken proof/correspondence: {widened} extra cases, {len(cand)} candidates")

    chk_info = None
    if chk.tier == "thorough" and b.proof_ok and os.environ.get("VERIF_NO_COQCHK") != "1":
        ok_chk, axioms, summary = coqchk(pid)
        chk_info = {"cmd": f"coqchk -silent -o -Q theories CBI CBI.Props.{pid}", "clean": ok_chk, "axioms": axioms}
        if not ok_chk or axioms not in ("<none>",):
            chk_info["summary"] = summary
        if not ok_chk:
            b.proof_ok = False
            proof_broken = True
            b.broken.append("coqchk does not accept the compiled development: " + summary[-300:])

    known = load_known(pid)
    reproduced = {}
    # candidates: classify
    new_cands = []
    for (c, ia, sa) in cand:
        cls = chk.classify(c, ia, sa)
        if cls is not None and any(f["id"] == cls for f in known):
            reproduced.setdefault(cls, (c, ia, sa))
        else:
            new_cands.append((c, ia, sa))
    if new_cands:
        c, ia, sa = new_cands[0]

        def fails(cc):
            try:
                ia2 = chk.impl(cc)
                mr2 = run_model(pid, [chk.encode(cc)])[0] if model_ok else None
                sa2 = chk.spec(cc, mr2)
                if sa2 is None or not chk.in_domain(cc, sa2):
                    return False
                if chk.impl_view_for_spec(cc, ia2) == sa2:
                    return False
                cls2 = chk.classify(cc, ia2, sa2)
                return not (cls2 is not None and any(f["id"] == cls2 for f in known))
            except Exception:
                return False
        try:
            c2 = chk.shrink(c, fails)
            if c2 is not c and fails(c2):
                c = c2
                ia = chk.impl(c)
                mr = run_model(pid, [chk.encode(c)])[0] if model_ok else None
                sa = chk.spec(c, mr)
        except Exception as e:  # noqa
            notes.append(f"shrink failed: {e}")
        payload = {"property": pid, "kind": "impl-violates-spec", "case": c, "impl": ia, "spec": sa,
                   "others": len(new_cands) - 1, "seed": chk.seed, "tier": chk.tier,
                   "replay_cmd": f"./check {pid} --replay <this file>"}
        violations.append(("impl", payload, ""))
    elif proof_broken or corr_bad or not model_ok:
        what = []
        if proof_broken:
            what += b.broken or ["proof build failed"]
        if not model_ok and not proof_broken:
            what += b.broken or ["model build failed"]
        payload = {"property": pid, "kind": "proof-or-correspondence-broken", "broken": what,
                   "seed": chk.seed, "tier": chk.tier}
        if corr_bad:
            c, ia, ma = corr_bad[0]

            def cfails(cc):
                try:
                    ia2 = chk.impl(cc)
                    mr2 = run_model(pid, [chk.encode(cc)])[0]
                    ma2 = chk.model_view(cc, mr2)
                    return ma2 is not None and chk.impl_view_for_model(cc, ia2) != ma2
                except Exception:
                    return False
            if model_ok:
                try:
                    c2 = chk.shrink(c, cfails)
                    if c2 is not c and cfails(c2):
                        c = c2
                        ia = chk.impl(c)
                        ma = chk.model_view(c, run_model(pid, [chk.encode(c)])[0])
                except Exception as e:  # noqa
                    notes.append(f"shrink failed: {e}")
            payload["correspondence"] = {"case": c, "impl": ia, "model": ma, "disagreements": len(corr_bad)}
            payload["broken"] = what + [f"correspondence I~M for {pid} ({len(corr_bad)} of {len(cases)} cases disagree)"]
        violations.append(("broken", payload, " no-failing-input-found"))

    # known findings: report the listed ones whose witness still fails
    for f in known:
        if f.get("status", "finding") != "finding":
            continue
        w = f.get("witness")
        still = False
        if f["id"] in reproduced:
            still = True
        elif w is not None:
            try:
                ia = chk.impl(w)
                mr = run_model(pid, [chk.encode(w)])[0] if model_ok else None
                sa = chk.spec(w, mr)
                still = sa is not None and chk.impl_view_for_spec(w, ia) != sa
            except Exception as e:  # noqa
                notes.append(f"known-finding witness {f['id']} could not be run: {e}")
        if still:
            known_lines.append(f"KNOWN-FINDING: property={pid} {f['what']}")

    problems = chk.self_tests()
    wall = time.time() - t0

    samples = []
    for i in sorted(chk.rng.sample(range(len(cases)), min(3, len(cases)))) if cases else []:
        samples.append({"case": cases[i], "impl": impl_ans[i]})
    n_obl = len(b.theorems) + max(0, b.lemmas - len(b.theorems))
    cov = {
        "obligations": max(1, n_obl),
        "discharged": max(1, n_obl) if b.proof_ok else 0,
        "theorems": b.theorems,
        "checker_cmd": f"make -C /verif/coq theories/Props/{pid}.vo  (coqc 8.16.1, full .vo build, Print Assumptions under every theorem)",
        "trusted_base": TRUSTED_BASE,
        "print_assumptions": b.assumptions[-3000:],
        "proof_build_ok": b.proof_ok,
        "model_build_ok": b.ok_model,
        "generated_tables_ok": b.gen_ok,
        "broken": b.broken,
        "evaluations": len(cases),
        "distinct_nontrivial": len(nontrivial),
        "rule": chk.rule,
        "samples": samples,
        "traces_validated_against_impl": len(cases) if model_ok else 0,
        "correspondence_disagreements": len(corr_bad),
        "impl_vs_spec_failures": len(cand),
        "impl_vs_spec_failures_in_known_classes": len(cand) - len(new_cands),
        "out_of_domain_cases": out_of_domain,
        "extraction_crosscheck_vm_compute": {"cases": vm_n, "disagreements": len(vm_bad)},
        "known_findings_reproduced": sorted(reproduced.keys()),
        "framework_self_test_problems": problems,
        "notes": notes,
        "build_wall_s": round(b.wall, 2),
        "widened_search_cases": widened,
    }
    if chk_info is not None:
        cov["coqchk"] = chk_info
    cov.update(chk.stats)
    cov.update(chk.extra_coverage())
    # the schema reserves coverage.exhaustive for a boolean ("the run enumerated a finite space
    # completely"); a check that describes the exhaustively enumerated PART of its input space does so
    # under exhaustive_block (the run as a whole also contains random streams, so no check claims true)
    if "exhaustive" in cov and not isinstance(cov["exhaustive"], bool):
        cov["exhaustive_block"] = cov.pop("exhaustive")
    ev = {
        "property_id": pid, "tier": chk.tier, "seed": chk.seed, "level": chk.level,
        "coverage": cov, "assumptions": chk.assumptions, "wall_s": round(wall, 2),
        "violations": len(violations),
    }
    EVIDENCE.mkdir(exist_ok=True)
    (EVIDENCE / f"{pid}.json").write_text(json.dumps(ev, indent=1, default=str))

    for l in known_lines:
        print(l)
    for p in problems:
        print(f"FRAMEWORK-SELF-TEST: property={pid} {p}")
    rc = 0
    for kind, payload, suffix in violations:
        path = write_replay(pid, chk.seed, kind, payload)
        print(f"VIOLATION property={pid} replay={path}{suffix}")
        rc = 1
    print(f"[{pid}] tier={chk.tier} seed={chk.seed} cases={len(cases)} nontrivial={len(nontrivial)} "
          f"proof_ok={b.proof_ok} model_ok={model_ok} corr_bad={len(corr_bad)} spec_fail={len(cand)} "
          f"known={len(known_lines)} wall={wall:.1f}s")
    return rc


def replay(chk: Check, path: str) -> int:
    payload = json.loads(Path(path).read_text())
    b = build(chk.prop_id)
    c = payload.get("case") or (payload.get("correspondence") or {}).get("case")
    if c is None:
        print(json.dumps(payload, indent=1))
        print("proof_ok:", b.proof_ok, "broken:", b.broken)
        return 0 if b.proof_ok else 1
    ia = chk.impl(c)
    mr = run_model(chk.prop_id, [chk.encode(c)])[0] if b.ok_model else None
    ma = chk.model_view(c, mr) if mr is not None else None
    sa = chk.spec(c, mr)
    print("case :", json.dumps(c, default=str))
    print("impl :", json.dumps(chk.impl_view_for_spec(c, ia), default=str))
    print("model:", json.dumps(ma, default=str))
    print("spec :", json.dumps(sa, default=str))
    bad = (sa is not None and chk.impl_view_for_spec(c, ia) != sa) or \
          (ma is not None and chk.impl_view_for_model(c, ia) != ma)
    print("property fails on this case" if bad else "property holds on this case")
    return 1 if bad else 0
