"""C13 — compilation-database entries resolve to the right files and directories.

I = codebasin.config.load_database on a real tree (entry['file'], entry['include_paths'],
    the warnings of the codebasin logger, or the exception type)
M = extracted Model/C13*.v (strings, exactly)
S = Spec/C13*.v: locations a compiler started in `directory` would use (lexical walk),
    plus the kernel-walk agreement flags K; validated against `gcc -E` in self_tests.

A case is
  {"tree": [[name, ..., kind], ...]   kind "d"|"f"; paths relative to the scratch base B
   "cwd":  [names]                   process working directory, relative to B
   "rootdir": str                    as passed to load_database; "@B" stands for the base
   "entries": [{"directory"?, "file"?, "arguments"? | "command"?}, ...]}   "@B" likewise
"""
from __future__ import annotations

import hashlib
import itertools
import json
import logging
import os
import shutil
import subprocess
from pathlib import Path

from . import common
from .common import Check, enc

BTAG = "@B"

# ------------------------------------------------------------------ trees
# the pool of objects a tree is drawn from (relative to B); "root" is the analysis root
DIRS = [["root"], ["root", "src"], ["root", "src", "sub"], ["root", "inc"], ["root", "build"],
        ["root", "build", "inc"], ["out"], ["out", "build"], ["out", "inc"], ["root", "src", "inc"]]
FILES = [["root", "main.c"], ["root", "src", "a.c"], ["root", "src", "sub", "b.cpp"], ["root", "src", "k.f90"],
         ["root", "build", "gen.c"], ["out", "build", "o.c"], ["root", "src", "a.o"], ["root", "build", "a.o"],
         ["root", "src", "x.y.cc"], ["root", "src", ".c"], ["root", "src", "noext"], ["root", "build", "main.c"],
         ["out", "main.c"], ["root", "src", "src.c"]]
FULL_TREE = [d + ["d"] for d in DIRS] + [f + ["f"] for f in FILES]


# the tree used by the gcc oracle: the full pool plus a probe.h in every directory and a fallback directory
ORACLE_TREE = FULL_TREE + [d + ["probe.h", "f"] for d in DIRS] + [["probe0", "d"], ["probe0", "probe.h", "f"]]


def tree_key(tree):
    return hashlib.sha1(json.dumps(sorted(tree)).encode()).hexdigest()[:12]


_made = {}


def make_tree(tree) -> Path:
    """Create (once per distinct tree) the directory tree under the scratch area; return B."""
    k = tree_key(tree)
    if k in _made:
        return _made[k]
    base = common.scratch() / "c13" / k / "B"
    base.mkdir(parents=True)
    incs = 0
    for i, obj in enumerate(sorted(tree)):
        *p, kind = obj
        q = base.joinpath(*p)
        if kind == "d":
            q.mkdir(parents=True, exist_ok=True)
    for i, obj in enumerate(sorted(tree)):
        *p, kind = obj
        q = base.joinpath(*p)
        if kind == "f":
            q.parent.mkdir(parents=True, exist_ok=True)
            if p[-1] == "probe.h":
                q.write_text(f"int probe_marker_{i};\n")
            else:
                q.write_text(f"int file_marker_{i};\n#include <probe.h>\n")
    _made[k] = base
    return base


def tree_objects(tree):
    """All objects including implied parents, as (components, is_dir)."""
    objs = {}
    for obj in tree:
        *p, kind = obj
        for j in range(1, len(p)):
            objs.setdefault(tuple(p[:j]), True)
        objs[tuple(p)] = (kind == "d")
    return objs


# ------------------------------------------------------------------ spellings
def rel_spelling(frm, to):
    """Components of a relative path from directory `frm` to `to` (both component lists)."""
    i = 0
    while i < len(frm) and i < len(to) and frm[i] == to[i]:
        i += 1
    return [".."] * (len(frm) - i) + list(to[i:])


def decorate(rng, comps, level):
    """Insert '.', 'x/..', empty segments into a component list; returns a string body (no leading slash)."""
    out = []
    for j, c in enumerate(comps):
        r = rng.random()
        last = j == len(comps) - 1
        if level and r < 0.12:
            out.append(".")
        elif level and r < (0.135 if last else 0.22) and c != "..":
            out += [c, ".."]          # through the last name: only valid when it is a directory
        elif level and r < 0.28:
            out.append("")
        out.append(c)
    if level and rng.random() < 0.04:
        out.append(rng.choice([".", ""]))
    s = "/".join(out)
    return s


def spell(rng, frm, to, level=1, allow_abs=True):
    """A spelling of location `to` (components rel. to B) for a process in `frm`: absolute or relative."""
    r = rng.random()
    if allow_abs and r < 0.3:
        lead = "//" if (level and rng.random() < 0.1) else "/"
        body = decorate(rng, to, level)
        return lead[1:] + BTAG + ("/" + body if body else "")
    comps = rel_spelling(frm, to)
    if not comps:
        return rng.choice([".", "./", ""]) if level else "."
    s = decorate(rng, comps, level)
    if level and rng.random() < 0.1:
        s = "./" + s
    return s


COMPILERS = ["gcc", "gcc", "cc", "/usr/bin/gcc", "g++", "clang", "mycc"]
NOISE = [["-c"], ["-O2"], ["-g"], ["-DX"], ["-D", "Y=1"], ["-o", "a.o"], ["-Wall"], ["-std=c99"]]


class C13(Check):
    prop_id = "C13"
    rule = ("databases of 1-5 entries over random sub-trees of a 10-directory/14-file pool (root, build dirs inside "
            "and outside the root); `directory` absent / absolute / relative to the root / outside the root / "
            "non-existent, `file` and -I values absolute or relative to the directory or (wrongly) to the root, "
            "decorated with '.', 'x/..', '//' segments and trailing slashes; mixed with missing files, object files, "
            "link commands, empty commands; databases repeating one `file` string under different `directory` values in every order (existing / missing / unsupported first); malformed stream: missing keys, -I without value. A case is non-trivial "
            "if some kept entry has a relative `directory` or a relative -I under a `directory`, or a '..' in a spelling")
    assumptions = [
        "no symbolic links in the tree (lexical walk = kernel walk; C15 covers links); cases whose spelling crosses a missing directory or a file are outside the domain (counted)",
        "argparse/shlex are C11's subject: commands are drawn from the grammar -I v | -Iv | -isystem v | -D.. | -O.. | -o v | -c | -g | unknown flags | positional",
        "compilers with a single 'default' pass (gcc, cc, g++, clang, unknown); passes/modes are C12's subject",
        "CPython posixpath/pathlib behaviour is modelled (Model/C13p.v) and sampled by the correspondence, not proved",
    ]

    # -------------------------------------------------------------- generation
    def gen_tree(self):
        rng = self.rng
        if rng.random() < 0.3:
            return [list(x) for x in FULL_TREE]
        dirs = [d for d in DIRS if d == ["root"] or rng.random() < 0.7]
        files = [f for f in FILES if rng.random() < 0.6]
        return [d + ["d"] for d in dirs] + [f + ["f"] for f in files]

    def gen_entry(self, tree, root, level):
        rng = self.rng
        objs = tree_objects(tree)
        # the probe headers of the oracle tree are never named by an entry
        dirs = [list(p) for p, isd in objs.items() if isd and p[0] != "probe0"]
        files = [list(p) for p, isd in objs.items() if not isd and p[-1] != "probe.h"]
        e = {}
        # working directory of the compiler
        r = rng.random()
        if r < 0.25:
            dloc = root
        else:
            cand = [d for d in dirs if d[-1] in ("build", "src", "sub", "root", "out")] or dirs
            dloc = rng.choice(cand)
            if rng.random() < 0.05:
                dloc = dloc + ["nodir"]
            e["directory"] = spell(rng, root, dloc, level)
        # the file
        r = rng.random()
        if r < 0.68 and files:
            srcs = [f for f in files if f[-1].rsplit(".", 1)[-1] in ("c", "cpp", "f90", "cc")]
            floc = rng.choice(srcs or files)
        elif r < 0.78:
            floc = rng.choice(dirs) + [rng.choice(["missing.c", "gen.cpp"])]
        elif r < 0.88 and files:
            floc = rng.choice(files)
        else:
            floc = rng.choice(dirs) + [rng.choice(["a.out", "lib.a", "prog", "t.o"])]
        frm = dloc
        if rng.random() < 0.12:
            frm = root          # spelled relative to the root although a directory is given
        e["file"] = spell(rng, frm, floc, level)
        # the command
        r = rng.random()
        if r < 0.06:
            argv = []
        else:
            argv = [rng.choice(COMPILERS)]
            parts = []
            for _ in range(rng.choice([0, 1, 1, 2, 3])):
                iloc = rng.choice(dirs + [rng.choice(dirs) + ["noinc"]])
                ifrm = dloc if rng.random() < 0.85 else root
                v = spell(rng, ifrm, iloc, level)
                if v == "" or v.startswith("-"):
                    v = "."
                form = rng.random()
                if form < 0.4:
                    parts.append(["-I" + v])
                elif form < 0.8:
                    parts.append(["-I", v])
                else:
                    parts.append(["-isystem", v])
            for _ in range(rng.choice([0, 1, 2])):
                parts.append(rng.choice(NOISE))
            parts.append([e["file"]] if e["file"] and not e["file"].startswith("-") and rng.random() < 0.9 else [])
            rng.shuffle(parts)
            argv += [t for p in parts for t in p]
        if rng.random() < 0.3 and all(t and " " not in t for t in argv):
            e["command"] = " ".join(argv)
        else:
            e["arguments"] = argv
        return e

    def gen_case(self, level=1, malformed=False):
        rng = self.rng
        tree = self.gen_tree()
        root = ["root"]
        cwd = rng.choice([["root"], ["root"], [], ["out"]])
        if list(cwd) and tuple(cwd) not in tree_objects(tree):
            cwd = ["root"]
        r = rng.random()
        if r < 0.7:
            rootdir = BTAG + "/root"
        elif r < 0.85:
            rootdir = BTAG + "/" + decorate(rng, ["root"], 1)
        else:
            rootdir = spell(rng, cwd, root, 1, allow_abs=False) or "."
        entries = [self.gen_entry(tree, root, level) for _ in range(rng.randint(1, 5))]
        if malformed:
            k = rng.randrange(len(entries))
            m = rng.random()
            if m < 0.3:
                entries[k].pop("file", None)
            elif m < 0.6:
                entries[k].pop("arguments", None)
                entries[k].pop("command", None)
            elif m < 0.8:
                entries[k].pop("command", None)
                entries[k]["arguments"] = ["gcc", "-c", entries[k].get("file", "x.c") or "x.c", rng.choice(["-I", "-isystem", "-o"])]
            elif m < 0.9:
                entries[k]["file"] = rng.choice(["", "/", "//", "...", "../..", ".c", "a.c/", "src/a.c/."])
            else:
                # rejected by the JSON schema: a property of the wrong type, or an item that is not an object
                t = rng.randrange(5)
                if t == 0:
                    entries[k]["directory"] = 5
                elif t == 1:
                    entries[k]["file"] = ["a.c"]
                elif t == 2:
                    entries[k].pop("command", None)
                    entries[k]["arguments"] = "gcc -c a.c"
                elif t == 3:
                    entries[k]["output"] = 7
                else:
                    entries[k] = "gcc -c a.c"
        elif rng.random() < 0.15:
            # both keys: `arguments` wins over `command`
            k = rng.randrange(len(entries))
            if "arguments" in entries[k]:
                entries[k]["command"] = "gcc -c other.c -Iother"
        return {"tree": tree, "cwd": cwd, "rootdir": rootdir, "entries": entries}

    def exhaustive(self):
        """Every combination of directory x file x -I spelling from fixed lists, one entry each, on the full tree."""
        B = BTAG
        dirs = [None, "build", "./build/", "src/../build", B + "/root/build", "../out/build", B + "/out/build",
                "/" + B + "/root/build", "src/sub/../..", "nobuild"]
        files = ["../src/a.c", "src/a.c", B + "/root/src/a.c", "gen.c", "./gen.c", "..//src/./a.c", "../main.c",
                 "main.c", "o.c", "../../root/src/sub/b.cpp", "a.o", "../src/sub/../a.c", "inc/../gen.c"]
        incs = [None, "inc", "../inc", B + "/root/inc", "-Iinc", "-I../src/inc/", "-I.", "-I..", "../../out/inc"]
        if self.tier == "quick":
            dirs = dirs[:8]
            files = files[:9]
            incs = incs[:7]
        out = []
        for d, f, i in itertools.product(dirs, files, incs):
            argv = ["gcc", "-c", f]
            if i is not None:
                argv += [i] if i.startswith("-I") else ["-I", i]
            e = {"file": f, "arguments": argv}
            if d is not None:
                e["directory"] = d
            out.append({"tree": [list(x) for x in FULL_TREE], "cwd": ["root"], "rootdir": B + "/root", "entries": [e]})
        return out

    def generate(self):
        n = 700 if self.tier == "quick" else 25000
        out = self.exhaustive()
        for i in range(n):
            out.append(self.gen_case(level=0 if i % 5 == 0 else 1))
        for i in range(n // 6):
            out.append(self.gen_case(malformed=True))
        out += self.same_spelling_groups()
        n_cli = 6 if self.tier == "quick" else 60
        for i in range(n // 5):
            c = self.gen_attr_case()
            if i < n_cli:
                c["cli"] = 1          # also observed per line through the `codebasin.coverage compute` CLI
            out.append(c)
        self.stats["dist"] = self.measure(out)
        paths = self.path_cases()
        self.stats["dist"]["path_function_cases"] = len(paths)
        return out + paths

    def path_cases(self):
        """Direct correspondence of the posixpath/pathlib model: every string over {'/', '.', 'a'} up to a
        length bound (with a second operand from a fixed list), every pair of short strings, random longer ones."""
        rng = self.rng
        alpha = "/.a"
        one = 6 if self.tier == "quick" else 9
        two = 3 if self.tier == "quick" else 4
        seconds = ["/", "/w", "//w/x", "/w/", "///", "w", "", "..", "/w/../.."]
        out = []
        for n in range(one + 1):
            for t in itertools.product(alpha, repeat=n):
                out.append({"paths": ["".join(t), rng.choice(seconds)]})
        short = ["".join(t) for n in range(two + 1) for t in itertools.product(alpha, repeat=n)]
        for a in short:
            for b in short:
                out.append({"paths": [a, b]})
        for _ in range(300 if self.tier == "quick" else 20000):
            a = "".join(rng.choice("//..ab.c") for _ in range(rng.randint(0, 14)))
            b = "".join(rng.choice("//..ab") for _ in range(rng.randint(0, 8)))
            out.append({"paths": [a, b]})
        return out

    def same_spelling_groups(self):
        """Databases whose entries repeat ONE `file` string under different `directory` values (absent, relative,
        absolute, with '..', non-existent), some resolving to an existing file and some not, in every order; and
        the same spelling first in an unsupported entry (empty command / object-like command) then in a supported
        one.  Entries must be independent of each other whatever was skipped before."""
        rng = self.rng
        B = BTAG
        tree = [list(x) for x in FULL_TREE]
        dirs = [None, ".", "build", B + "/root/build", "src/../build/", "src", "../out", B + "/out/build", "stale", "src/sub/.."]
        files = ["main.c", "../src/a.c", "src/a.c", "./gen.c", "../main.c"]

        def entry(d, f, k):
            argv = ["gcc", "-c", f] + ([["-Iinc"], ["-I", "../inc"], [], ["-isystem", "."]][k % 4])
            e = {"file": f, "arguments": argv}
            if d is not None:
                e["directory"] = d
            return e

        def case(es):
            return {"tree": tree, "cwd": ["root"], "rootdir": B + "/root", "entries": es}
        out = []
        # every ordered pair of directories for every spelling
        for f in files:
            for i, d1 in enumerate(dirs):
                for j, d2 in enumerate(dirs):
                    if i != j:
                        out.append(case([entry(d1, f, i), entry(d2, f, j)]))
        # ordered triples (all for three spellings in the thorough tier, a random sample otherwise)
        triples = [(f, a, b, c) for f in files[:3] for a in range(len(dirs)) for b in range(len(dirs))
                   for c in range(len(dirs)) if len({a, b, c}) == 3]
        if self.tier == "quick":
            triples = rng.sample(triples, 250)
        for f, a, b, c in triples:
            out.append(case([entry(dirs[a], f, a), entry(dirs[b], f, b), entry(dirs[c], f, c)]))
        # an unsupported entry first, then supported ones with the same spelling (and the reverse)
        for f in files:
            for d1 in dirs[:6]:
                for d2 in dirs[:6]:
                    un = {"file": f, "arguments": []}
                    if d1 is not None:
                        un["directory"] = d1
                    out.append(case([un, entry(d2, f, 0)]))
                    out.append(case([entry(d2, f, 1), un, entry(d1, f, 2)]))
        # random longer mixes: 3-6 entries over two spellings, duplicates allowed
        for _ in range(150 if self.tier == "quick" else 4000):
            fs2 = rng.sample(files, 2)
            es = [entry(rng.choice(dirs), rng.choice(fs2), rng.randrange(4)) for _ in range(rng.randint(3, 6))]
            if rng.random() < 0.3:
                es.insert(rng.randrange(len(es)), {"file": rng.choice(fs2), "command": ""})
            out.append(case(es))
        self.stats["same_spelling_group_cases"] = len(out)
        return out

    def gen_attr_case(self):
        """A case on the oracle tree (a probe.h in every directory, every file includes <probe.h>) whose
        per-file platform attribution through finder.find is observed as well."""
        rng = self.rng
        tree = [list(x) for x in ORACLE_TREE]
        entries = []
        for _ in range(rng.randint(1, 3)):
            e = self.gen_entry(tree, ["root"], 1)
            for k in ("arguments",):
                if k in e:
                    e[k] = ["-I" if t == "-isystem" else t for t in e[k]]
            if "command" in e:
                e["command"] = e["command"].replace("-isystem", "-I")
            entries.append(e)
        return {"tree": tree, "cwd": ["root"], "rootdir": BTAG + "/root", "entries": entries, "attr": 1}

    # -------------------------------------------------------------- plumbing
    def subst(self, s, base):
        return s.replace(BTAG, str(base))

    def real_entries(self, case, base):
        out = []
        sub = lambda x: self.subst(x, base) if isinstance(x, str) else x
        for e in case["entries"]:
            if not isinstance(e, dict):
                out.append(sub(e))
                continue
            r = {}
            for k, v in e.items():
                r[k] = [sub(t) for t in v] if isinstance(v, list) else sub(v)
            out.append(r)
        return out

    def unsub(self, s, base):
        b = str(base)
        if isinstance(s, str):
            return s.replace(b, BTAG, 1)
        return s

    @staticmethod
    def schema_ok(e):
        """The part of compilation-database.schema that concerns one item (types; arguments or command required)."""
        return C13.types_ok(e) and ("arguments" in e or "command" in e)

    @staticmethod
    def types_ok(e):
        if not isinstance(e, dict):
            return False
        for k in ("directory", "file", "command", "output"):
            if k in e and not isinstance(e[k], str):
                return False
        if "arguments" in e and not (isinstance(e["arguments"], list) and all(isinstance(t, str) for t in e["arguments"])):
            return False
        return True

    def argv_of(self, e):
        if not self.types_ok(e):
            return None
        if "arguments" in e:
            return e["arguments"]
        if "command" in e:
            return e["command"].split()      # generator: tokens without blanks or quotes
        return None

    def encode(self, case):
        if "paths" in case:
            a, b = case["paths"]
            return enc(["P", a.encode(), b.encode()])
        base = make_tree(case["tree"])
        bcomps = [c for c in str(base).split("/") if c]
        objs = [[bcomps[:j], True] for j in range(1, len(bcomps) + 1)]
        for p, isd in sorted(tree_objects(case["tree"]).items()):
            objs.append([bcomps + list(p), isd])
        cwd = "/" + "/".join(bcomps + list(case["cwd"]))
        es = []
        for e in self.real_entries(case, base):
            if not self.schema_ok(e):
                es.append([[], [], []])        # the model's "object rejected by the schema"
                continue
            d = [e["directory"].encode()] if "directory" in e else []
            f = [e["file"].encode()] if "file" in e else []
            a = self.argv_of(e)
            a = [[t.encode() for t in a]] if a is not None else []
            es.append([d, f, a])
        return enc([cwd.encode(), self.subst(case["rootdir"], base).encode(),
                    [[[c.encode() for c in p], k] for p, k in objs], es])

    # -------------------------------------------------------------- implementation
    def impl(self, case):
        if "paths" in case:
            import pathlib
            a, b = case["paths"]
            return ["P", os.path.normpath(a), os.path.join(a, b),
                    os.path.normpath(a if os.path.isabs(a) else os.path.join(b, a)),   # abspath with getcwd() = b
                    os.path.basename(a), pathlib.Path(a).suffix, int(os.path.isabs(a)), os.path.splitext(a)[1]]
        from codebasin import config
        base = make_tree(case["tree"])
        dbdir = common.scratch() / "c13"
        dbpath = dbdir / "db.json"
        dbpath.write_text(json.dumps(self.real_entries(case, base)))
        records = []

        class H(logging.Handler):
            def emit(self, rec):
                records.append(rec)
        lg = logging.getLogger("codebasin")
        h = H(level=logging.WARNING)
        lg.addHandler(h)
        old_prop = lg.propagate
        lg.propagate = False
        old = os.getcwd()
        try:
            os.chdir(base.joinpath(*case["cwd"]))
            try:
                res = config.load_database(str(dbpath), self.subst(case["rootdir"], base))
            except Exception as e:  # noqa
                return ["Err", type(e).__name__]
        finally:
            os.chdir(old)
            lg.removeHandler(h)
            lg.propagate = old_prop
        warns = []
        for rec in records:
            msg = rec.getMessage()
            if rec.levelno < logging.WARNING:
                continue
            if msg.startswith("Ignoring non-existent file: "):
                warns.append(["missing", self.unsub(msg[len("Ignoring non-existent file: "):], base)])
            elif msg.startswith("Ignoring unsupported compile command"):
                warns.append(["unsupported"])
            elif msg.startswith("No files found in compilation database"):
                warns.append(["nofiles"])
            elif msg.startswith(("Unrecognized arguments", "Could not parse all arguments")) or "not recognized" in msg:
                continue
            else:
                warns.append(["other", msg[:60]])
        ents = []
        for e in res:
            ents.append([self.unsub(e["file"], base), [self.unsub(p, base) for p in e["include_paths"]]])
            if e["pass_name"] != "default":
                ents[-1].append(e["pass_name"])
        if case.get("attr"):
            out = ["Ok", ents, warns, self.attribution(case, base, res)]
            if case.get("cli"):
                out.append(self.cli_lines(base, dbpath))
            return out
        return ["Ok", ents, warns]

    def cli_lines(self, base, dbpath):
        """Per-line attribution through the coverage CLI (a subprocess started outside the root)."""
        import sys
        d = common.scratch() / "c13" / "cli"
        d.mkdir(parents=True, exist_ok=True)
        cov = d / "cov.json"
        cov.unlink(missing_ok=True)
        env = dict(os.environ, PYTHONPATH=str(common.REPO), PYTHONHASHSEED="0")
        p = subprocess.run([sys.executable, "-W", "ignore", "-m", "codebasin.coverage", "compute",
                            "-S", str(base / "root"), "-o", str(cov), str(dbpath)],
                           cwd=d, env=env, capture_output=True, text=True, timeout=120)
        if p.returncode != 0 or not cov.exists():
            return ["Err", p.returncode]
        self.stats["cli_runs"] = self.stats.get("cli_runs", 0) + 1
        out = []
        for rec in json.loads(cov.read_text()):
            if rec["used_lines"]:
                out.append([[BTAG, "root"] + rec["file"].split("/"), sorted(rec["used_lines"])])
        return sorted(out)

    def attribution(self, case, base, db):
        """Files with at least one code node attributed to the platform, through finder.find."""
        import codebasin
        from codebasin import finder, preprocessor
        rootdir = os.path.abspath(str(base / "root"))
        logging.disable(logging.CRITICAL)
        try:
            try:
                cb = codebasin.CodeBase(rootdir)
                state = finder.find(rootdir, cb, {"P": db})
            except Exception as e:  # noqa
                return ["Err", type(e).__name__]
        finally:
            logging.disable(logging.NOTSET)
        out = []
        for p, isd in sorted(tree_objects(case["tree"]).items()):
            if isd:
                continue
            f = str(base.joinpath(*p))
            tree = state.get_tree(f)
            if tree is None:
                continue
            amap = state.get_map(f)
            if any("P" in amap[n] for n in tree.walk() if isinstance(n, preprocessor.CodeNode)):
                out.append([BTAG] + list(p))
        return out

    # -------------------------------------------------------------- views
    def impl_view_for_model(self, case, ia):
        return ia if "paths" in case else ia[:3]

    def model_view(self, case, ans):
        if "paths" in case:
            return ["P"] + list(ans)
        base = make_tree(case["tree"])
        m = ans[0]
        if m[0] == "Err":
            return ["Err", m[1]]
        ents = [[self.unsub(f, base), [self.unsub(i, base) for i in incs]] for f, incs in m[1]]
        warns = [[w[0]] + [self.unsub(x, base) for x in w[1:]] for w in m[2]]
        return ["Ok", ents, warns]

    def _loc(self, l, base):
        b = [c for c in str(base).split("/") if c]
        l = list(l)
        if l[:len(b)] == b:
            return [BTAG] + l[len(b):]
        return l

    def spec(self, case, ans):
        self._kflags = None
        if ans is None or isinstance(ans, str) or "paths" in case:
            return None
        s = ans[1]
        if s == "None":
            return None
        base = make_tree(case["tree"])
        ents, warns = [], []
        for o in s[1]:
            if o[0] == "open":
                ents.append([self._loc(o[1], base), [self._loc(i, base) for i in o[2]]])
            elif o[0] == "missing":
                warns.append(["missing", self._loc(o[1], base)])
            else:
                warns.append(["unsupported"])
        if not ents:
            warns.append(["nofiles"])
        self._kflags = ans[2]
        if case.get("attr"):
            # only files named by entries, and what they include: every file includes <probe.h>,
            # found in the first include directory (in command order) that has one
            objs = tree_objects(case["tree"])
            att = set()
            for f, incs in ents:
                att.add(tuple(f))
                for i in incs:
                    if i[:1] == [BTAG] and objs.get(tuple(i[1:]) + ("probe.h",)) is False:
                        att.add(tuple(i) + ("probe.h",))
                        break
            out = ["Ok", ents, warns, sorted(list(a) for a in att)]
            if case.get("cli"):
                # the coverage CLI reports the files of the code base (inside the root): an entry file has its
                # marker line and its #include line used, an included probe header its single line
                named = {tuple(f) for f, _ in ents}
                out.append(sorted([list(a), [1, 2] if a in named else [1]] for a in att if a[:2] == (BTAG, "root")))
            return out
        return ["Ok", ents, warns]

    @staticmethod
    def str_loc(s):
        """Independent reading of an absolute, normalised path string as a location."""
        if isinstance(s, str) and BTAG in s:
            s = s.replace(BTAG, "/" + BTAG, 1)      # the tag stands for an absolute prefix
        if not isinstance(s, str) or not s.startswith("/"):
            return ["NOT-ABSOLUTE", s]
        comps = s.split("/")
        lead = 0
        while lead < len(comps) and comps[lead] == "":
            lead += 1
        body = comps[lead:]
        if s.strip("/") == "":
            body = []
        if lead > 2 or any(c in ("", ".", "..") for c in body):
            return ["NOT-NORMAL", s]
        return body

    def impl_view_for_spec(self, case, ia):
        if ia[0] != "Ok":
            return ia
        ents = []
        for e in ia[1]:
            ents.append([self.str_loc(e[0]), [self.str_loc(i) for i in e[1]]] + e[2:])
        warns = [[w[0]] + [self.str_loc(x) for x in w[1:]] if w[0] == "missing" else w for w in ia[2]]
        return ["Ok", ents, warns] + ia[3:]

    def in_domain(self, case, sa):
        # spec() has just been called for this case and left the kernel-agreement flags
        dom = self.stats.setdefault("domain", {"path_function_cases_(I~M only)": 0, "S_undefined_(malformed_database)": 0,
                                               "spelling_crosses_missing_directory_or_file": 0, "in_domain": 0})
        if "paths" in case:
            dom["path_function_cases_(I~M only)"] += 1
            return False
        if sa is None or self._kflags is None:
            dom["S_undefined_(malformed_database)"] += 1
            return False
        if not all(f == 1 for f in self._kflags):
            dom["spelling_crosses_missing_directory_or_file"] += 1
            return False
        dom["in_domain"] += 1
        return True

    def classify(self, case, ia, sa):
        return None

    def nontrivial(self, case, ia):
        if "paths" in case:
            return False
        if ia[0] != "Ok" or not ia[1]:
            return False
        for e in case["entries"]:
            if not self.schema_ok(e):
                continue
            d = e.get("directory")
            argv = self.argv_of(e) or []
            rel_inc = any((t.startswith("-I") and len(t) > 2 and not t[2:].startswith(("/", BTAG))) for t in argv) or \
                any(a in ("-I", "-isystem") and j + 1 < len(argv) and not argv[j + 1].startswith(("/", BTAG))
                    for j, a in enumerate(argv))
            if d is not None and not d.startswith(("/", BTAG)):
                return True
            if d is not None and rel_inc:
                return True
            if ".." in (e.get("file") or ""):
                return True
        return False

    def shrink(self, case, still_fails):
        if "paths" in case:
            return case
        c = dict(case)
        ents = common.shrink_list(case["entries"], lambda es: bool(es) and still_fails({**c, "entries": es}))
        c["entries"] = ents
        # try to drop arguments of each entry
        for k, e in enumerate(list(c["entries"])):
            if self.schema_ok(e) and "arguments" in e and len(e["arguments"]) > 1:
                head = e["arguments"][:1]
                rest = common.shrink_list(e["arguments"][1:], lambda a: still_fails(
                    {**c, "entries": c["entries"][:k] + [{**e, "arguments": head + a}] + c["entries"][k + 1:]}))
                c["entries"] = c["entries"][:k] + [{**e, "arguments": head + rest}] + c["entries"][k + 1:]
        return c

    # -------------------------------------------------------------- distribution
    def measure(self, cases):
        d = {"entries": 0, "dir_absent": 0, "dir_absolute": 0, "dir_relative": 0, "file_absolute": 0,
             "file_relative": 0, "file_with_dotdot": 0, "spelling_with_dot_or_empty_segment": 0,
             "inc_values": 0, "inc_relative": 0, "inc_relative_under_directory": 0, "empty_command": 0,
             "command_string": 0, "no_file_key": 0, "no_command_key": 0, "cases": len(cases),
             "entries_per_case": {}}
        for c in cases:
            n = len(c["entries"])
            d["entries_per_case"][n] = d["entries_per_case"].get(n, 0) + 1
            for e in c["entries"]:
                d["entries"] += 1
                if not self.types_ok(e):
                    d["schema_type_error"] = d.get("schema_type_error", 0) + 1
                    continue
                dr = e.get("directory")
                d["dir_absent" if dr is None else ("dir_absolute" if dr.startswith(("/", BTAG)) else "dir_relative")] += 1
                f = e.get("file")
                if f is None:
                    d["no_file_key"] += 1
                else:
                    d["file_absolute" if f.startswith(("/", BTAG)) else "file_relative"] += 1
                    if ".." in f.split("/"):
                        d["file_with_dotdot"] += 1
                    if "." in f.split("/") or "" in f.split("/")[1:]:
                        d["spelling_with_dot_or_empty_segment"] += 1
                a = self.argv_of(e)
                if a is None:
                    d["no_command_key"] += 1
                    continue
                if "command" in e:
                    d["command_string"] += 1
                if not a:
                    d["empty_command"] += 1
                for v in self.inc_values(a):
                    d["inc_values"] += 1
                    if not v.startswith(("/", BTAG)):
                        d["inc_relative"] += 1
                        if dr is not None:
                            d["inc_relative_under_directory"] += 1
        return d

    @staticmethod
    def inc_values(argv):
        """-I/-isystem values as parse_args keeps them (a missing value stops the parse)."""
        out, sysd = [], []
        j = 1
        dash = lambda v: len(v) > 1 and v[0] == "-"
        while j < len(argv):
            t = argv[j]
            if t in ("-I", "-isystem"):
                if j + 1 >= len(argv) or dash(argv[j + 1]):
                    break
                (out if t == "-I" else sysd).append(argv[j + 1])
                j += 2
            elif t in ("-D", "-o", "-include"):
                if j + 1 >= len(argv) or dash(argv[j + 1]):
                    break
                j += 2
            elif t.startswith("-I"):
                out.append(t[2:])
                j += 1
            else:
                j += 1
        return out + sysd          # -I directories first, then -isystem directories

    def extra_coverage(self):
        return {"input_distribution": self.stats.get("dist", {}), "gcc_oracle": self.stats.get("oracle", {}),
                "domain_breakdown": self.stats.get("domain", {}), "coverage_cli_runs": self.stats.get("cli_runs", 0),
                "same_spelling_group_cases": self.stats.get("same_spelling_group_cases", 0)}

    # -------------------------------------------------------------- S versus gcc
    def self_tests(self):
        """Validate S (and the kernel-agreement flags K) against `gcc -E` started in the entry's directory."""
        problems = []
        if not common.driver_path(self.prop_id).exists():
            return problems
        rng = self.rng
        n = 60 if self.tier == "quick" else 600
        tree = [list(x) for x in ORACLE_TREE]
        base = make_tree(tree)
        order = sorted(tree)
        marker = {}
        for i, obj in enumerate(order):
            *p, kind = obj
            if kind == "f":
                marker[tuple(p)] = i
        cases = []
        for _ in range(n):
            e = self.gen_entry(tree, ["root"], 1)
            cases.append({"tree": tree, "cwd": ["root"], "rootdir": BTAG + "/root", "entries": [e]})
        try:
            answers = common.run_model(self.prop_id, [self.encode(c) for c in cases])
        except Exception as ex:  # noqa
            return [f"gcc oracle: model driver failed: {ex}"]
        st = {"entries": n, "gcc_runs": 0, "file_confirmed": 0, "include_dir_confirmed": 0,
              "missing_confirmed": 0, "not_a_directory_include_confirmed": 0,
              "outside_domain_confirmed_by_gcc": 0, "outside_domain": 0, "skipped_no_chdir": 0, "disagreements": 0}
        for c, ans in zip(cases, answers):
            if isinstance(ans, str) or ans[1] == "None":
                continue
            so = ans[1][1][0]
            kflag = ans[2][0]
            e = self.real_entries(c, base)[0]
            ddir = os.path.join(str(base / "root"), e.get("directory", "."))
            if so[0] == "unsupported":
                continue
            if not os.path.isdir(ddir):
                st["skipped_no_chdir"] += 1
                if kflag == 1 and so[0] == "open":
                    st["disagreements"] += 1
                    problems.append(f"gcc oracle: K flag says in-domain but chdir is impossible: {c['entries'][0]}")
                continue
            bl = [x for x in str(base).split("/") if x]
            incs = self.inc_values(self.argv_of(e) or [])
            runs = [(None, None)] if not incs else list(zip(incs, so[2] if so[0] == "open" else [None] * len(incs)))
            for v, iloc in runs:
                cmd = ["gcc", "-E", "-x", "c"] + (["-I", v] if v is not None else []) + ["-I", str(base / "probe0"), e["file"]]
                p = subprocess.run(cmd, cwd=ddir, capture_output=True, text=True)
                st["gcc_runs"] += 1
                fm = [int(x) for x in __import__("re").findall(r"file_marker_(\d+)", p.stdout)]
                pm = [int(x) for x in __import__("re").findall(r"probe_marker_(\d+)", p.stdout)]
                if kflag != 1:
                    st["outside_domain"] += 1
                    # the lexical answer is not what the kernel does: gcc must differ somewhere
                    if so[0] == "open":
                        rel = tuple(so[1][len(bl):]) if so[1][:len(bl)] == bl else None
                        same_file = fm[:1] == [marker.get(rel, -1)]
                        same_inc = True
                        if iloc is not None:
                            irel = tuple(iloc[len(bl):]) + ("probe.h",) if iloc[:len(bl)] == bl else None
                            same_inc = pm[:1] == [marker.get(irel, marker[("probe0", "probe.h")])]
                        if not (same_file and same_inc):
                            st["outside_domain_confirmed_by_gcc"] += 1
                    continue
                if so[0] == "missing":
                    if p.returncode != 0 and not fm:
                        st["missing_confirmed"] += 1
                    else:
                        st["disagreements"] += 1
                        problems.append(f"gcc oracle: S says missing, gcc opened something: {c['entries'][0]}")
                    continue
                rel = tuple(so[1][len(bl):]) if so[1][:len(bl)] == bl else None
                if fm[:1] == [marker.get(rel, -1)]:
                    st["file_confirmed"] += 1
                else:
                    st["disagreements"] += 1
                    problems.append(f"gcc oracle: file: S={so[1]} gcc marker={fm[:1]} entry={c['entries'][0]}")
                if iloc is not None:
                    irel = tuple(iloc[len(bl):]) + ("probe.h",) if iloc[:len(bl)] == bl else None
                    want = marker.get(irel)
                    if want is not None and pm[:1] == [want]:
                        st["include_dir_confirmed"] += 1
                    elif want is None and pm[:1] == [marker[("probe0", "probe.h")]]:
                        st["not_a_directory_include_confirmed"] += 1
                    else:
                        st["disagreements"] += 1
                        problems.append(f"gcc oracle: -I {v}: S={iloc} gcc probe marker={pm[:1]} entry={c['entries'][0]}")
        self.stats["oracle"] = st
        return problems[:5]


CHECK = C13
