"""C06 — every counted line lands in exactly one platform set; all reports agree.

I  = finder.find + ParserState.get_setmap, report.summary, report.files /
     FileTree.insert / _print, coverage.__main__._compute  (in process) and the
     three front ends `python -m codebasin -R summary`, `python -m codebasin.tree
     [--prune] [-L k]`, `python -m codebasin.coverage compute` as subprocesses.
M  = Model/C06.v (the three folds, the trie insert, _print with levels)
S  = Spec/C06.v  (per-line attribution and plain sums over files / path prefixes)

The input of M and S is the per-node attribution obtained in process
(state.get_tree / get_map for every file of the code base); every report is an
output that is parsed back and compared.
"""
from __future__ import annotations

import argparse
import hashlib
import io
import itertools
import json
import logging
import os
import re
import shutil
import subprocess
import sys
from concurrent.futures import ThreadPoolExecutor
from fractions import Fraction
from pathlib import Path

from . import common
from .common import Check, enc

FLAGS = ["F0", "F1", "F2", "F3"]
PNAMES = ["cpu", "gpu", "Xe", "fpga", "a64"]
DIRS = ["", "", "src", "src", "src/core", "src/core/deep", "src/util", "inc", "lib/a", "lib/a/b/c"]
LABELS = "ABCDEFGHIJKLMNOPQRSTUVWXYZ"
VARIANTS = [(False, False), (False, True), (True, False), (True, True)]      # (prune, use -L)

_setup_done = False

# The framework's extraction cross-check hands sampled cases to coqc as string literals; a code base
# with a 12 000-line file encodes to > 30 000 characters, which overflows coqc's default 8 MB stack
# (measured: "Error: Stack overflow" at ~30 k characters, fine at 90 k with an unlimited stack).
# Child processes inherit the limit, so raise the soft limit to the hard one here.
try:
    import resource as _resource
    _soft, _hard = _resource.getrlimit(_resource.RLIMIT_STACK)
    if _soft != _hard:
        _resource.setrlimit(_resource.RLIMIT_STACK, (_hard, _hard))
except Exception:  # noqa
    pass


def _setup():
    global _setup_done
    if not _setup_done:
        logging.disable(logging.CRITICAL)
        _setup_done = True


# ------------------------------------------------------------------ generation
def gen_text(rng, headers, depth=0, budget=14):
    """A list of physical lines from a small C grammar; conditionals are balanced."""
    out = []
    n = rng.randint(0, 5) if depth else rng.randint(0, 8)
    for _ in range(n):
        if len(out) > budget:
            break
        r = rng.random()
        if r < 0.30:
            out.append(f"int v{rng.randint(0, 999)};")
        elif r < 0.36:
            out.append("")
        elif r < 0.42:
            out.append(rng.choice(["// note", "/* note */", "  /* a", "   b */"]) if rng.random() < 0.7 else "int w; // tail")
            if out[-1] == "  /* a":
                out.append("   b */")
        elif r < 0.48:
            out += ["int cont = \\", "  1;"]
        elif r < 0.56 and headers:
            out.append(f'#include "{rng.choice(headers)}"')
        elif r < 0.62:
            out.append(f"#define {rng.choice(FLAGS)}" + rng.choice(["", " 1"]))
        elif r < 0.66:
            out.append(f"#undef {rng.choice(FLAGS)}")
        elif r < 0.70:
            out.append("#pragma omp parallel")
        elif r < 0.76:
            # a directive whose physical extent contains a line that cleans to blank (comment-only or empty
            # continuation, or a block comment opened on the directive line and closed on the next):
            # num_lines counts fewer lines than the extent; node.lines must list the counted ones only
            out += rng.choice([
                [f"#define M{rng.randint(0, 99)}(x) \\", "    /* widen first */ \\", "    ((long)(x) * 4)"],
                [f"#define N{rng.randint(0, 99)} 1 /* open", "   close */"],
                [f"#define K{rng.randint(0, 99)} \\", "\\", "  2"],
                [f"#undef {rng.choice(FLAGS)} /* gone", "   for good", "   now */"],
                ["#pragma omp \\", "  /* c */ \\", "  parallel"],
            ])
        elif r < 0.79 and depth < 3:
            f, g = rng.choice(FLAGS), rng.choice(FLAGS)
            out += rng.choice([
                [f"#if defined({f}) \\", "\\", f"  && !defined({g})"],
                [f"#if defined({f}) /* pick the path;", "        the other is below */"],
                [f"#ifdef {f} /* a", "  b */"],
            ])
            out += gen_text(rng, headers, depth + 1, budget // 2)
            if rng.random() < 0.5:
                out += rng.choice([["#else /* other", "  side */"], ["#else"]])
                out += gen_text(rng, headers, depth + 1, budget // 3)
            out.append("#endif")
        elif depth < 3:
            f, g = rng.choice(FLAGS), rng.choice(FLAGS)
            out.append(rng.choice([f"#ifdef {f}", f"#ifndef {f}", f"#if defined({f}) && !defined({g})",
                                   f"#if defined({f}) || defined({g})", "#if 0", "#if 1"]))
            out += gen_text(rng, headers, depth + 1, budget // 2)
            if rng.random() < 0.3:
                out.append(f"#elif defined({rng.choice(FLAGS)})")
                out += gen_text(rng, headers, depth + 1, budget // 3)
            if rng.random() < 0.5:
                out.append("#else")
                out += gen_text(rng, headers, depth + 1, budget // 3)
            out.append("#endif")
    return out


def gen_case(rng, cli, big=False):
    nfiles = rng.randint(1, 9)
    files = []
    names = set()
    hdrs = []
    plan = []
    for i in range(nfiles):
        d = rng.choice(DIRS)
        ext = rng.choice([".c", ".c", ".cpp", ".h", ".h", ".hpp"])
        if rng.random() < 0.12:
            d = "ex"
        base = ("gen_" if rng.random() < 0.08 else "") + f"f{i}{ext}"
        plan.append((d, base, ext))
        if ext in (".h", ".hpp") and d != "ex":
            hdrs.append(base)
    for i, (d, base, ext) in enumerate(plan):
        later = [h for h in hdrs if int(re.search(r"f(\d+)", h).group(1)) > i]
        lines = gen_text(rng, later)
        if ext in (".h", ".hpp") and rng.random() < 0.3:
            lines = ["#pragma once"] + lines
        r = rng.random()
        if r < 0.06:
            lines = []
        elif r < 0.12:
            lines = ["// nothing but a comment", ""]
        elif big and r < 0.4:
            lines = lines + [f"int big{j};" for j in range(rng.choice([1000, 1500, 12345]))]
        p = (d + "/" if d else "") + base
        names.add(p)
        files.append([p, "src", "\n".join(lines) + ("\n" if lines and rng.random() < 0.9 else "")])
    regular = [f[0] for f in files]
    # non-source files, links of several kinds
    if rng.random() < 0.4:
        files.append([rng.choice(["README.txt", "src/Makefile", "inc/notes.md"]), "src", "int not_source;\n"])
    for j in range(rng.choice([0, 0, 1, 1, 2, 3])):
        d = rng.choice(DIRS)
        kind = rng.random()
        tgt = rng.choice(regular)
        if kind < 0.6:
            name = f"l{j}" + rng.choice([".c", ".h", ".cpp", os.path.splitext(tgt)[1]])
        elif kind < 0.75:
            name = f"l{j}.txt"                     # non-source name, source target
        elif kind < 0.85:
            name, tgt = f"l{j}.c", "missing/none.c"  # dangling
        else:
            name, tgt = f"dl{j}", (os.path.dirname(tgt) or "src")   # directory link
        p = (d + "/" if d else "") + name
        if p in names:
            continue
        names.add(p)
        files.append([p, "link", tgt])
    exclude = [x for x in ["ex/", "gen_*"] if rng.random() < 0.8]
    # platforms
    comp = [f[0] for f in files if f[1] != "link" and f[0].endswith((".c", ".cpp"))]
    comp += [f[0] for f in files if f[1] == "link" and f[0].endswith((".c", ".cpp")) and f[2] in regular][:1]
    incdirs = sorted({os.path.dirname(f[0]) for f in files if f[0].endswith((".h", ".hpp")) and f[1] == "src"})
    nplat = rng.choice([0, 1, 1, 2, 2, 2, 3, 3, 4])
    plats = []
    for name in rng.sample(PNAMES, nplat):
        entries = []
        for _ in range(rng.choice([0, 1, 1, 2, 2, 3])):
            if not comp:
                break
            f = rng.choice(comp)
            defs = [x + rng.choice(["", "=1"]) for x in FLAGS if rng.random() < 0.4]
            entries.append([f, defs, [d for d in incdirs if rng.random() < 0.85]])
        plats.append([name, entries])
    # the same translation unit compiled more than once with EQUAL -D lists but different -I directories
    # that hold a same-named header of different content (reached by #include or by -include), or with
    # different forced includes: what one compilation reaches the other does not, and the coverage export
    # (run on the concatenation of all databases) must still show the union the other reports show
    srcs = [f for f in files if f[1] == "src" and f[0].endswith((".c", ".cpp")) and not f[0].startswith("ex/")
            and "gen_" not in f[0]]
    if plats and srcs and rng.random() < 0.4:
        tu = rng.choice(srcs)
        nvar = rng.choice([2, 2, 3])
        mode = rng.choice(["include", "include", "forced", "forced_files"])
        defs = [x + rng.choice(["", "=1"]) for x in FLAGS[3:] if rng.random() < 0.5]
        if mode == "include":
            tu[2] = rng.choice(['#include "cfg.h"\n', "#include <cfg.h>\n"]) + tu[2]
        tu[2] += ("" if tu[2].endswith("\n") or not tu[2] else "\n") + \
            "#ifdef F0\nint on_f0;\n#endif\n#if defined(F1)\nint on_f1;\n#elif defined(F2)\nint on_f2;\n#else\nint on_none;\n#endif\n"
        for i in range(nvar):
            body = [f"#define {FLAGS[i]} 1"] + ([f"int cfg_{i};"] if rng.random() < 0.7 else []) + \
                   ([f"#ifdef {FLAGS[(i + 1) % 3]}", "int other_too;", "#endif"] if rng.random() < 0.3 else [])
            if rng.random() < 0.4:
                body = ["#pragma once"] + body
            if mode == "forced_files":
                hp, incs, forced = f"cfg/cfg{i}.h", ["cfg"], [f"cfg{i}.h"]
            else:
                hp, incs, forced = f"cfg/v{i}/cfg.h", [f"cfg/v{i}"], (["cfg.h"] if mode == "forced" else [])
            files.append([hp, "src", "\n".join(body) + "\n"])
            names.add(hp)
            plats[i % len(plats)][1].append([tu[0], list(defs), incs, forced])
    case = {"files": files, "platforms": plats, "exclude": exclude, "levels": rng.randint(1, 4), "cli": bool(cli)}
    if nplat >= 2 and rng.random() < 0.3:
        # -p selection: the front ends get `-p name ...` on the full analysis file; the in-process
        # attribution (input of M and S) is computed for the selected platforms only
        case["select"] = rng.sample([n for n, _ in plats], rng.randint(1, nplat - 1))
    return case


SMALL_CONTENT = ["int a;\nint b;\n", "int a;\n#ifdef F0\nint g;\n#else\nint c;\nint d;\n#endif\n", "// only a comment\n"]
SMALL_POS = ["a.c", "d/b.c", "d/e/c.h"]
SMALL_PLAT = [
    [],
    [["P", [["@0", [], []]]]],
    [["P", [["@0", ["F0"], []]]], ["Q", [["@0", [], []], ["@1", [], []]]]],
]


def small_block(full):
    """Every placement of <= 3 files over 3 positions x 3 contents x 3 platform layouts x link/no link."""
    out = []
    for assign in itertools.product([None, 0, 1, 2], repeat=3):
        present = [(SMALL_POS[i], SMALL_CONTENT[a]) for i, a in enumerate(assign) if a is not None]
        if not present:
            continue
        if not full and sum(a is not None for a in assign) == 3 and assign[2] != 1:
            continue
        for pl in SMALL_PLAT:
            for link in (False, True):
                files = [[p, "src", c] for p, c in present]
                if link:
                    files.append(["d/l.c", "link", present[0][0]])
                comp = [p for p, _ in present]
                plats = []
                for name, entries in pl:
                    es = []
                    for f, defs, inc in entries:
                        idx = int(f[1:])
                        if idx < len(comp):
                            es.append([comp[idx], list(defs), []])
                    plats.append([name, es])
                out.append({"files": files, "platforms": plats, "exclude": [], "levels": 1, "cli": False, "small": True})
    return out


MALFORMED = [
    {"files": [["a.c", "src", "#if 1\nint x;\n"]], "platforms": [["P", [["a.c", [], []]]]], "exclude": [], "levels": 1, "cli": True},
    {"files": [["a.c", "src", "int x;\n#endif\n"], ["b.c", "src", "int y;\n"]], "platforms": [], "exclude": [], "levels": 2, "cli": False},
    {"files": [["a.c", "src", "int x;\n#else\nint y;\n"]], "platforms": [["P", []]], "exclude": [], "levels": 1, "cli": False},
    # no file at all, a compile command for a file that does not exist, an excluded compiled file
    {"files": [], "platforms": [["P", []]], "exclude": [], "levels": 1, "cli": True},
    {"files": [["a.c", "src", "int x;\n"]], "platforms": [["P", [["gone.c", [], []]]]], "exclude": [], "levels": 1, "cli": False},
    {"files": [["ex/a.c", "src", "int x;\n"], ["b.c", "src", "#ifdef F0\nint y;\n#endif\n"]],
     "platforms": [["P", [["ex/a.c", ["F0"], []]]]], "exclude": ["ex/"], "levels": 1, "cli": True},
]


# ------------------------------------------------------------------ parsing the reports back
def parse_summary(text):
    rows = []
    total = None
    for line in text.splitlines():
        if line.startswith("│"):
            cells = [c.strip() for c in line.strip("│").split("│")]
            if cells[0] == "Platform Set":
                continue
            m = re.fullmatch(r"\{(.*)\}", cells[0])
            if not m:
                return ["Unparsable", line]
            key = [x for x in m.group(1).split(", ") if x]
            rows.append([key, int(cells[1]), cells[2]])
        m = re.match(r"Total SLOC: (-?\d+)", line)
        if m:
            total = int(m.group(1))
    return {"rows": rows, "total": total}


_ROW = re.compile(r"^\[(.*?)\] ((?:[| ] )*)([|\\]?)(-?)([o-]) (.*)$")


def parse_tree(text, root):
    """-> {"legend": [names], "rows": [[depth, name, isdir, islink, letters, sloc, cov, avg]]}"""
    legend = []
    rows = []
    mode = "legend"
    for line in text.splitlines():
        if mode == "legend":
            m = re.fullmatch(r"([A-Z]): (.*)", line)
            if m:
                if m.group(1) != LABELS[len(legend)]:
                    return ["Unparsable", line]
                legend.append(m.group(2))
            if line.startswith("[Platforms |"):
                mode = "rows"
            continue
        if not line.strip():
            continue
        m = _ROW.match(line)
        if not m:
            return ["Unparsable", line]
        meta, prefix, conn, dash, kind, name = m.groups()
        cells = [c.strip() for c in meta.split("|")]
        if len(cells) != 4:
            return ["Unparsable", line]
        if conn == "":
            depth = 0
            if dash != "" or name.rstrip("/") != str(root).rstrip("/"):
                return ["BadRootRow", line]
            name = ""
        else:
            depth = len(prefix) // 2 + 1
            if dash != "-":
                return ["Unparsable", line]
        isdir = kind == "o"
        islink = False
        if " -> " in name:
            name, target = name.split(" -> ", 1)
            islink = True
            rows.append([depth, name, isdir, islink] + cells + [target])
            continue
        if isdir:
            if depth and not name.endswith("/"):
                return ["Unparsable", line]
            name = name.rstrip("/")
        rows.append([depth, name, isdir, islink] + cells)
    return {"legend": legend, "rows": rows}


def rows_with_paths(rows):
    """[depth, name, ...] in print order -> [path components, ...rest]; None when depths do not nest."""
    out = []
    stack = []
    for r in rows:
        depth, name = r[0], r[1]
        if depth == 0:
            stack = []
            out.append([[]] + r[2:])
            continue
        if depth - 1 > len(stack):
            return None
        stack = stack[:depth - 1] + [name]
        out.append([list(stack)] + r[2:])
    return out


def close_q(cell, num, den):
    try:
        v = Fraction(cell.strip())
    except Exception:
        return False
    return abs(v - Fraction(num, den)) <= Fraction(1, 200) + Fraction(1, 10**9)


def close_hr(cell, x):
    digits = len(str(x))
    if digits <= 3:
        return cell == str(x)
    for lim, unit, sfx in ((6, 10**3, "k"), (9, 10**6, "M"), (12, 10**9, "G")):
        if digits <= lim:
            if not cell.endswith(sfx):
                return False
            try:
                v = Fraction(cell[:-1])
            except Exception:
                return False
            return abs(v - Fraction(x, unit)) <= Fraction(1, 20) + Fraction(1, 10**9)
    return cell == "******"


def snap(m, i):
    """Replace exact markers in the expected structure m by the implementation's
    cell when that cell is the marker's value to display precision."""
    if isinstance(m, list) and m and m[0] == "Q" and len(m) == 3 and isinstance(m[1], int):
        return i if isinstance(i, str) and close_q(i, m[1], m[2]) else m
    if isinstance(m, list) and m and m[0] == "HR" and len(m) == 2:
        return i if isinstance(i, str) and close_hr(i, m[1]) else m
    if isinstance(m, list) and isinstance(i, list) and len(m) == len(i):
        return [snap(a, b) for a, b in zip(m, i)]
    if isinstance(m, dict) and isinstance(i, dict) and m.keys() == i.keys():
        return {k: snap(m[k], i[k]) for k in m}
    return m


def cells_from(mask_letters, total, used, per):
    cov = "nan" if total == 0 else ["Q", 100 * used, total]
    avg = "nan" if (total == 0 or not per) else ["Q", 100 * sum(per), total * len(per)]
    return [mask_letters, ["HR", total], cov, avg]



# ------------------------------------------------------------------ front ends in process
class _Capture:
    """Run a front end's entry function in process: cwd changed, sys.argv set, file
    descriptors 1 and 2 redirected (report.summary / report.files bind sys.stdout as a
    default argument at import time, so replacing sys.stdout is not enough), handlers
    that the entry function adds to the `codebasin` logger removed again."""

    def __init__(self, cwd, argv0, outfile):
        self.cwd, self.argv0, self.outfile = str(cwd), argv0, str(outfile)

    def run(self, fn, argv):
        log = logging.getLogger("codebasin")
        before = list(log.handlers)
        old_cwd, old_argv = os.getcwd(), sys.argv
        sys.stdout.flush()
        sys.stderr.flush()
        s1, s2 = os.dup(1), os.dup(2)
        fo = os.open(self.outfile, os.O_WRONLY | os.O_CREAT | os.O_TRUNC, 0o600)
        fe = os.open(os.devnull, os.O_WRONLY)
        rc = 0
        try:
            os.dup2(fo, 1)
            os.dup2(fe, 2)
            os.chdir(self.cwd)
            sys.argv = [self.argv0] + list(argv)
            try:
                fn()
            except SystemExit as e:
                rc = 0 if e.code in (0, None) else (e.code if isinstance(e.code, int) else 1)
            except Exception as e:  # noqa  (main() would log the error and exit 1)
                rc = ["Err", type(e).__name__]
        finally:
            sys.stdout.flush()
            sys.stderr.flush()
            os.dup2(s1, 1)
            os.dup2(s2, 2)
            for fd in (s1, s2, fo, fe):
                os.close(fd)
            os.chdir(old_cwd)
            sys.argv = old_argv
            for h in list(log.handlers):
                if h not in before:
                    log.removeHandler(h)
                    try:
                        h.close()
                    except Exception:  # noqa
                        pass
        with open(self.outfile, encoding="utf-8", errors="replace") as fh:
            return rc, fh.read()

# ------------------------------------------------------------------ the check
class C06(Check):
    prop_id = "C06"
    rule = ("random code bases of 1-9 source/header files in up to 4 directory levels with nested balanced conditionals, "
            "includes, defines, comments and continuations, unused files and headers, excluded files, non-source files, "
            "file symlinks (source and non-source names), dangling and directory symlinks, 0-4 platforms each with 0-3 compile "
            "commands and random -D sets, in 30 % of the multi-platform cases a -p selection of a proper subset, in 40 % one translation unit compiled 2-3 times with equal -D lists but different -I directories holding a same-named header of different content (by #include or -include) or different forced includes; an exhaustive block of every placement of <= 3 files over 3 positions x 3 contents x "
            "3 platform layouts x link/no link; a malformed stream (unbalanced files, empty code base, missing compiled file). "
            "About 9 % of the generated lines are multi-line directives (#define/#undef/#pragma/#if/#ifdef/#else) whose physical extent contains a line that cleans to blank (comment-only or empty continuation, block comment closed on the next line). A case is non-trivial if the setmap has >= 2 platform sets, some directory has >= 2 files below it and at least one "
            "file or line is unused")
    assumptions = [
        "a node counts exactly the lines it lists and no physical line is listed by two nodes (C05; checked on every case as hyp.wf)",
        "every symlink yielded by CodeBase iteration has its target in the code base (CodeBase.__contains__ resolves the path; checked on every case as hyp.links_ok)",
        "code-base paths are distinct and none is a proper prefix of another (file system)",
        "platform sets are compared in canonical sorted form; the sorted universe of platform names is an input of M",
        "cbi-cov is run on the concatenation of all platforms' compilation databases, so used = used by some platform",
        "percentages and coverage cells are compared with the exact rationals to the printed precision (0.005), SLOC >= 1000 to 0.05 units",
    ]

    def __init__(self, tier, seed):
        super().__init__(tier, seed)
        self._ia = {}
        self.hist = {"cli_cases": 0, "subprocesses": 0, "err_cases": 0, "files": {}, "platforms": {}, "depth": {},
                     "links": 0, "big_files": 0, "oracle_cases": 0, "oracle_bad": []}
        self._n = 0

    # ---- generation
    def generate(self):
        out = [dict(c) for c in MALFORMED]
        quick = self.tier == "quick"
        for _ in range(16 if quick else 150):
            out.append(gen_case(self.rng, cli=True))
        for _ in range(2 if quick else 20):
            out.append(gen_case(self.rng, cli=True, big=True))
        for _ in range(150 if quick else 1500):
            out.append(gen_case(self.rng, cli=False))
        out += small_block(full=not quick)
        return out

    def _parity(self, case):
        import zlib
        return zlib.crc32(json.dumps(case, sort_keys=True).encode()) % 2

    # ---- materialise
    def _build(self, case):
        self._n += 1
        base = common.scratch() / "c06"
        if base.exists():
            shutil.rmtree(base, ignore_errors=True)
        root = base / "cb"
        root.mkdir(parents=True)
        (base / "covcwd").mkdir()
        for p, kind, payload in case["files"]:
            if kind == "src":
                q = root / p
                q.parent.mkdir(parents=True, exist_ok=True)
                q.write_text(payload)
        for p, kind, payload in case["files"]:
            if kind == "link":
                q = root / p
                q.parent.mkdir(parents=True, exist_ok=True)
                if not q.exists() and not q.is_symlink():
                    os.symlink(os.path.relpath(root / payload, q.parent), q)
        merged = []
        toml = ["[codebase]", "exclude = [" + ", ".join(json.dumps(x) for x in case["exclude"]) + "]", "", "[platform]"]
        for name, entries in case["platforms"]:
            db = []
            for f, defs, incs, *rest in entries:
                forced = [x for n in (rest[0] if rest else []) for x in ("-include", n)]
                args = ["gcc"] + [f"-D{d}" for d in defs] + [f"-I{root / i}" for i in incs] + forced + ["-c", str(root / f)]
                db.append({"file": str(root / f), "directory": str(root), "arguments": args})
            (root / f"db_{name}.json").write_text(json.dumps(db))
            if not case.get("select") or name in case["select"]:
                merged += db
            toml += [f"[platform.{name}]", f'commands = "db_{name}.json"']
        (root / "analysis.toml").write_text("\n".join(toml) + "\n")
        (root / "all.json").write_text(json.dumps(merged))
        return base, root

    # ---- I
    def impl(self, case):
        _setup()
        import codebasin
        from codebasin import config, finder, report
        from codebasin.preprocessor import CodeNode
        from codebasin.coverage import __main__ as covmain
        base, root = self._build(case)
        env = dict(os.environ, PYTHONPATH=str(common.REPO), PYTHONHASHSEED="0", PYTHONDONTWRITEBYTECODE="1")
        k = case["levels"]
        py = [sys.executable, "-W", "ignore"]
        jobs = {}
        pool = None
        if case.get("cli"):
            self.hist["cli_cases"] += 1
            pool = ThreadPoolExecutor(4)

            def run(cmd, cwd):
                return subprocess.run(cmd, cwd=cwd, env=env, capture_output=True, text=True, timeout=300)
            psel = [x for n in case.get("select") or [] for x in ("-p", n)]
            jobs["summary"] = pool.submit(run, py + ["-m", "codebasin", "-R", "summary"] + psel + ["analysis.toml"], root)
            vs = [0, 3] if self._parity(case) else [2, 1]     # a function of the case, so a replay runs the same variants
            for v in vs:
                prune, lev = VARIANTS[v]
                cmd = py + ["-m", "codebasin.tree"] + (["--prune"] if prune else []) + (["-L", str(k)] if lev else []) + psel + ["analysis.toml"]
                jobs[f"tree{v}"] = pool.submit(run, cmd, root)
            cmd = py + ["-m", "codebasin.coverage", "compute", "-S", str(root), "-o", str(base / "cov_cli.json")]
            for x in case["exclude"]:
                cmd += ["-x", x]
            jobs["cov"] = pool.submit(run, cmd + [str(root / "all.json")], base / "covcwd")
            self.hist["subprocesses"] += len(jobs)
        ans = self._inproc(case, base, root, codebasin, config, finder, report, CodeNode, covmain)
        if pool is not None:
            res = {n: j.result() for n, j in jobs.items()}
            pool.shutdown()
            if ans["status"] != "Ok":
                ans["cli_rc"] = {n: r.returncode for n, r in res.items()}
            else:
                r = res["summary"]
                ans["summary_cli"] = parse_summary(r.stdout) if r.returncode == 0 else ["Exit", r.returncode, r.stderr[-200:]]
                ans["tree_cli"] = {}
                for n, r in res.items():
                    if n.startswith("tree"):
                        ans["tree_cli"][n[4:]] = parse_tree(r.stdout, root) if r.returncode == 0 else ["Exit", r.returncode, r.stderr[-200:]]
                r = res["cov"]
                if r.returncode == 0:
                    cov = json.loads((base / "cov_cli.json").read_text())
                    ans["cov_cli"] = [[e["file"].split("/"), e["id"], e["used_lines"], e["unused_lines"]] for e in cov]
                else:
                    ans["cov_cli"] = ["Exit", r.returncode, r.stderr[-200:]]
        elif ans["status"] == "Ok" and (not case.get("small") or self._parity(case) or self.tier != "quick"):
            # (quick tier: every random case and half of the exhaustive small block; CBI re-validates its
            #  JSON schemas on every load, which makes one front-end call cost 50-70 ms)
            self._fronts_inproc(case, base, root, ans)
        self._ia[self.key(case)] = ans
        return ans

    def _fronts_inproc(self, case, base, root, ans):
        """the same three front ends through their entry functions (argument parsing, analysis
        file, platform selection, excludes, report selection), without a new interpreter"""
        import codebasin.__main__ as cbmain
        import codebasin.tree as cbtree
        from codebasin.coverage import __main__ as covmain
        k = case["levels"]
        self.hist["front_inproc_cases"] = self.hist.get("front_inproc_cases", 0) + 1
        psel = [x for n in case.get("select") or [] for x in ("-p", n)]
        rc, out = _Capture(root, "codebasin", base / "out_summary.txt").run(cbmain._main, ["-R", "summary"] + psel + ["analysis.toml"])
        ans["summary_cli"] = parse_summary(out) if rc == 0 else ["Exit", rc, ""]
        ans["tree_cli"] = {}
        # random cases: all four (prune, -L) variants; the exhaustive small block: two, alternating
        vs = [0, 1, 2, 3] if not case.get("small") else ([0, 3] if len(case["files"]) % 2 else [2, 1])
        for v in vs:
            prune, lev = VARIANTS[v]
            argv = (["--prune"] if prune else []) + (["-L", str(k)] if lev else []) + psel + ["analysis.toml"]
            rc, out = _Capture(root, "codebasin.tree", base / "out_tree.txt").run(lambda: cbtree.cli(argv), argv)
            ans["tree_cli"][str(v)] = parse_tree(out, root) if rc == 0 else ["Exit", rc, ""]
        argv = ["compute", "-S", str(root), "-o", str(base / "cov_cli.json")]
        for x in case["exclude"]:
            argv += ["-x", x]
        argv.append(str(root / "all.json"))
        rc, out = _Capture(base / "covcwd", "codebasin.coverage", base / "out_cov.txt").run(lambda: covmain.cli(argv), argv)
        if rc == 0:
            cov = json.loads((base / "cov_cli.json").read_text())
            ans["cov_cli"] = [[e["file"].split("/"), e["id"], e["used_lines"], e["unused_lines"]] for e in cov]
        else:
            ans["cov_cli"] = ["Exit", rc, ""]

    def _inproc(self, case, base, root, codebasin, config, finder, report, CodeNode, covmain):
        k = case["levels"]
        try:
            cb = codebasin.CodeBase(str(root), exclude_patterns=list(case["exclude"]))
            configuration = {}
            for name, _ in case["platforms"]:
                if case.get("select") and name not in case["select"]:
                    continue
                configuration[name] = config.load_database(str(root / f"db_{name}.json"), str(root))
            state = finder.find(str(root), cb, configuration)
            files = list(cb)
            attr = []
            wf = True
            links_ok = True
            for fn in files:
                p = Path(fn)
                link = p.is_symlink()
                tin = bool(link and (p.resolve() in cb))
                if link and not tin:
                    links_ok = False
                nodes = []
                seen = set()
                tree = state.get_tree(fn)
                amap = state.get_map(fn)
                for n in tree.walk():
                    if isinstance(n, CodeNode):
                        ls = [int(x) for x in n.lines]
                        if n.num_lines != len(ls) or seen & set(ls) or len(set(ls)) != len(ls):
                            wf = False
                        seen |= set(ls)
                        nodes.append([ls, int(n.num_lines), sorted(amap[n])])
                with open(fn, "rb") as fh:
                    digest = hashlib.sha512(fh.read()).hexdigest()
                attr.append([list(p.relative_to(root).parts), link, tin, digest, nodes])
            setmap = state.get_setmap(cb)
            sm = [[sorted(key), int(v)] for key, v in setmap.items()]
            try:
                s = io.StringIO()
                report.summary(setmap, stream=s)
                summary_ip = parse_summary(s.getvalue())
            except Exception as e:  # noqa
                summary_ip = ["Err", type(e).__name__]
            # FileTree.insert observed directly (tests/files use the same API)
            ft = report.FileTree(str(root))
            for fn, a in zip(files, attr):
                d = {}
                for ls, num, key in a[4]:
                    d[frozenset(key)] = d.get(frozenset(key), 0) + num
                ft.insert(fn, d)
            dump = []

            def walk(node, depth):
                dump.append([depth, "" if depth == 0 else node.name, bool(node.is_dir()), bool(node.is_symlink()),
                             [[sorted(kk), int(v)] for kk, v in node.setmap.items()]])
                for c in node.children.values():
                    walk(c, depth + 1)
            walk(ft.root, 0)
            files_ip = []
            for prune, lev in VARIANTS:
                s = io.StringIO()
                report.files(cb, state, stream=s, prune=prune, levels=(k if lev else None))
                files_ip.append(parse_tree(s.getvalue(), root))
            # coverage export on the union of all compilation databases
            ns = argparse.Namespace(ifile=str(root / "all.json"), ofile=str(base / "cov_ip.json"),
                                    source_dir=str(root), excludes=list(case["exclude"]))
            try:
                covmain._compute(ns)
            except SystemExit as e:
                if e.code not in (0, None):
                    raise RuntimeError("cbi-cov exit")
            cov = json.loads((base / "cov_ip.json").read_text())
            cov_ip = [[e["file"].split("/"), e["id"], e["used_lines"], e["unused_lines"]] for e in cov]
        except Exception as e:  # noqa
            self.hist["err_cases"] += 1
            return {"status": "Err", "type": type(e).__name__}
        U = sorted({p for a in attr for n in a[4] for p in n[2]} | {name for name, _ in case["platforms"]})
        nf = len(attr)
        self.hist["files"][nf] = self.hist["files"].get(nf, 0) + 1
        npl = len(case["platforms"])
        self.hist["platforms"][npl] = self.hist["platforms"].get(npl, 0) + 1
        dp = max([len(a[0]) for a in attr] or [0])
        self.hist["depth"][dp] = self.hist["depth"].get(dp, 0) + 1
        self.hist["links"] += sum(1 for a in attr if a[1])
        holes = sum(1 for a in attr for n in a[4] if n[0] and n[0][-1] - n[0][0] + 1 > len(n[0]))
        if holes:
            self.hist["cases_with_node_extent_holes"] = self.hist.get("cases_with_node_extent_holes", 0) + 1
            self.hist["nodes_with_extent_holes"] = self.hist.get("nodes_with_extent_holes", 0) + holes
        if case.get("select"):
            self.hist["select_cases"] = self.hist.get("select_cases", 0) + 1
        seen_tu = {}
        for name, entries in case["platforms"]:
            if case.get("select") and name not in case["select"]:
                continue
            for e in entries:
                seen_tu.setdefault((e[0], tuple(e[1])), set()).add((tuple(e[2]), tuple(e[3]) if len(e) > 3 else ()))
        if any(len(v) > 1 for v in seen_tu.values()):
            self.hist["same_tu_same_defs_other_includes"] = self.hist.get("same_tu_same_defs_other_includes", 0) + 1
        self.hist["big_files"] += sum(1 for a in attr if sum(n[1] for n in a[4]) >= 1000)
        return {"status": "Ok", "hyp": {"wf": wf, "links_ok": links_ok}, "attr": attr, "U": U, "setmap": sm,
                "summary_ip": summary_ip, "dump": dump, "files_ip": files_ip, "cov_ip": cov_ip,
                "summary_cli": None, "tree_cli": None, "cov_cli": None}

    # ---- encoding of the analysis result for the driver
    def _get_ia(self, case):
        key = self.key(case)
        if key not in self._ia:
            self.impl(case)
        return self._ia[key]

    def encode(self, case):
        ia = self._get_ia(case)
        if ia["status"] != "Ok":
            return enc([[], [], []])
        files = [[a[0], a[1], a[2], a[3], [[n[0], n[1], n[2]] for n in a[4]]] for a in ia["attr"]]
        return enc([files, ia["U"], [case["levels"]]])

    # ---- views
    @staticmethod
    def _m_report(rep):
        legend, rows = rep
        out = []
        for depth, name, isdir, islink, mask, total, used, per in rows:
            letters = "".join(LABELS[i] if b else "-" for i, b in enumerate(mask))
            out.append([depth, name if isinstance(name, str) else str(name), bool(isdir), bool(islink)] + cells_from(letters, total, used, per))
        return {"legend": [str(x) for x in legend], "rows": out}

    @staticmethod
    def _strip_target(rep):
        if not isinstance(rep, dict):
            return rep
        return {"legend": rep["legend"], "rows": [r[:8] for r in rep["rows"]]}

    def impl_view_for_model(self, case, ia):
        if ia["status"] != "Ok":
            return None
        v = {k: ia[k] for k in ("hyp", "setmap", "summary_ip", "dump", "cov_ip", "summary_cli", "cov_cli")}
        v["files_ip"] = [self._strip_target(r) for r in ia["files_ip"]]
        v["tree_cli"] = None if ia["tree_cli"] is None else {k: self._strip_target(r) for k, r in ia["tree_cli"].items()}
        v["links"] = self._link_targets_ok(ia)
        return v

    @staticmethod
    def _link_targets_ok(ia):
        """every printed `name -> target` names a file of the code base with the same content id"""
        reps = list(ia["files_ip"]) + (list(ia["tree_cli"].values()) if ia["tree_cli"] else [])
        for rep in reps:
            if not isinstance(rep, dict):
                continue
            for r in rep["rows"]:
                if r[3] and (len(r) < 9 or not os.path.isabs(r[8])):
                    return False
        return True

    def model_view(self, case, ans):
        ia = self._get_ia(case)
        if ia["status"] != "Ok":
            return None
        m = ans[0]
        sm = [[list(k), v] for k, v in m[0]]
        if m[1][0] == "Ok":
            summ = {"rows": [[list(k), c, (["Q", 100 * c, t] if t != 0 else "nan")] for k, c, t in m[1][1]], "total": m[1][2]}
        else:
            summ = ["Err", str(m[1][1])]
        cov = [[[str(x) for x in p], str(i), list(u), list(un)] for p, i, u, un in m[2]]
        dump = [[d, "" if d == 0 else str(n), bool(isd), bool(isl), [[list(k), v] for k, v in s]] for d, n, isd, isl, s in m[3]]
        reps = [self._m_report(m[4 + i]) for i in range(4)]
        v = {"hyp": {"wf": True, "links_ok": True}, "setmap": sm, "summary_ip": summ, "dump": dump, "cov_ip": cov,
             "summary_cli": None if ia["summary_cli"] is None else summ,
             "cov_cli": None if ia["cov_cli"] is None else cov,
             "files_ip": reps,
             "tree_cli": None if ia["tree_cli"] is None else {k: reps[int(k)] for k in ia["tree_cli"]},
             "links": True}
        return snap(v, self.impl_view_for_model(case, ia))

    # the specification's view: order-insensitive, figures by path
    @staticmethod
    def _paths_view(rep):
        if not isinstance(rep, dict):
            return rep
        rp = rows_with_paths(rep["rows"])
        if rp is None:
            return ["BadNesting"]
        return {"legend": rep["legend"], "rows": sorted([r[:7] for r in rp], key=lambda r: (r[0], r[1], r[2]))}

    def impl_view_for_spec(self, case, ia):
        if ia["status"] != "Ok":
            return None
        U = ia["U"]

        def summ(s):
            if not isinstance(s, dict):
                return s
            return {"rows": sorted(s["rows"]), "total": s["total"]}

        def cov(c):
            if c is None or (c and c[0] == "Exit"):
                return c
            return sorted([p, i, sorted(u), sorted(un)] for p, i, u, un in c)
        figs = []
        rp = rows_with_paths([d[:4] + [d[4]] for d in ia["dump"]])
        for path, isdir, islink, smap in (rp or []):
            tot = sum(v for _, v in smap)
            used = sum(v for kk, v in smap if kk)
            per = [[any(p in kk for kk, _ in smap), sum(v for kk, v in smap if p in kk)] for p in U]
            figs.append([path, isdir, islink, tot, used, per])
        v = {"hyp": ia["hyp"], "setmap": sorted(ia["setmap"]), "sloc": sum(x[1] for x in ia["setmap"]),
             "summary_ip": summ(ia["summary_ip"]), "summary_cli": summ(ia["summary_cli"]),
             "cov_ip": cov(ia["cov_ip"]), "cov_cli": cov(ia["cov_cli"]),
             "dump_figs": sorted(figs, key=lambda r: (r[0], r[1], r[2])),
             "files_ip": [self._paths_view(self._strip_target(r)) for r in ia["files_ip"]],
             "tree_cli": None if ia["tree_cli"] is None else {k: self._paths_view(self._strip_target(r)) for k, r in ia["tree_cli"].items()}}
        return v

    def spec(self, case, ans):
        if ans is None or isinstance(ans, str):
            return None
        ia = self._get_ia(case)
        if ia["status"] != "Ok":
            return None
        U = ia["U"]
        s = ans[1]
        if ia["hyp"]["wf"]:
            self._oracle(case, ia, s)
        buckets = sorted([[list(k), v] for k, v in s[0]])
        sloc = s[1]
        # a zero total prints NaN percentages (report.summary no longer raises)
        summ = {"rows": sorted([[k, c, (["Q", 100 * c, sloc] if sloc != 0 else "nan")] for k, c in buckets]), "total": sloc}
        cov = sorted([[str(x) for x in p], str(i), sorted(u), sorted(un)] for p, i, u, un in s[2])

        def tree(t, levels):
            dirs, files = t
            entries = [[[str(x) for x in p], True, False, tot, used, per] for p, tot, used, per in dirs]
            entries += [[[str(x) for x in p], False, bool(l), tot, used, per] for p, l, tot, used, per in files]
            root = [e for e in entries if e[0] == [] and e[1]][0]
            rp_idx = [i for i, (has, _) in enumerate(root[5]) if has]
            rows = []
            for p, isdir, islink, tot, used, per in entries:
                if levels is not None and len(p) > levels:
                    continue
                letters = "".join(LABELS[j] if per[i][0] else "-" for j, i in enumerate(rp_idx))
                own = rp_idx if rp_idx else [i for i, (has, _) in enumerate(per) if has]
                rows.append([p, isdir, islink] + cells_from(letters, tot, used, [per[i][1] for i in own]))
            return {"legend": [U[i] for i in rp_idx], "rows": sorted(rows, key=lambda r: (r[0], r[1], r[2]))}, entries
        k = case["levels"]
        reps = []
        for prune, lev in VARIANTS:
            reps.append(tree(s[4] if prune else s[3], k if lev else None)[0])
        figs = sorted([[p, d, l, tot, used, [[bool(h), u] for h, u in per]] for p, d, l, tot, used, per in tree(s[3], None)[1]],
                      key=lambda r: (r[0], r[1], r[2]))
        v = {"hyp": {"wf": True, "links_ok": True}, "setmap": buckets, "sloc": sloc,
             "summary_ip": summ, "summary_cli": None if ia["summary_cli"] is None else summ,
             "cov_ip": cov, "cov_cli": None if ia["cov_cli"] is None else cov,
             "dump_figs": figs, "files_ip": reps,
             "tree_cli": None if ia["tree_cli"] is None else {kk: reps[int(kk)] for kk in ia["tree_cli"]}}
        return snap(v, self.impl_view_for_spec(case, ia))

    def in_domain(self, case, sa):
        return sa is not None

    def nontrivial(self, case, ia):
        if ia["status"] != "Ok":
            return False
        below = {}
        for a in ia["attr"]:
            for i in range(len(a[0])):
                below[tuple(a[0][:i])] = below.get(tuple(a[0][:i]), 0) + 1
        unused = any(not n[2] for a in ia["attr"] for n in a[4])
        return len(ia["setmap"]) >= 2 and unused and any(len(p) >= 1 and c >= 2 for p, c in below.items())

    # ---- shrinking
    @staticmethod
    def _fix(case):
        names = {f[0] for f in case["files"]}
        files = [f for f in case["files"] if f[1] != "link" or f[2] in names or f[2].startswith("missing")
                 or any(n.startswith(f[2] + "/") for n in names)]
        names = {f[0] for f in files}
        plats = [[n, [e for e in es if e[0] in names]] for n, es in case["platforms"]]
        out = {"files": files, "platforms": plats, "exclude": case["exclude"], "levels": case["levels"], "cli": case["cli"]}
        sel = [n for n in case.get("select") or [] if n in {p[0] for p in plats}]
        if sel:
            out["select"] = sel
        return out

    def shrink(self, case, still_fails):
        cur = case

        def with_(**kw):
            c = dict(cur)
            c.update(kw)
            return self._fix(c)
        budget = [25 if case.get("cli") else 120]

        def fails(c):
            if budget[0] <= 0:
                return False
            budget[0] -= 1
            return still_fails(c)
        cur = with_(files=common.shrink_list(cur["files"], lambda fs: fails(with_(files=fs)), max_steps=40))
        cur = with_(platforms=common.shrink_list(cur["platforms"], lambda ps: fails(with_(platforms=ps)), max_steps=20))
        for i, f in enumerate(list(cur["files"])):
            if f[1] != "src" or budget[0] <= 0:
                continue
            lines = f[2].split("\n")

            def put(ls, i=i, f=f):
                fs = [list(x) for x in cur["files"]]
                fs[i] = [f[0], f[1], "\n".join(ls)]
                return with_(files=fs)
            ls = common.shrink_list(lines, lambda ls: fails(put(ls)), max_steps=30)
            cur = put(ls)
        return cur

    # ---- S versus an independent recount.  No external tool computes these sums; the
    #      oracle is a from-scratch count of distinct (file, line) pairs per platform set and
    #      per directory prefix, which never looks at num_lines, dicts or the trie.
    def _oracle(self, case, ia, s):
        owner = {}
        for fi, a in enumerate(ia["attr"]):
            for ls, num, plats in a[4]:
                for l in ls:
                    owner[(fi, l)] = tuple(plats)
        counts = {}
        dirs = {}
        for (fi, l), kk in owner.items():
            a = ia["attr"][fi]
            if not (a[1] and a[2]):
                counts[kk] = counts.get(kk, 0) + 1
            if not a[1]:
                for i in range(len(a[0])):
                    d = dirs.setdefault(tuple(a[0][:i]), [0, 0])
                    d[0] += 1
                    d[1] += 1 if kk else 0
        mine = sorted([list(k), v] for k, v in counts.items())
        theirs = sorted([[str(x) for x in k], v] for k, v in s[0] if v != 0)
        sdirs = sorted([[str(x) for x in p], tot, used] for p, tot, used, per in s[3][0] if tot != 0 or used != 0)
        odirs = sorted([list(p), t, u] for p, (t, u) in dirs.items() if t != 0)
        self.hist["oracle_cases"] += 1
        if mine != theirs or sdirs != odirs:
            self.hist["oracle_bad"].append({"case": case, "spec_buckets": theirs, "recount": mine, "spec_dirs": sdirs, "recount_dirs": odirs})

    def self_tests(self):
        if self.hist["oracle_bad"]:
            return [f"S disagrees with the independent recount on {len(self.hist['oracle_bad'])} of {self.hist['oracle_cases']} "
                    f"code bases: {json.dumps(self.hist['oracle_bad'][0])[:600]}"]
        return []

    def extra_coverage(self):
        h = dict(self.hist)
        h["oracle_bad"] = h["oracle_bad"][:3]
        return {"distribution": h,
                "spec_oracle_cases": self.hist["oracle_cases"], "spec_oracle_disagreements": len(self.hist["oracle_bad"])}


CHECK = C06
