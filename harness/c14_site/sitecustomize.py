"""Harness-side schedule perturbation for C14 (put on PYTHONPATH of the analysed
interpreter; not part of the repo).  When C14_SHUFFLE is set, os.scandir and
os.listdir return their entries in an order drawn from that seed, i.e. the file
system enumerates directory entries in a different order."""
import os
import random

_seed = os.environ.get("C14_SHUFFLE")
if _seed not in (None, ""):
    _rng = random.Random(int(_seed))
    _scandir = os.scandir
    _listdir = os.listdir

    class _Shuffled:
        def __init__(self, it):
            with it:
                ents = list(it)
            ents.sort(key=lambda e: e.name)
            _rng.shuffle(ents)
            self._it = iter(ents)

        def __iter__(self):
            return self

        def __next__(self):
            return next(self._it)

        def __enter__(self):
            return self

        def __exit__(self, *a):
            return False

        def close(self):
            pass

    def scandir(path="."):
        return _Shuffled(_scandir(path))

    def listdir(path="."):
        ents = sorted(_listdir(path))
        _rng.shuffle(ents)
        return ents

    os.scandir = scandir
    os.listdir = listdir
