"""Catalogue of real gcc/clang/icx/nvcc/gfortran options that CBI does not model.

Single source: the harness draws its "unknown option" items from CATALOGUE and
tools/gen/c11_tables.py copies the same list into coq/theories/Gen/C11_tables.v
(`c11_catalogue`), where Props/C11.v proves facts about every entry.
An entry is the list of argv tokens the option occupies (flag [+ separate argument]).
Not listed on purpose: clang's -include-pch / -isystem-after (the property's own
scanner reads them as -include / -isystem with an attached value)."""

CATALOGUE = [
    # debug / optimisation (share a prefix with the registered -g, -O, -o, -c)
    ["-g"], ["-g3"], ["-g0"], ["-ggdb"], ["-ggdb3"], ["-gdwarf-4"], ["-gsplit-dwarf"], ["-gline-tables-only"],
    ["-O"], ["-O0"], ["-O2"], ["-O3"], ["-Ofast"], ["-Os"], ["-Og"],
    ["-c"], ["-o", "out.o"], ["-oout.o"], ["-o", "build/a b.o"],
    ["-cpp"], ["-ccbin", "g++"], ["-ccbin=g++"], ["-cxx-isystem", "/opt/inc"], ["-coverage"], ["-cl-fast-relaxed-math"],
    ["-cudart", "static"], ["-gencode", "arch=compute_70,code=sm_70"], ["-gencode=arch=compute_80,code=sm_80"],
    # warnings
    ["-Wall"], ["-Wextra"], ["-Werror"], ["-Wno-unused-parameter"], ["-Werror=format-security"], ["-pedantic"], ["-w"],
    ["-Wl,-rpath,/opt/lib"], ["-Wl,--as-needed"], ["-Wl,-rpath=/x"], ["-Wp,-MD,dep.d"], ["-Wa,-mbig-obj"],
    # language / standard
    ["-std=c++17"], ["-std=gnu99"], ["--std=c++20"], ["-std", "c++14"], ["-x", "c++"], ["-x", "cuda"], ["-xc"], ["-ansi"],
    ["-ffreestanding"], ["-fno-exceptions"], ["-fno-rtti"], ["-fpermissive"], ["-fms-extensions"],
    # code generation
    ["-fPIC"], ["-fPIE"], ["-fpic"], ["-pie"], ["-shared"], ["-static"], ["-pthread"], ["-m64"], ["-m32"],
    ["-march=native"], ["-march=skylake-avx512"], ["-mtune=generic"], ["-mavx2"], ["-mfma"], ["-msse4.2"], ["-mcpu=power9"],
    ["-fopenmp"], ["-fopenmp=libomp"], ["-fopenmp-simd"], ["-fiopenmp"], ["-qopenmp"], ["-fopenmp-targets=spir64"],
    ["-fsycl"], ["-fsycl-targets=spir64_gen"], ["-fsycl-unnamed-lambda"], ["-qopt-report=5"], ["-xHost"], ["-ipo"],
    ["-funroll-loops"], ["-ffast-math"], ["-fno-strict-aliasing"], ["-fvisibility=hidden"], ["-fstack-protector-strong"],
    ["-flto"], ["-flto=thin"], ["-fuse-ld=lld"], ["-fdiagnostics-color=always"], ["-fcolor-diagnostics"],
    ["-ftemplate-depth=1024"], ["-fmax-errors=5"], ["-fdebug-prefix-map=/a=/b"], ["-fmacro-prefix-map=/a=."],
    # dependency generation
    ["-MD"], ["-MMD"], ["-MP"], ["-M"], ["-MM"], ["-MF", "x.d"], ["-MF", "CMakeFiles/t.dir/a.c.o.d"], ["-MT", "a.o"], ["-MQ", "a.o"],
    # other search paths and preprocessor options CBI does not model
    ["-iquote", "inc"], ["-idirafter", "/usr/inc"], ["-imacros", "m.h"], ["-isysroot", "/sdk"], ["-iprefix", "p/"],
    ["-iwithprefix", "d"], ["-nostdinc"], ["-nostdinc++"], ["-nostdlib"], ["--sysroot=/sdk"], ["--sysroot", "/sdk"],
    ["-U", "NDEBUG"], ["-UNDEBUG"], ["-undef"], ["-E"], ["-S"], ["-P"], ["-C"], ["-H"], ["-v"], ["-pipe"], ["-save-temps"],
    ["-L/usr/lib"], ["-L", "/usr/lib"], ["-lm"], ["-l", "m"], ["-lstdc++"], ["-rdynamic"], ["-s"],
    # drivers passing options through
    ["-Xlinker", "--no-undefined"], ["-Xpreprocessor", "-fopenmp"], ["-Xclang", "-fno-validate-pch"],
    ["-Xcompiler", "-fPIC"], ["-Xcompiler=-fPIC"], ["-Xptxas", "-v"], ["-mllvm", "-inline-threshold=100"],
    ["-Xcuda-ptxas", "-O3"], ["--compiler-options", "-Wall"],
    # nvcc / clang long options
    ["-arch", "sm_70"], ["-arch=sm_80"], ["--gpu-architecture=sm_70"], ["--expt-relaxed-constexpr"], ["-rdc=true"],
    ["--cuda-gpu-arch=sm_70"], ["--cuda-path=/usr/local/cuda"], ["-target", "x86_64-linux-gnu"], ["--target=aarch64-linux-gnu"],
    ["--gcc-toolchain=/opt/gcc"], ["--offload-arch=gfx90a"], ["--driver-mode=g++"], ["--no-warnings"], ["--version"],
    # Fortran
    ["-ffree-form"], ["-ffixed-line-length-132"], ["-fdefault-real-8"], ["-J", "mod"], ["-Jmod"], ["-fpp"], ["-free"],
    ["-module", "mod"], ["-r8"],
    # response files, input files, lone dash, negative numbers
    ["@build/flags.rsp"], ["@rsp"], ["a.c"], ["src/b.cpp"], ["../k.cu"], ["-"], ["-1"],
]
