"""Generators for C17: grammar-based free-form Fortran programs with cpp directives."""
from __future__ import annotations

import re

FLAGS = ["F0", "F1"]
VALS = ["V0", "V1"]
T = "\x00"          # placeholder of the per-line token, filled in by render()

LIT_CHARS = ["a", "b", " ", "!", "&", "//", "#", "$", "x y", "!$omp", "& !", ";", "(", ","]


def gen_lit(rng, allow_token=True):
    q = rng.choice("'\"")
    other = '"' if q == "'" else "'"
    n = rng.randint(0, 4)
    body = ""
    for _ in range(n):
        r = rng.random()
        if r < 0.15:
            body += q + q                      # doubled quote
        elif r < 0.25:
            body += other                      # the other quote is plain text
        elif r < 0.262:
            body += rng.choice(["\\", "\\n"])   # a backslash inside a literal (known finding backslash-in-literal)
        else:
            body += rng.choice(LIT_CHARS)
    return q, body


def gen_comment(rng):
    r = rng.random()
    if r < 0.5:
        return "! " + rng.choice(["note", "x = 1", "a & b", "call f(x) &", "$omp later", "#if 0", "it is", "1 $ 2", "a!b"])
    if r < 0.7:
        return "!" + rng.choice(["", "!", "!!$omp", " $omp x", "1$", "a b$", "-$"])
    if r < 0.85:
        return "! don" + rng.choice(["'", '"']) + "t"
    return "!" + rng.choice(["abc", "x", "dir", "omp"])      # letters but no $


def gen_sentinel(rng):
    return rng.choice(["!$omp parallel do " + T, "!$OMP end parallel " + T, "!dir$ ivdep " + T, "!$ x = " + T,
                       "!$acc loop " + T, "!DEC$ " + T, "!$" + " " + T])


def indent(rng):
    return rng.choice(["", "", "  ", "    ", " ", "\t"])


def gen_stmt(rng):
    """A statement as a list of physical lines (with interleaved comment/blank lines)."""
    lines = []
    nseg = rng.choice([1, 1, 1, 2, 2, 3, 4])
    in_lit = None            # quote char if the previous segment ended inside a literal
    for s in range(nseg):
        last = (s == nseg - 1)
        txt = ""
        lead = ""
        if s > 0:
            if in_lit or rng.random() < 0.55:
                lead = "&" + ("" if in_lit else rng.choice(["", " "]))
        tokplaced = False
        if in_lit:
            # continue the literal
            txt += rng.choice(["", " ", "b"]) + T + rng.choice(["", " c", "!", "&x"])
            tokplaced = True
            if last or rng.random() < 0.7:
                txt += in_lit
                in_lit = None
                txt += rng.choice(["", ", n", " // z"])
        nparts = rng.randint(0, 3)
        if in_lit is None:
            if not tokplaced:
                txt += rng.choice(["x = ", "call f(", "print *, ", "y(i) = ", "", "if (k) "]) + T
                tokplaced = True
            for _ in range(nparts):
                r = rng.random()
                if r < 0.45:
                    q, body = gen_lit(rng)
                    txt += rng.choice([" ", ", ", " // "]) + q + body + q
                elif r < 0.6:
                    txt += rng.choice([" + 1", " * z", ", w", " // u", " .and. v", ")"])
                else:
                    txt += rng.choice([" ", "  ", "\t"])
            if not last and rng.random() < 0.25:
                # open a literal that is continued on the next line
                q, body = gen_lit(rng)
                body = body.rstrip("&")
                txt += " " + q + body
                in_lit = q
        line = indent(rng) + lead + txt
        if not last:
            line += rng.choice(["&", " &", "  &"])
            if in_lit is None:
                r = rng.random()
                if r < 0.25:
                    line += " " + gen_comment(rng)
                elif r < 0.35:
                    line += rng.choice([" ", "  "])
            # no commentary after the & of a continued character context
        else:
            r = rng.random()
            if r < 0.25:
                line += " " + gen_comment(rng)
            elif r < 0.3:
                line += "   "
        lines.append(line)
        if not last:
            # lines that may sit between a continued line and its continuation
            while rng.random() < 0.3:
                r = rng.random()
                if r < 0.45:
                    lines.append(indent(rng) + gen_comment(rng))
                elif r < 0.7:
                    lines.append(rng.choice(["", " ", "   "]))
                elif r < 0.85 and in_lit is None:
                    lines.append(indent(rng) + gen_sentinel(rng))
                elif in_lit is None:
                    m = rng.choice(FLAGS)
                    lines.append(f"#ifdef {m}")
                    lines.append(indent(rng) + "& " + T + ", &")
                    lines.append("#endif")
                    break
    return lines


def dir_tail(rng, block_only=True):
    """Optional C comment at the end of a directive line (closed on the line).
    block_only: no // comments (gfortran's traditional-mode cpp does not know them: // is concatenation)."""
    r = rng.random()
    if r < 0.75:
        return ""
    if r < 0.9 or block_only:
        return rng.choice([" /* F0 */", " /* a * b / c */", "  /**/", " /* dont */ ", " /* x // y */"])
    return rng.choice([" // note", " // a /* b", " //"])


def gen_multiline_directive(rng, col1=True):
    """A directive spread over several physical lines: spliced #define, or a block comment carried over lines."""
    r = rng.random()
    m = rng.choice(VALS)
    if r < 0.4:
        body = rng.choice(["1", "2", "0"])
        return [f"#undef {m}", f"#define {m} \\", rng.choice(["", "   "]) + body]
    if r < 0.6:
        return [f"#undef {m}", f"#define {m} \\", "  \\", " 1"]
    if r < 0.85:
        return [f"#undef {m} /* a comment", rng.choice(["   that goes on", "", " * with a star", "// and slashes"]),
                rng.choice(["*/", "  */", " end */  "]), f"#define {m} 1"]
    return ["#if 1 /* why", "  not */ && 1", T, "#endif"]


def gen_cond(rng):
    r = rng.random()
    if r < 0.3:
        return "#ifdef " + rng.choice(FLAGS + VALS)
    if r < 0.5:
        return "#ifndef " + rng.choice(FLAGS + VALS)
    if r < 0.65:
        return f"#if defined({rng.choice(FLAGS)})"
    if r < 0.8:
        return f"#if {rng.choice(VALS)} == {rng.choice([0, 1, 2])}"
    if r < 0.9:
        return f"#if !defined({rng.choice(FLAGS)}) && {rng.choice(VALS)} > 0"
    return f"#if {rng.choice([0, 1])}"


def gen_elif(rng):
    r = rng.random()
    if r < 0.5:
        return f"#elif defined({rng.choice(FLAGS)})"
    return f"#elif {rng.choice(VALS)} == {rng.choice([0, 1, 2])}"


def gen_block(rng, depth, budget, col1=False):
    out = []
    n = rng.randint(0, 3) if depth else rng.randint(2, 7)
    for _ in range(n):
        if len(out) > budget:
            break
        r = rng.random()
        if r < 0.42:
            out += gen_stmt(rng)
        elif r < 0.52:
            out.append(indent(rng) + gen_comment(rng))
        elif r < 0.58:
            out.append(rng.choice(["", " ", "  \t"]))
        elif r < 0.66:
            out.append(indent(rng) + gen_sentinel(rng))
        elif r < 0.74:
            m = rng.choice(VALS)
            sp = "" if col1 else rng.choice(["", "", " "])
            if rng.random() < 0.8:
                out.append(f"{sp}#undef {m}")
            out.append(f"{sp}#define {m} {rng.choice([0, 1, 2])}")
        elif r < 0.79:
            m = rng.choice(FLAGS)
            if rng.random() < 0.8:
                out.append(f"#undef {m}")
            out.append(rng.choice([f"#define {m}", f"# define {m} 1", f"#define {m} 1 ", f"#define {m} '/'", f"#define {m} '/*'",
                                   f"#define {m} '//' /* c */", f"#define {m} 'a/*b' 1", f"#define {m} '*/' + '/*'"]))
        elif r < 0.82:
            out.append("#undef " + rng.choice(FLAGS + VALS))
        elif r < 0.86:
            out += gen_multiline_directive(rng, col1)
        elif depth < 3:
            out.append(gen_cond(rng) + dir_tail(rng, col1))
            out += gen_block(rng, depth + 1, budget // 2, col1)
            for _ in range(rng.choice([0, 0, 0, 1, 2])):
                out.append(gen_elif(rng))
                out += gen_block(rng, depth + 1, budget // 3, col1)
            if rng.random() < 0.6:
                out.append("#else" + dir_tail(rng, col1))
                out += gen_block(rng, depth + 1, budget // 3, col1)
            out.append(rng.choice(["#endif", "#endif", "# endif"] if col1 else ["#endif", "#endif", "  #endif", "# endif"]) + dir_tail(rng, col1))
        else:
            out += gen_stmt(rng)
    return out


def gen_program(rng, small=False, col1=False):
    """col1: every # in column 1 (gfortran's traditional-mode cpp ignores indented directives)."""
    return gen_block(rng, 0, 12 if small else 40, col1)


def render(lines, offset=0):
    out = []
    for i, l in enumerate(lines, start=1):
        out.append(l.replace(T, f"t{offset + i}q"))
    return "\n".join(out) + ("\n" if out else "")


def gen_defsets(rng):
    sets = []
    for _ in range(rng.choice([2, 2, 3])):
        d = []
        for m in FLAGS:
            if rng.random() < 0.45:
                d.append(m)
        for m in VALS:
            if rng.random() < 0.55:
                d.append(f"{m}={rng.choice([0, 1, 2])}")
        sets.append(d)
    return sets


EDIT_CHARS = ["\\", "/", "*", "\t", "'", '"', "&", "!", "#", "$", " ", "\n", "/*", "*/", "//", "\\\n", "a", "&\n", "\n&",
              "\x0b", "\x0c", "\x1c", "\x1f", "\\\\", "\n#", "~", "1", "_"]


def mutate(rng, text):
    for _ in range(rng.choice([1, 1, 2, 3, 5])):
        r = rng.random()
        pos = rng.randint(0, len(text))
        if r < 0.6:
            text = text[:pos] + rng.choice(EDIT_CHARS) + text[pos:]
        elif r < 0.8 and text:
            pos = min(pos, len(text) - 1)
            text = text[:pos] + text[pos + 1:]
        elif r < 0.9:
            ls = text.split("\n")
            i = rng.randrange(len(ls))
            ls.insert(i, ls[i])
            text = "\n".join(ls)
        else:
            text = text.rstrip("\n")
    return text


_TOK = re.compile(r"t\d+q")
_CONT = re.compile(r"&[ \t]*(![^\n]*)?$", re.M)
_SENT = re.compile(r"^[ \t]*&?[ \t]*![A-Za-z]*\$", re.M)
_LITSP = re.compile(r"'[^'\n]*[!&][^'\n]*'|\"[^\"\n]*[!&][^\"\n]*\"")


def tokens_of(line):
    return _TOK.findall(line)


def features(text):
    f = set()
    if _CONT.search(text):
        f.add("continuation")
    if _SENT.search(text):
        f.add("sentinel")
    if _LITSP.search(text):
        f.add("literal_special")
    if "#if" in text:
        f.add("conditional")
    if re.search(r"^[ \t]*#.*/[*/]", text, re.M):
        f.add("directive_comment")
    if re.search(r"^[ \t]*#[^\n]*(\\\n|/\*[^\n]*\n)", text, re.M):
        f.add("multiline_directive")
    if "''" in text or '""' in text:
        f.add("doubled_quote")
    if re.search(r"^[ \t]*&", text, re.M):
        f.add("leading_amp")
    return f


# ---------------------------------------------------------------- compilable programs (S-versus-compiler validation)
def _vlit(rng):
    q = rng.choice("'\"")
    other = '"' if q == "'" else "'"
    body = ""
    for _ in range(rng.randint(0, 3)):
        r = rng.random()
        if r < 0.15:
            body += q + q
        elif r < 0.25:
            body += other
        else:
            body += rng.choice(["a", "b c", "!", "&", "//", "#", "$", "!$omp", "& !", ";", "( ,", "& "])
    return q, body


def gen_valid_stmt(rng):
    """print *, item {, item} spread over 1-4 physical lines; returns the physical lines."""
    nitems = rng.randint(1, 5)
    lines = []
    cur = indent(rng) + rng.choice(["print *, ", "write(*,*) "])
    first_on_line = True
    for i in range(nitems):
        last = (i == nitems - 1)
        r = rng.random()
        if r < 0.4:
            item = T
        else:
            q, body = _vlit(rng)
            item = q + body + q
            if rng.random() < 0.3:
                q2, b2 = _vlit(rng)
                item += rng.choice(["//", " // "]) + q2 + b2 + q2
        split_lit = (not last) is False and False
        cur += item
        if T not in cur:
            cur += rng.choice([", ", " ,"]) + T if last else ""
        if last:
            break
        cur += rng.choice([", ", ",", " , "])
        if rng.random() < 0.45:
            # break the line here
            if T not in cur:
                cur += T + ", "
            cur += rng.choice(["&", " &", "&  "])
            if rng.random() < 0.3:
                cur += " " + gen_comment(rng)
            lines.append(cur)
            while rng.random() < 0.3:
                r2 = rng.random()
                if r2 < 0.4:
                    lines.append(indent(rng) + gen_comment(rng))
                elif r2 < 0.6:
                    lines.append(rng.choice(["", "  "]))
                elif r2 < 0.8:
                    lines.append(indent(rng) + gen_sentinel(rng).replace(T, "x"))
                else:
                    m = rng.choice(FLAGS)
                    lines.append(f"#ifdef {m}" + dir_tail(rng))
                    lines.append(indent(rng) + "& " + T + ", &")
                    lines.append("#endif")
                    break
            cur = indent(rng) + rng.choice(["", "&", "& "])
    if T not in cur:
        cur += ", " + T
    if rng.random() < 0.3:
        cur += " " + gen_comment(rng)
    lines.append(cur)
    return lines


def gen_valid_split_literal(rng):
    """s = 'abc& / &def' with optional comment lines in between."""
    q = rng.choice("'\"")
    a = rng.choice(["ab", "a!b", "x & y", "", "!$omp", "//"])
    b = rng.choice(["cd", "!", " &z", "", q + q])
    lines = [indent(rng) + "s = " + q + a + "&"]
    while rng.random() < 0.3:
        lines.append(indent(rng) + gen_comment(rng))
    lines.append(indent(rng) + "&" + b + T + q + rng.choice(["", " // 'z'", " ! c"]))
    return lines


def gen_valid_block(rng, depth):
    out = []
    for _ in range(rng.randint(1, 4) if depth else rng.randint(2, 6)):
        r = rng.random()
        if r < 0.45:
            out += gen_valid_stmt(rng)
        elif r < 0.55:
            out += gen_valid_split_literal(rng)
        elif r < 0.65:
            out.append(indent(rng) + gen_comment(rng))
        elif r < 0.7:
            out.append("")
        elif r < 0.78:
            out.append(indent(rng) + gen_sentinel(rng).replace(T, "x"))
        elif r < 0.84:
            m = rng.choice(VALS)
            out.append(f"#undef {m}")
            out.append(f"#define {m} {rng.choice([0, 1, 2])}")
        elif r < 0.87:
            out += [l.replace(T, "print *, " + T) for l in gen_multiline_directive(rng)]
        elif depth < 2:
            out.append(gen_cond(rng) + dir_tail(rng))
            out += gen_valid_block(rng, depth + 1)
            if rng.random() < 0.5:
                out.append("#else" + dir_tail(rng))
                out += gen_valid_block(rng, depth + 1)
            out.append("#endif" + dir_tail(rng))
        else:
            out += gen_valid_stmt(rng)
    return out


def gen_valid_program(rng):
    head = ["program p", "implicit integer (t)", "character(len=200) :: s"]
    return head + gen_valid_block(rng, 0) + ["end program p"]


# ---------------------------------------------------------------- include chains from a Fortran file
HDR_EXT = [".inc", ".h", ".hpp", ".inc", ".h", ".F90", ".f90"]


def gen_include_case(rng):
    """main (.f90/.F90) -> h1 -> h2 [-> h3]: headers with C-family (or Fortran) extensions holding free-form Fortran
    text (ordinary ! comments, continuations, sentinels, literals) and a #define that the includer tests afterwards.
    Returns (main_text, [[name, text], ...]) - the headers are meant to live outside the code-base root."""
    depth = rng.choice([2, 2, 3])
    names = [f"h{j}{rng.choice(HDR_EXT[:5] if j < depth else HDR_EXT)}" for j in range(1, depth + 1)]
    texts = [None] * depth
    for j in range(depth, 0, -1):
        m = f"HAVE{j}"
        body = gen_block(rng, 0, 10, True)
        lines = [indent(rng) + "! header " + rng.choice(["comment", "it isn't code", "x = 1 &", "a \"q\" b"]),
                 rng.choice(["", indent(rng) + gen_comment(rng)])]
        if rng.random() < 0.5:
            lines += gen_stmt(rng)
        if j < depth:
            nxt = f"HAVE{j + 1}"
            lines += [f'#include "{names[j]}"', f"#ifdef {nxt}"] + gen_stmt(rng) + ["#else"] + gen_stmt(rng) + ["#endif"]
        lines += [f"#define {m}"] + body + [indent(rng) + gen_comment(rng)]
        texts[j - 1] = render(lines, offset=1000 * j)
    main = gen_block(rng, 0, 12, True)
    pos = rng.choice([0, len(main)])
    inc = [f'#include "{names[0]}"', "#ifdef HAVE1"] + gen_stmt(rng) + ["#else"] + gen_stmt(rng) + ["#endif"]
    main = main[:pos] + inc + main[pos:]
    return render(main), [[n, t] for n, t in zip(names, texts)]
