"""C18 — nothing is dropped silently.

I : config.load_database + finder.find run in process with a handler on the 'codebasin'
    logger that carries a real WarningAggregator, then aggregator.warn(log); for a sample of
    cases also the command line (python -m codebasin): cbi.log and the closing lines on stdout.
M : extracted Model/C18 (messages rendered character for character, counters, closing lines).
S : extracted Spec/C18 (events per occurrence from the reference preprocessor; totals).
"""
from __future__ import annotations

import ast as pyast
import json
import logging
import os
import re
import shutil
import subprocess
import sys
from pathlib import Path

from . import common
from .common import Check, enc
from .c01 import gen_cond as gen_cond_c01
from .c01 import render_cond, balanced, normalise, parse_items, unparse_items, shrink_candidates

BASE = ["B"]                         # stands for the scratch directory in every message
DIRS = [["src"], ["inc1"], ["inc2"], ["src", "sub"]]
HDRS = ["h.h", "g.h", "k.inc"]
GHOSTS = [["nope.h"], ["sys", "gone.h"], ["cfg.h"]]
FLAGS = ["F0", "F1"]
VALS = ["V0", "V1"]
PMACS = ["H0", "H1"]
KNOWN_CC = ["gcc", "g++", "clang", "clang++", "/usr/bin/gcc", "icx", "nvcc"]
UNKNOWN_CC = ["mycc", "cc", "/opt/bin/xlc", "ifort"]
OK_FLAGS = [["-O2"], ["-O0"], ["-O"], ["-g"], ["-g3"], ["-ggdb"], ["-c"], ["-cpp"], ["-o", "a.o"], ["-oa.o"]]
BAD_FLAGS = [["-Wall"], ["-fPIC"], ["-std=c11"], ["-march=native"], ["-pthread"], ["-MMD"], ["--coverage"], ["-W"]]
CC_FLAGS = [["-fopenmp"], ["-fsycl-is-device"], ["-fsycl"]]
UNK_POOL = [
    [],                                                    # the null directive
    [[False, "line"], [True, "7"]],
    [[False, "warning"], [True, "careful"]],
    [[False, "error"], [True, "stop"]],
    [[False, "foo"]],
    [[False, "foo"], [True, "bar"], [True, "baz"]],
    [[False, "ident"], [True, '"v1"']],
    [[False, "include_next"], [True, "<h.h>"]],
    [[False, "import"], [True, '"h.h"']],
    [[False, "assert"], [True, "machine"], [False, "("], [False, "x86"], [False, ")"]],
    [[False, "elifdef"], [True, "F0"]],
    [[False, "define"]],                                   # a known directive that does not parse
    [[False, "undef"], [True, "3"]],
    [[True, "sccs"], [True, '"x"']],
    [[False, "33"], [True, '"a.c"']],
    [[False, "Line"], [True, "7"]],
]


def pstr(p):
    return "/".join(p)


# ---------------------------------------------------------------- rendering
def unk_text(l):
    indent, toks = l[1], l[2]
    return ("  " if indent else "") + "#" + "".join((" " if w else "") + t for w, t in toks)


def render_file(lines, style=0):
    """text, the physical line of every node, the unrecognised directives (line, col, tokens)"""
    out = []
    node_line = []
    unk = []
    for i, l in enumerate(lines):
        k = l[0]
        node_line.append(len(out) + 1)
        if k == "Code":
            for j in range(1 + (i + style) % 2):
                out.append(f"int tok_{i}_{j};")
        elif k == "Def":
            v = l[2]
            if v == "E":
                out.append(f"#define {l[1]}")
            elif isinstance(v, list):
                out.append(f"#define {l[1]} " + (f"<{pstr(v[2])}>" if v[1] else f'"{pstr(v[2])}"'))
            else:
                out.append(f"#define {l[1]} {v}")
        elif k == "Undef":
            out.append(f"#undef {l[1]}")
        elif k == "Other":
            out.append("#pragma unroll")
        elif k == "Once":
            out.append("#pragma once")
        elif k == "Inc":
            s = l[1]
            if s[0] == "Q":
                out.append(f'#include "{pstr(s[1])}"')
            elif s[0] == "A":
                out.append(f"#include <{pstr(s[1])}>")
            else:
                out.append(f"#include {s[1]}")
        elif k == "Unk":
            out.append(unk_text(l))
            unk.append([len(out), 1 if l[1] else 0, [[bool(l[1]), "#"]] + [[bool(w), t] for w, t in l[2]]])
        elif k == "If":
            out.append(render_cond(l[1], False, style + i))
        elif k == "Elif":
            out.append(render_cond(l[1], True, style + i))
        elif k == "Else":
            out.append("#else")
        elif k == "Endif":
            out.append("#endif")
        else:
            raise ValueError(l)
    return "\n".join(out) + ("\n" if out else ""), node_line, unk


def model_lines(lines, node_line):
    out = []
    for l, n in zip(lines, node_line):
        out.append([n, ["Other"] if l[0] == "Unk" else l])
    return out


def render_args(args, base):
    argv = []
    for a in args:
        if a[0] == "D":
            v = a[2]
            if v == "E":
                argv.append(f"-D{a[1]}=")
            elif isinstance(v, list):
                argv.append(f"-D{a[1]}=<{pstr(v[2])}>" if v[1] else f'-D{a[1]}="{pstr(v[2])}"')
            else:
                argv.append(f"-D{a[1]}={v}")
        elif a[0] == "I":
            if a[1]:
                argv += ["-isystem", base + "/" + pstr(a[2])]
            else:
                argv.append("-I" + base + "/" + pstr(a[2]))
        elif a[0] == "F":
            argv += ["-include", pstr(a[1])]
        elif a[0] == "R":
            argv.append(a[1])
        else:
            raise ValueError(a)
    return argv


# ---------------------------------------------------------------- generation
def gen_cond(rng):
    c = gen_cond_c01(rng)
    if c[0] == "Bad" and rng.random() < 0.85:          # malformed expressions are C02's subject: keep a few
        return ["Defd", rng.choice(FLAGS + VALS)]
    return c


def gen_plain(rng, names, unk_rate):
    r = rng.random()
    if r < unk_rate:
        return [["Unk", rng.random() < 0.2, rng.choice(UNK_POOL)]]
    r = rng.random()
    if r < 0.28:
        return [["Code"]]
    if r < 0.36:
        m = rng.choice(VALS)
        pre = [["Undef", m]] if rng.random() < 0.95 else []
        return pre + [["Def", m, rng.choice([0, 1, 2])]]
    if r < 0.44:
        m = rng.choice(FLAGS)
        pre = [["Undef", m]] if rng.random() < 0.95 else []
        return pre + [["Def", m, rng.choice(["E", 1])]]
    if r < 0.50:
        return [["Undef", rng.choice(FLAGS + VALS)]]
    if r < 0.53:
        return [["Other"]]
    if r < 0.60 and names:
        m = rng.choice(PMACS)
        return [["Undef", m], ["Def", m, ["P", rng.random() < 0.4, rng.choice(names)]]]
    if names:
        n = rng.choice(names)
        rr = rng.random()
        if rr < 0.50:
            return [["Inc", ["Q", n]]]
        if rr < 0.88:
            return [["Inc", ["A", n]]]
        m = rng.choice(PMACS)
        pre = [["Undef", m], ["Def", m, ["P", rng.random() < 0.4, rng.choice(names)]]] if rng.random() < 0.95 else []
        return pre + [["Inc", ["M", m]]]
    return [["Code"]]


def gen_body(rng, names, depth, budget, unk_rate):
    out = []
    for _ in range(rng.randint(1, 5) if depth == 0 else rng.randint(0, 3)):
        if len(out) > budget:
            break
        if depth < 3 and rng.random() < 0.3:
            out.append(["If", gen_cond(rng)])
            out += gen_body(rng, names, depth + 1, budget // 2, unk_rate)
            if rng.random() < 0.4:
                out.append(["Elif", gen_cond(rng)])
                out += gen_body(rng, names, depth + 1, budget // 3, unk_rate)
            if rng.random() < 0.5:
                out.append(["Else"])
                out += gen_body(rng, names, depth + 1, budget // 3, unk_rate)
            out.append(["Endif"])
        else:
            out += gen_plain(rng, names, unk_rate)
    return out


def gen_args(rng, names, cc, malformed):
    args = []
    for d in rng.sample(DIRS, rng.randint(0, 3)):
        args.append(["I", rng.random() < 0.3, d])
    for m in FLAGS:
        if rng.random() < 0.3:
            args.append(["D", m, rng.choice(["E", 1])])
    for m in VALS:
        if rng.random() < 0.5:
            args.append(["D", m, rng.choice([0, 1, 2])])
    if rng.random() < 0.25:
        args.append(["D", rng.choice(PMACS), ["P", rng.random() < 0.5, rng.choice(names)]])
    for _ in range(rng.choice([0, 0, 0, 1, 1, 2])):
        args.append(["F", rng.choice(names)])
        if rng.random() < 0.25:
            args.append(list(args[-1]))            # the same header forced twice (#pragma once / guard / bare)
    for _ in range(rng.choice([0, 1, 2, 3])):
        for t in rng.choice(OK_FLAGS):
            args.append(["R", t])
    for _ in range(rng.choice([0, 0, 1, 1, 2, 3])):
        for t in rng.choice(BAD_FLAGS):
            args.append(["R", t])
    if rng.random() < 0.3:
        for t in rng.choice(CC_FLAGS):
            args.append(["R", t])
    # keep the (flag, argument) pairs of OK_FLAGS together while shuffling
    groups = []
    i = 0
    while i < len(args):
        if args[i] == ["R", "-o"] and i + 1 < len(args):
            groups.append(args[i:i + 2])
            i += 2
        else:
            groups.append([args[i]])
            i += 1
    rng.shuffle(groups)
    args = [a for g in groups for a in g]
    if malformed and rng.random() < 0.3:
        if rng.random() < 0.25:
            args.insert(rng.randrange(len(args) + 1), ["R", "-i"])             # ambiguous: -isystem or -include
        else:
            k = rng.randrange(len(args) + 1)                                   # a flag whose argument is missing:
            args[k:k] = [["R", rng.choice(["-o", "-O", "-D", "-include"])],    # the next token is another flag
                         ["R", rng.choice(["-c", "-g", "-Wall"])]]
    return args


def gen_case(rng, malformed=False, phrase=False, unk=None):
    """A code base with a KNOWN set of unhonourable inputs."""
    unk_rate = rng.choice([0.0, 0.08, 0.15]) if unk is None else unk
    ghost_rate = rng.choice([0.0, 0.6, 0.6, 0.9])
    present = [[h] for h in rng.sample(HDRS, rng.randint(1, 3))]
    if rng.random() < 0.3:
        present.append(["sub", rng.choice(HDRS)])
    ghosts = rng.sample(GHOSTS, rng.randint(1, 2)) if rng.random() < ghost_rate or ghost_rate > 0.5 else []
    if phrase:
        # the phrases of the two categories, and near misses that must NOT be counted
        ghosts = ghosts + [[rng.choice(["system include", "user include", "users", "system", "user_include", "include"]), "p.h"]]
    names = present + ghosts
    files = {}
    order = list(present)
    for idx, n in enumerate(order):
        later = order[idx + 1:] if rng.random() < 0.93 else order
        later = later + ghosts
        for d in rng.sample(DIRS, rng.randint(1, 2)):
            p = d + n
            body = gen_body(rng, later, 0, 10, unk_rate)
            style = rng.random()
            if style < 0.35:
                g = f"G_{'_'.join(p).replace('.', '_')}"
                body = [["If", ["NDefd", g]], ["Def", g, "E"]] + body + [["Endif"]]
            elif style < 0.6:
                body = [["Once"]] + body
            files[pstr(p)] = [p, normalise(body)]
    mains = [["src", "a.c"], ["src", "b.c"], ["src", "sub", "c.cpp"]][:rng.randint(1, 3)]
    for main in mains:
        body = [["Inc", [rng.choice(["Q", "A"]), rng.choice(names)]]] + gen_body(rng, names, 0, 16, unk_rate)
        if rng.random() < 0.5:
            n = rng.choice(names)                          # the same header several times
            body += [["Inc", [rng.choice(["Q", "A"]), n]] for _ in range(rng.randint(1, 3))]
        if malformed and rng.random() < 0.4:
            body.insert(rng.randrange(len(body) + 1), rng.choice([["Endif"], ["Else"], ["If", ["Bad"]]]))
        files[pstr(main)] = [main, normalise(body)]
    if rng.random() < 0.3:
        files["notes.txt"] = [["notes.txt"], [["Unk", False, [[False, "foo"]]], ["Code"]]]     # not a source file: never read
    if rng.random() < 0.3:
        files["src/unused.h"] = [["src", "unused.h"], normalise(gen_body(rng, names, 0, 6, 0.3))]   # in the code base, in no unit
    platforms = []
    for pi in range(rng.randint(1, 3)):
        entries = []
        for _ in range(rng.randint(1, 3)):
            r = rng.random()
            cc = rng.choice(KNOWN_CC) if rng.random() < 0.7 else rng.choice(UNKNOWN_CC)
            if r < 0.70:
                f = rng.choice(mains)
            elif r < 0.82:
                f = ["src", rng.choice(["gen.c", "made.cpp"])]           # does not exist
            elif r < 0.90:
                f = rng.choice([["src", "a.o"], ["README.txt"], ["notes.txt"]])   # not a source file
            else:
                f = rng.choice(mains)
                cc = None                                                # no command at all
            entries.append([f, cc, gen_args(rng, names, cc, malformed) if cc else []])
        platforms.append([f"P{pi}", entries])
    return [sorted(files.values(), key=lambda f: f[0]), platforms, {"cli": False}]


def q(name):
    return ["Inc", ["Q", [name]]]


def a(name):
    return ["Inc", ["A", [name]]]


CORPUS_EXTRA = [
    # the memoised failure must not suppress the second and third warning; both forms; reached and unreached
    [[[["src", "a.c"], [q("nope.h"), q("nope.h"), a("nope.h"), ["If", ["Defd", "F0"]], q("dead.h"), ["Endif"], q("nope.h")]]],
     [["P0", [[["src", "a.c"], "gcc", [["R", "-c"]]]]]], {"cli": True}],
    # a header with a dangling include, included three times by one unit and once by another platform
    [[[["src", "a.c"], [q("h.h"), q("h.h"), a("h.h")]], [["src", "b.c"], [q("h.h")]],
      [["src", "h.h"], [a("sys/gone.h"), ["Unk", False, [[False, "foo"]]], ["Unk", False, [[False, "line"], [True, "3"]]]]]],
     [["P0", [[["src", "a.c"], "gcc", [["I", False, ["src"]]]]]], ["P1", [[["src", "b.c"], "clang", []]]]], {"cli": True}],
    # a failed <x.h> must not make the resolvable "x.h" warn (needs the repaired memo key)
    [[[["src", "a.c"], [a("x.h"), q("x.h")]], [["src", "x.h"], [["Code"]]]],
     [["P0", [[["src", "a.c"], "gcc", []]]]], {"cli": False}],
    # database events: missing file, unknown compiler, unknown flags, flag known to one compiler only, empty database
    [[[["src", "a.c"], [["Code"]]]],
     [["P0", [[["src", "gen.c"], "gcc", []], [["src", "a.c"], "mycc", [["R", "-fopenmp"], ["R", "-Wall"], ["R", "-O2"]]],
              [["src", "a.c"], "gcc", [["R", "-fopenmp"], ["R", "-o"], ["R", "a.o"], ["R", "-fPIC"], ["R", "-std=c11"]]]]],
      ["P1", [[["src", "made.cpp"], "g++", []]]]], {"cli": True}],
    # entries that cannot be emulated at all
    [[[["src", "a.c"], [["Code"]]], [["README.txt"], [["Code"]]]],
     [["P0", [[["README.txt"], "gcc", [["R", "-c"]]], [["src", "a.c"], None, []], [["src", "a.c"], "gcc", []]]]], {"cli": True}],
    # a forced include that does not exist
    [[[["src", "a.c"], [["Code"]]]], [["P0", [[["src", "a.c"], "gcc", [["F", ["cfg.h"]]]]]]], {"cli": False}],
    # fully honoured input: silence
    [[[["src", "a.c"], [q("h.h"), a("h.h"), ["Unk", False, []], ["Unk", False, [[False, "error"], [True, "x"]]]]], [["inc1", "h.h"], [["Once"], ["Code"]]]],
     [["P0", [[["src", "a.c"], "gcc", [["I", False, ["inc1"]], ["R", "-O2"], ["R", "-c"]]]]]], {"cli": True}],
    # two passes (icx): every unresolved include is evaluated once per pass
    [[[["src", "a.c"], [q("nope.h")]]], [["P0", [[["src", "a.c"], "icx", []]]]], {"cli": False}],
    # the phrase of the other category inside a requested name
    [[[["src", "a.c"], [q("system include/p.h")]]], [["P0", [[["src", "a.c"], "gcc", []]]]], {"cli": False}],
]


def exhaustive_block():
    """every sequence of <= 3 include directives over {quote,angle} x {present,absent} in a two-unit platform"""
    import itertools
    out = []
    opts = [q("h.h"), a("h.h"), q("nope.h"), a("nope.h")]
    seqs = [list(t) for n in (1, 2, 3) for t in itertools.product(opts, repeat=n)]
    seen = set()
    for s in seqs:
        k = json.dumps(s)
        if k in seen or not s:
            continue
        seen.add(k)
        for with_i in (False, True):
            args = [["I", False, ["inc1"]]] if with_i else []
            out.append([[[["src", "a.c"], s], [["inc1", "h.h"], [q("nope.h")]]],
                        [["P0", [[["src", "a.c"], "gcc", args]]]], {"cli": False}])
    return out


REC_RE = [
    ("missing-file", re.compile(r"^Ignoring non-existent file: (.*)$", re.S)),
    ("unsupported", re.compile(r"^Ignoring unsupported compile command: (.*)$", re.S)),
    ("unknown-compiler", re.compile(r"^Compiler '(.*)' not recognized\.$", re.S)),
    ("unknown-args", re.compile(r"^Unrecognized arguments: '(.*)'$", re.S)),
    ("empty-db", re.compile(r"^No files found in compilation database at '(.*)'\.\nEnsure that 'directory' and 'file' are in the root directory\.$", re.S)),
    ("unknown-directive", re.compile(r"^(.*):(\d+):(\d+): unrecognized directive '(\[.*\])'$", re.S)),
    ("bad-command", re.compile(r"^Could not parse all arguments: (.*)$", re.S)),
    ("missing-forced", re.compile(r"^(.*): forced include '(.*)' not found$", re.S)),
    ("missing-include", re.compile(r"^(.*):(\d+): (user|system) include '(.*)' not found\n *(\d+) \| (.*)$", re.S)),
]


def event_of(msg):
    """What a warning names (the property's reading of the message)."""
    for kind, rx in REC_RE:
        m = rx.match(msg)
        if not m:
            continue
        if kind == "unknown-args":
            return [kind, m.group(1).split(" ")]
        if kind == "unknown-directive":
            try:
                sp = pyast.literal_eval(m.group(4))
            except Exception:
                return ["other", msg]
            if not (isinstance(sp, list) and len(sp) == 1):
                return ["other", msg]
            return [kind, m.group(1), int(m.group(2)), int(m.group(3)), sp[0]]
        if kind == "missing-include":
            if m.group(2) != m.group(5):
                return ["other", msg]
            return [kind, m.group(1), int(m.group(2)), m.group(4), 1 if m.group(3) == "system" else 0]
        if kind == "missing-forced":
            return [kind, m.group(1), m.group(2)]
        return [kind, m.group(1)]
    return ["other", msg]


TOT_RE = [re.compile(r"^(\d+) warnings generated during preprocessing\."),
          re.compile(r"^(\d+) user include files could not be found\."),
          re.compile(r"^(\d+) system include files could not be found\.")]


def totals_of(closing):
    t = [0, 0, 0]
    for msg in closing:
        for i, rx in enumerate(TOT_RE):
            m = rx.match(msg)
            if m:
                t[i] = int(m.group(1))
    return t


def split_log(text, prefix_only=False):
    """Records of a Formatter()-formatted stream: 'warning: msg' (msg may span lines)."""
    recs = []
    cur = None
    for line in text.split("\n"):
        m = re.match(r"^(warning|error|debug|critical): (.*)$", line)
        if m:
            if cur is not None:
                recs.append(cur)
            cur = [m.group(1), m.group(2)]
        elif cur is not None and (line.startswith(" ") or line.startswith("Ensure that ")):
            cur[1] += "\n" + line
        else:
            if cur is not None:
                recs.append(cur)
            cur = None
    if cur is not None:
        recs.append(cur)
    return recs


class C18(Check):
    prop_id = "C18"
    rule = ("code bases of 1-3 translation units and 1-3 headers placed in 1-2 of 4 directories (name clashes), nested conditionals, "
            "quote/angle/computed includes of present and absent (ghost) names in reached and unreached branches, headers included 1..n times, "
            "unrecognised directives from a pool of 16 (null, #line/#warning/#error, malformed known ones), files outside every unit, 1-3 platforms x 1-3 "
            "database entries with known/unknown compilers (two-pass icx/nvcc included), known/unknown/compiler-specific flags, -I/-isystem/-D/-include, "
            "entries for missing files, non-source files and empty commands; non-trivial = at least two different kinds of event expected AND at least "
            "one unresolved include evaluated more than once or in a header")
    assumptions = ["paths are absolute and normalised, without symbolic links",
                   "argparse is modelled for one-token flags, (flag, argument) pairs and attached one-letter forms only (C11 covers the rest)",
                   "compiler passes contribute the NUMBER of evaluations only (their extra definitions are not tested by the generated programs)",
                   "token lists of unrecognised directives are given as written by the generator (only their count >= 2, the second token and the joined spelling matter)"]

    def __init__(self, tier, seed):
        super().__init__(tier, seed)
        self.kinds = {}
        self.cli_runs = 0
        self.cli_flags = {}
        self.ncases = 0
        self.events_total = 0
        self.oracle_cases = 0
        self.oracle_skipped = 0
        self.oracle_bad = []
        self.hist = {}

    # ---- generation ----
    def generate(self):
        out = [c for c in CORPUS_EXTRA]
        out += exhaustive_block()
        n = 220 if self.tier == "quick" else 4000
        ncli = 25 if self.tier == "quick" else 250
        for i in range(n):
            c = gen_case(self.rng)
            if i < ncli:
                c[2] = {"cli": True, "v": self.rng.choice(["", "", "-v", "-v", "-vv", "-q"])}
            out.append(c)
        for _ in range(n // 6):
            out.append(gen_case(self.rng, malformed=True))
        for _ in range(n // 10):
            out.append(gen_case(self.rng, phrase=True))
        return out

    def encode(self, case):
        files, platforms, _ = case
        fenc = []
        for p, ls in files:
            _, node_line, unk = render_file(ls, style=len(ls))
            fenc.append([BASE + p, model_lines(ls, node_line), unk])
        penc = []
        for name, entries in platforms:
            es = []
            for f, cc, args in entries:
                margs = []
                for x in args:
                    if x[0] == "I":
                        margs.append(["I", x[1], BASE + x[2]])
                    else:
                        margs.append(x)
                es.append([BASE + f, [] if cc is None else [cc], margs])
            penc.append([name + ".json", es])
        return enc([fenc, penc])

    # ---- implementation ----
    def materialise(self, case, root):
        files, platforms, _ = case
        if root.exists():
            shutil.rmtree(root)
        root.mkdir(parents=True)
        for p, ls in files:
            f = root.joinpath(*p)
            f.parent.mkdir(parents=True, exist_ok=True)
            text, _, _ = render_file(ls, style=len(ls))
            f.write_text(text)
        for d in DIRS:
            root.joinpath(*d).mkdir(parents=True, exist_ok=True)
        for name, entries in platforms:
            db = []
            for f, cc, args in entries:
                fp = str(root.joinpath(*f))
                argv = [] if cc is None else [cc] + render_args(args, str(root)) + [fp]
                db.append({"file": fp, "directory": str(root), "arguments": argv})
            (root / f"{name}.json").write_text(json.dumps(db))
        toml = "".join(f'[platform.{name}]\ncommands = "{name}.json"\n' for name, _ in platforms)
        (root / "an.toml").write_text(toml)

    def impl(self, case):
        import codebasin
        from codebasin import config, finder
        from codebasin._detail.logging import WarningAggregator
        files, platforms, opt = case
        root = common.scratch() / "c18"
        self.materialise(case, root)
        strip = lambda s: s.replace(str(root), "/" + pstr(BASE))   # noqa
        records = []
        closing = []
        phase = {"closing": False}

        class H(logging.Handler):
            def emit(self, rec):
                if rec.levelno == logging.WARNING:
                    (closing if phase["closing"] else records).append(strip(rec.msg))
        lg = logging.getLogger("codebasin")
        saved = (lg.level, lg.propagate, list(lg.handlers), logging.root.manager.disable)
        for h0 in list(lg.handlers):
            lg.removeHandler(h0)
        agg = WarningAggregator()
        h = H()
        h.setLevel(logging.INFO)
        h.addFilter(agg)
        lg.addHandler(h)
        lg.setLevel(logging.DEBUG)
        lg.propagate = False
        logging.disable(logging.NOTSET)
        cwd = os.getcwd()
        os.chdir(root)
        try:
            try:
                configuration = {}
                for name, _ in platforms:
                    configuration[name] = config.load_database(f"{name}.json", str(root))
                cb = codebasin.CodeBase(str(root))
                finder.find(str(root), cb, configuration)
            except RecursionError:
                return ["Err", "RecursionError"]
            except Exception as e:  # noqa
                return ["Err", type(e).__name__]
            phase["closing"] = True
            agg.warn(lg)
            counts = [m._count for m in agg.meta_warnings]
        finally:
            os.chdir(cwd)
            lg.removeHandler(h)
            for h0 in saved[2]:
                lg.addHandler(h0)
            lg.setLevel(saved[0])
            lg.propagate = saved[1]
            logging.disable(saved[3])
        ans = ["Ok", sorted(records), closing, counts, None]
        if opt.get("cli"):
            ans[4] = self.run_cli(root, strip, opt.get("v", ""))
        return ans

    def run_cli(self, root, strip, flag=""):
        """The command line, at the terminal verbosity `flag` ("", -q, -v, -vv): cbi.log, the closing lines on
        stdout, and the warnings that reach the terminal before them."""
        self.cli_runs += 1
        self.cli_flags[flag or "default"] = self.cli_flags.get(flag or "default", 0) + 1
        env = dict(os.environ, PYTHONPATH=str(common.REPO), PYTHONHASHSEED="0")
        pr = subprocess.run([sys.executable, "-W", "ignore", "-m", "codebasin"] + ([flag] if flag else []) + ["-R", "summary", "an.toml"],
                            cwd=root, env=env, capture_output=True, text=True, timeout=120)
        if pr.returncode != 0:
            return ["Err", pr.returncode]

        def split_closing(recs):
            k = len(recs)
            while k > 0 and any(rx.match(recs[k - 1]) for rx in TOT_RE):
                k -= 1
            return recs[:k], recs[k:]
        log = (root / "cbi.log").read_text()
        body, tail = split_closing([strip(m) for lv, m in split_log(log) if lv == "warning"])
        out = pr.stdout
        out = out[:out.index("\nSummary\n")] if "\nSummary\n" in out else out
        term, printed = split_closing([strip(m) for lv, m in split_log(out) if lv == "warning"])
        return ["Ok", sorted(body), printed, tail, sorted(term)]

    # ---- views ----
    def _kind(self, e):
        k = e.split(":")[0]
        return "RecursionError" if k == "OutOfFuel" else k

    def model_view(self, case, ans):
        m = ans[0]
        if m[0] != "Ok":
            return ["Err", self._kind(m[1])]
        recs = sorted(m[1] + m[2] + m[3])
        cli = None
        if case[2].get("cli"):
            # the totals do not depend on the terminal verbosity; with -v / -vv every warning also reaches the terminal (once)
            cli = ["Ok", recs, m[4], m[4], recs if case[2].get("v", "") in ("-v", "-vv") else []]
        return ["Ok", recs, m[4], m[5], cli]

    def impl_view_for_model(self, case, ia):
        return ia

    def spec(self, case, ans):
        if ans is None or isinstance(ans, str):
            return None
        s = ans[1]
        if s[0] != "Ok":
            return ["Err", self._kind(s[1])]
        return ["Ok", sorted(s[1], key=json.dumps), s[2]]

    def impl_view_for_spec(self, case, ia):
        if ia[0] != "Ok":
            return ia
        evs = [event_of(m) for m in ia[1]]
        view = ["Ok", sorted(evs, key=json.dumps), totals_of(ia[2])]
        if ia[4] is not None:
            # the command line must tell the same story: cbi.log records, printed totals, logged totals
            if ia[4][0] != "Ok":
                return ["Err", "CLI", ia[4]]
            cli_evs = sorted([event_of(m) for m in ia[4][1]], key=json.dumps)
            if cli_evs != view[1] or totals_of(ia[4][2]) != view[2] or ia[4][2] != ia[4][3]:
                return ["Ok", cli_evs, totals_of(ia[4][2]), "cli differs from in-process run"]
        return view

    def in_domain(self, case, sa):
        if sa is None or sa[0] != "Ok":
            return False
        if any(a in (["R", "-i"], ["R", "-f"]) for _, es in case[1] for _, cc, args in es for a in args):
            return False          # bare prefixes of several flags (ambiguous / abbreviated): argparse's business (C11); M models them, S does not read them
        return all(balanced(ls) for _, ls in case[0])

    def nontrivial(self, case, ia):
        if ia[0] != "Ok":
            return False
        evs = [event_of(m) for m in ia[1]]
        self.ncases += 1
        self.events_total += len(evs)
        for e in evs:
            self.kinds[e[0]] = self.kinds.get(e[0], 0) + 1
        kinds = {e[0] for e in evs}
        inc = [tuple(e[1:]) for e in evs if e[0] == "missing-include"]
        h = self.hist
        def bump(name, key):   # noqa
            h.setdefault(name, {})
            h[name][str(key)] = h[name].get(str(key), 0) + 1
        bump("platforms", len(case[1]))
        bump("database_entries", sum(len(es) for _, es in case[1]))
        bump("files", len(case[0]))
        bump("events_per_case", min(len(evs), 20) // 5 * 5)
        bump("kinds_per_case", len(kinds))
        bump("silent", int(not evs))
        bump("include_event_in_header", int(any(not e[0].endswith((".c", ".cpp")) for e in inc)))
        bump("same_include_event_repeated", int(len(inc) != len(set(inc))))
        bump("both_forms_missing", int(len({e[3] for e in inc}) == 2))
        repeated = len(inc) != len(set(inc)) or any(not e[0].endswith((".c", ".cpp")) for e in inc)
        return len(kinds) >= 2 and repeated

    def classify(self, case, ia, sa):
        """Every difference must be explained by the listed classes (several may combine)."""
        if ia[0] != "Ok" or sa is None or sa[0] != "Ok":
            return None
        iv = self.impl_view_for_spec(case, ia)
        if len(iv) != 3:
            return None
        extra = list(iv[1])
        missing = []
        for e in sa[1]:
            if e in extra:
                extra.remove(e)
            else:
                missing.append(e)
        used = []
        dropped = 0
        # (1) '-fsycl' given to clang/clang++ is taken for '-fsycl-is-device'
        abbr = any(cc in ("clang", "clang++") and ["R", "-fsycl"] in args for _, es in case[1] for _, cc, args in es)
        if abbr:
            for e in [e for e in missing if e[0] == "unknown-args" and "-fsycl" in e[1]]:
                rest = [t for t in e[1] if t != "-fsycl"]
                if rest:
                    if ["unknown-args", rest] not in extra:
                        continue
                    extra.remove(["unknown-args", rest])
                else:
                    dropped += 1
                missing.remove(e)
                if "flag-abbreviation-accepted" not in used:
                    used.append("flag-abbreviation-accepted")
        if missing or extra:
            return None
        if iv[2][0] != sa[2][0] - dropped:
            return None
        # (2) the per-category totals are substring tests on the whole message
        if iv[2][1:] != sa[2][1:]:
            # explained only by messages that contain a category's phrase without being of that category
            def cat(m):   # noqa
                e = event_of(m)
                return ("system include" if e[4] else "user include") if e[0] == "missing-include" else None
            cross = [m for m in ia[1] if any(ph in m and cat(m) != ph for ph in ("user include", "system include"))]
            u = sa[2][1] + sum(1 for m in cross if "user include" in m and cat(m) != "user include")
            sy = sa[2][2] + sum(1 for m in cross if "system include" in m and cat(m) != "system include")
            if not cross or [u, sy] != iv[2][1:]:
                return None
            used.append("totals-phrase-in-name")
        return used[0] if used else None

    def shrink(self, case, still_fails):
        files, platforms, opt = case
        opt = {"cli": False} if still_fails([files, platforms, {"cli": False}]) else opt
        platforms = common.shrink_list(platforms, lambda ps: bool(ps) and still_fails([files, ps, opt]))
        for i in range(len(platforms)):
            name, entries = platforms[i]
            entries = common.shrink_list(entries, lambda es: still_fails([files, platforms[:i] + [[name, es]] + platforms[i + 1:], opt]))
            platforms = platforms[:i] + [[name, entries]] + platforms[i + 1:]
            for j in range(len(entries)):
                f, cc, args = entries[j]
                args = common.shrink_list(args, lambda xs: still_fails(
                    [files, platforms[:i] + [[name, entries[:j] + [[f, cc, xs]] + entries[j + 1:]]] + platforms[i + 1:], opt]))
                entries = entries[:j] + [[f, cc, args]] + entries[j + 1:]
                platforms = platforms[:i] + [[name, entries]] + platforms[i + 1:]
        files = common.shrink_list(files, lambda fs: still_fails([fs, platforms, opt]))
        for idx in range(len(files)):
            p, ls = files[idx]
            items = parse_items(ls)
            if items is None:
                ls2 = common.shrink_list(ls, lambda xs: still_fails([files[:idx] + [[p, xs]] + files[idx + 1:], platforms, opt]))
                files = files[:idx] + [[p, ls2]] + files[idx + 1:]
                continue
            progress = True
            steps = 0
            while progress and steps < 150:
                progress = False
                for cand in shrink_candidates(items):
                    steps += 1
                    cl = normalise(unparse_items(cand))
                    trial = files[:idx] + [[p, cl]] + files[idx + 1:]
                    if still_fails([trial, platforms, opt]):
                        items = cand
                        files = trial
                        progress = True
                        break
        return [files, platforms, opt]

    # ---- S versus gcc -M -MG (the set of missing headers a translation unit reaches) ----
    def self_tests(self):
        if shutil.which("gcc") is None:
            return []
        n = 40 if self.tier == "quick" else 500
        singles = []
        for _ in range(n):
            files, platforms, _ = gen_case(self.rng, unk=0.0)
            present = {pstr(p) for p, _ in files}
            cand = [(f, args) for _, es in platforms for f, cc, args in es if cc is not None and pstr(f) in present and f[-1].endswith((".c", ".cpp"))]
            if not cand:
                continue
            f, args = self.rng.choice(cand)
            args = [x for x in args if x[0] in ("I", "D", "F")] + [["I", False, ["empty"]]]     # -I and -isystem as generated
            singles.append([files, [["P0", [[f, "gcc", args]]]], {"cli": False}])
        answers = common.run_model("C18", [self.encode(c) for c in singles])
        root = common.scratch() / "c18gcc"
        problems = []
        for c, ans in zip(singles, answers):
            sa = self.spec(c, ans)
            files, platforms, _ = c
            f, _, args = platforms[0][1][0]
            self.materialise(c, root)
            (root / "empty").mkdir(exist_ok=True)
            cwd = root.joinpath(*f[:-1])
            self.oracle_cases += 1
            # everything is given to gcc by absolute path (a forced include that sits beside the unit - where gcc,
            # run in the unit's directory, finds it first - is named by its absolute path), so every header gcc
            # FOUND is printed with an absolute path; a missing one (assumed generated, -MG) is printed as requested
            gargs = []
            for x in args:
                if x[0] == "F" and os.path.exists(os.path.join(cwd, pstr(x[1]))):
                    gargs += ["-include", os.path.join(cwd, pstr(x[1]))]
                else:
                    gargs += render_args([x], str(root))
            try:
                pr = subprocess.run(["gcc", "-M", "-MG", "-undef", "-nostdinc"] + gargs + [str(root.joinpath(*f))],
                                    cwd=cwd, capture_output=True, text=True, timeout=20)
            except subprocess.TimeoutExpired:      # unguarded mutual inclusion: gcc explores up to depth 200
                self.oracle_skipped += 1
                continue
            if pr.returncode != 0 or pr.stderr.strip() or sa is None or sa[0] != "Ok" or not self.in_domain(c, sa):
                self.oracle_skipped += 1
                continue
            deps = pr.stdout.replace("\\\n", " ").split(":", 1)[1].split()
            missing = {d for d in deps if not os.path.isabs(d)}
            expected = {e[3] for e in sa[1] if e[0] == "missing-include"} | {e[2] for e in sa[1] if e[0] == "missing-forced"}
            if missing != expected:
                self.oracle_bad.append({"case": c, "gcc_missing": sorted(missing), "spec_missing": sorted(expected)})
        if self.oracle_bad:
            problems.append(f"S disagrees with gcc -M -MG on {len(self.oracle_bad)} of {self.oracle_cases} units: {json.dumps(self.oracle_bad[0])}")
        return problems

    def extra_coverage(self):
        return {"spec_oracle_cases": self.oracle_cases, "spec_oracle_disagreements": len(self.oracle_bad),
                "spec_oracle_diagnosed_or_out_of_domain": self.oracle_skipped,
                "event_kinds_observed": self.kinds, "input_distribution": self.hist, "cli_runs": self.cli_runs, "cli_runs_by_verbosity_flag": self.cli_flags,
                "mean_events_per_case": round(self.events_total / max(1, self.ncases), 2)}


CHECK = C18
