"""C02 - #if expressions follow C integer-constant-expression semantics.

I  : codebasin.preprocessor (Lexer, MacroExpander's `defined`, ExpressionEvaluator) observed through
     IfNode.evaluate_for_platform, ExpressionEvaluator(Lexer(s).tokenize()).evaluate() and the branch of
     `#if E / #else / #endif` (and of `#if E / #elif X / #else / #endif`) that finder.find attributes.
M  : extracted run_C02 (Model/C02run.v): text -> Model/C02lex.v tokenize -> Model/C02.v expand -> evaluate, over the
     tables GENERATED from preprocessor.py; also compares its tokens with the real Lexer's and the real Lexer's with
     the Coq unparser `tokens dt_source 0 e`.
S  : Spec/C02.v `sem` on the expression AST (ISO C 6.6 / 6.10.1), cross-checked on every case against the independent
     Python oracle c02_util.sem, which is validated against gcc -E.

case = [text, [[macro, body text]...], ast | 0, [[macro, body ast | 0]...] | 0, route(0/1/2)(, [elif text, elif truth | null])]
"""
from __future__ import annotations

import itertools
import logging
import re
import shutil
import subprocess

from . import common
from . import c02_util as U
from .common import Check, enc

_setup_done = False


def _setup():
    global _setup_done
    if not _setup_done:
        logging.disable(logging.CRITICAL)
        import warnings
        warnings.filterwarnings("ignore")
        _setup_done = True


def mk_case(ast, env, spacing=1, rng=None, find=0):
    return [U.render(ast, spacing, rng), U.env_texts(env), ast, [[n, (b if b is not None else 0)] for n, b in env], find]


def case_env(case):
    return {n: (None if b == 0 else b) for n, b in (case[3] or [])}


# lexeme pool of the malformed stream
BAD_LEX = ["08", "09u", "0x", "0xg", "0b2", "0b", "1e+5", "1_0", "1__0", "_1", "1.5", ".5", "1.", "123abc", "1uu", "1lul", "1lL", "1Ll", "1ulll",
           "0xFFFFFFFFFFFFFFFF", "0x8000000000000000", "01777777777777777777777", "0b1" + "0" * 63,
           "9223372036854775808", "18446744073709551615", "18446744073709551616", "99999999999999999999u", "18446744073709551616u",
           "0xFFFFFFFFFFFFFFFFF", "1e5", "0xe+1", "1p-2", "0x1p3", "1u", "0X1Fu", "017", "0b101",
           "'a'", "''", "'\\q'", "'ab'", "'\\'", "'\\x'", "'\\400'", "'\\xfff'", "'\\8'", "'\\18'", "'\\1234'", "'\\x4g'", "'\\n'", "'\\0'", "'\\xff'", "'\\377'", "' '", "'+'", "'\"'", "'",
           '"str"', '"+"', '"', '"a\\"b"',
           "x", "foo", "defined", "defined", "A", "B_1", "if",
           "+", "-", "*", "/", "%", "!", "~", "<<", ">>", "<", ">", "<=", ">=", "==", "!=", "&", "|", "^", "&&", "||", "?", ":", "##", "#", "=",
           "(", ")", "(", ")", ",", ".", ";", "[", "]", "{", "}", "\\", "@", "$", "`",
           "0", "1", "2", "3", "1", "0"]


class C02(Check):
    prop_id = "C02"
    rule = ("expression ASTs over unary + - ! ~, the 18 binary operators, ?:, parentheses, integer literals in bases 10/8/16/2 with every "
            "legal suffix spelling and boundary values (INT64/UINT64 extremes), character constants (plain, simple/octal/hex escapes), "
            "defined X / defined(X), macros with identifier-free bodies and unknown identifiers; rendered with the minimal parentheses "
            "ISO C's grammar requires; every expression also appears wrapped as (E)==k, (E)!=k and ((E)-k)-1<0 so that its VALUE and "
            "signedness - not only its truth - are observed.  Blocks: exhaustive (all ASTs up to an operator bound over a literal set), "
            "all ordered operator pairs/triples with ?:, random (depth <= 6, UB-free by construction, unevaluated operands may have UB), "
            "malformed (lexeme soup, mutated renderings, character soup; only I~M - lexer tokens included - is compared there), "
            "#if/#elif chains through finder.find whose #elif after a taken branch is garbage.  Non-trivial = in the quantifier, at least two "
            "operators, of which at least two of different precedence level, or a literal with suffix/prefix, or a character escape")
    assumptions = [
        "macro expansion beyond `defined` and object-like macros with identifier-free bodies is C03's subject (M answers Unsupported there; never generated)",
        "str.isdigit/isalpha/isalnum/isprintable are modelled for ASCII; Python's int(str, base) by Model/C02.v py_int; numpy scalar constructors by range checks",
        "right shift of a negative signed value is arithmetic (implementation-defined in ISO C; gcc's choice)",
        "character constants with values >= 128 have implementation-defined sign and are outside the quantifier",
        "inputs gcc diagnoses (signed overflow, division by zero in an evaluated operand, out-of-range shift counts, unsuffixed decimal literals >= 2^63, call syntax) are outside the quantifier",
        "ASCII input only",
    ]

    def __init__(self, tier, seed):
        super().__init__(tier, seed)
        self.hist = {"block": {}, "depth": {}, "ops": {}, "impl_err": {}, "out_of_domain": {}}
        self.s_mismatch = []
        self.oracle_cases = 0
        self.oracle_dropped = 0
        self.oracle_bad = []
        self.roundtrip_bad = []
        self._find_n = 0
        self.tok_cmp = 0
        self.lex_cmp = 0
        self.tok_bad = []

    # ------------------------------------------------------------ generation
    def _add(self, out, block, ast, env, spacing=1, wrap=True, find=None):
        if find is None:
            self._find_n += 1
            find = 1 if self._find_n % (7 if self.tier == "quick" else 5) == 0 else 0
        out.append(mk_case(ast, env, spacing, self.rng, find))
        self.hist["block"][block] = self.hist["block"].get(block, 0) + 1
        if not U.renderer_roundtrip_ok(ast) and len(self.roundtrip_bad) < 5:
            self.roundtrip_bad.append(ast)
        if wrap:
            try:
                val = U.sem(ast, U.env_dict(env))
            except U.UB:
                return
            for w in U.wrappers(ast, val):
                out.append(mk_case(w, env, spacing, self.rng, 0))
                self.hist["block"][block + "+wrap"] = self.hist["block"].get(block + "+wrap", 0) + 1

    def generate(self):
        rng = self.rng
        quick = self.tier == "quick"
        out = []
        L = U.lit
        # ---- block 1: literals, every base x suffix x boundary value
        vals = U.BOUNDARY if not quick else [0, 1, 8, 255, (1 << 31), U.I64MAX, 1 << 63, U.M64]
        for v in vals:
            for base in (10, 8, 16, 2):
                for suf in U.SUFFIXES:
                    if quick and rng.random() < 0.5:
                        continue
                    n = ["L", base, v, suf, rng.randrange(4) + 4 * rng.choice([0, 0, 1])]
                    try:
                        U.lit_value(n)
                    except U.UB:
                        continue
                    self._add(out, "literals", n, [], wrap=True, find=0)
        # ---- block 2: character constants
        chars = [["C", 0, v, 0] for v in range(32, 127) if v not in (39, 92)]
        chars += [["C", 1, v, 0] for v in U.SIMPLE_BY_VAL] + [["C", 1, 0, 1]]
        for v in range(128):
            if quick and v % 5:
                continue
            for nd in range(len(format(v, "o")), 4):
                chars.append(["C", 2, v, nd])
            for nd in range(len(format(v, "x")), 4):
                chars.append(["C", 3, v, nd])
            chars.append(["C", 4, v, 2])
        for n in chars:
            self._add(out, "charconst", n, [], wrap=False, find=0)
            out.append(mk_case(["B", "==", n, L(n[2])], [], 1, rng, 0))
            out.append(mk_case(["B", "==", ["B", "+", n, L(1)], L(n[2] + 1)], [], 0, rng, 0))
        # ---- block 3: every ordered pair of binary operators (+ ?: and unary), several operand triples
        triples = [(7, 3, 2), (1, 0, 5), (2, 2, 1), (0, 1, 1), (5, 4, 3)] if quick else \
            [(7, 3, 2), (1, 0, 5), (2, 2, 1), (0, 1, 1), (5, 4, 3), (1, 1, 1), (6, 0, 0), (9, 4, 2), (0, 0, 0), (3, 7, 10)]
        for o1, o2 in itertools.product(U.BINOPS, repeat=2):
            for (a, b, c) in triples:
                for shape in (0, 1):
                    la, lb, lc = L(a), L(b), L(c)
                    if rng.random() < 0.3:
                        la = ["U", "-", la]
                    n = ["B", o2, ["B", o1, la, lb], lc] if shape == 0 else ["B", o1, la, ["B", o2, lb, lc]]
                    self._add(out, "pairs", n, [], spacing=rng.choice([0, 1, 2]), wrap=True)
        for o in U.BINOPS:
            for (a, b, c) in triples[:3]:
                for u in U.UNOPS:
                    self._add(out, "unary-binary", ["B", o, ["U", u, L(a)], L(b)], [], spacing=rng.choice([0, 1]))
                    self._add(out, "unary-binary", ["U", u, ["B", o, L(a), L(b)]], [], spacing=rng.choice([0, 1]))
                    self._add(out, "unary-binary", ["B", o, L(a), ["U", u, L(b)]], [], spacing=rng.choice([0, 1]))
                self._add(out, "ternary", ["T", ["B", o, L(a), L(b)], L(c), L(4)], [])
                self._add(out, "ternary", ["B", o, L(a), ["T", L(b), L(c), L(4)]], [])
                self._add(out, "ternary", ["T", L(a), ["B", o, L(b), L(c)], L(4)], [])
                self._add(out, "ternary", ["T", L(a), L(b), ["B", o, L(c), L(4)]], [])
                self._add(out, "ternary", ["B", o, ["T", L(a), L(b), L(c)], L(4)], [])
        for (a, b, c, d, e) in itertools.product([0, 1], [2, 0], [0, 1], [3], [4]):
            self._add(out, "ternary", ["T", L(a), L(b), ["T", L(c), L(d), L(e)]], [])
            self._add(out, "ternary", ["T", ["T", L(a), L(b), L(c)], L(d), L(e)], [])
            self._add(out, "ternary", ["T", L(a), ["T", L(b), L(c), L(d)], L(e)], [])
        # mixed-signedness ternaries and comparisons (usual arithmetic conversions)
        for x, y in itertools.product([["U", "-", L(1)], L(0), L(1), L(0, 10, "u"), L(1, 16, "U"), L(U.M64, 16, "u"), L(U.I64MAX)], repeat=2):
            for o in ["<", ">", "<=", ">=", "==", "!=", "+", "-", "*", "/", "%", "&", "|", "^", "<<", ">>", "&&", "||"]:
                self._add(out, "mixed-sign", ["B", o, x, y], [])
            self._add(out, "mixed-sign", ["T", L(1), x, y], [])
            self._add(out, "mixed-sign", ["T", L(0), x, y], [])
        # ---- block 4: exhaustive small ASTs
        six = [L(0), L(1), L(2), ["U", "-", L(1)], L(U.I64MAX), L(U.M64, 16, "u")]
        lv1 = six + [L(7), L(8, 8, "", 0), L(3, 10, "u")]
        for n in U.enum_asts(1, lv1):
            self._add(out, "exhaustive-1op", n, [], spacing=rng.choice([0, 1]))
        if quick:
            two = [L(1), L(2), ["U", "-", L(3)]]
            for n in U.enum_asts(2, two, unops=[], ternary=False):
                if rng.random() < 0.35:
                    self._add(out, "exhaustive-2op-sampled", n, [], spacing=0, wrap=False, find=0)
        else:
            for n in U.enum_asts(2, [L(0), L(1), L(2), ["U", "-", L(1)], L(U.I64MAX), L(3, 10, "u")]):
                self._add(out, "exhaustive-2op", n, [], spacing=rng.choice([0, 1]), wrap=False, find=0)
            for n in U.enum_asts(3, [L(2), ["U", "-", L(3)]], unops=["-", "!"], ternary=False):
                if rng.random() < 0.25:
                    self._add(out, "exhaustive-3op-sampled", n, [], spacing=0, wrap=False, find=0)
        # ---- block 5: random, UB-free by construction
        nrand = 900 if quick else 20000
        for _ in range(nrand):
            env = U.gen_env(rng)
            ed = U.env_dict(env)
            n, _v = U.gen_defined(rng, ed, rng.choice([1, 2, 3, 3, 4, 4, 5, 6]))
            self._add(out, "random", n, env, spacing=rng.choice([0, 1, 2, 2]))
        # identifiers / defined / calls
        for env in ([], [["A", None]], [["A", L(5)]], [["A", ["P", ["B", "+", L(1), L(2)]]], ["B_1", L(0)]]):
            for nm in ("A", "B_1", "foo"):
                for form in (0, 1, 2):
                    self._add(out, "defined", ["D", nm, form], env, spacing=rng.choice([0, 1, 2]), wrap=False)
                    self._add(out, "defined", ["B", "&&", ["U", "!", ["D", nm, form]], L(1)], env, wrap=False)
                if not (nm in [e[0] for e in env] and dict((e[0], e[1]) for e in env)[nm] is None):
                    self._add(out, "identifier", ["B", "*", ["I", nm], L(2)], env)
                    self._add(out, "identifier", ["B", "==", ["I", nm], L(0)], env, wrap=False)
                self._add(out, "call", ["F", nm if nm == "foo" else "bar", [L(1), ["B", "+", L(2), L(3)]]], env, wrap=False)
            self._add(out, "call", ["B", "+", ["F", "f", []], L(1)], env, wrap=False)
            self._add(out, "call", ["B", "||", ["F", "__has_builtin", [["I", "x"]]], L(0)], env, wrap=False)
        # ---- block 6: malformed stream (no AST: only I~M is compared)
        nbad = 700 if quick else 12000
        for i in range(nbad):
            r = rng.random()
            if r < 0.45:
                lex = [rng.choice(BAD_LEX) for _ in range(rng.randint(0, 6))]
            else:
                n, _v = U.gen_defined(rng, {}, rng.choice([1, 2, 3]))
                lex = U.lexemes(n, 0)
                for _ in range(rng.choice([1, 1, 2])):
                    k = rng.random()
                    pos = rng.randrange(len(lex) + 1)
                    if k < 0.35 and lex:
                        del lex[min(pos, len(lex) - 1)]
                    elif k < 0.75:
                        lex.insert(pos, rng.choice(BAD_LEX))
                    elif lex:
                        lex[min(pos, len(lex) - 1)] = rng.choice(BAD_LEX)
            text = U.join(lex, rng.choice([0, 1, 1]), rng) if rng.random() < 0.85 else "".join(lex)
            env = [["A", "2"]] if rng.random() < 0.3 else []
            # the finder route goes through the line splicer / comment stripper (C05's subject): keep their triggers out
            plain = not any(c in text for c in "\\'\"") and "//" not in text and "/*" not in text
            out.append([text, env, 0, 0, 1 if (i % 25 == 0 and plain) else 0])
            self.hist["block"]["malformed"] = self.hist["block"].get("malformed", 0) + 1
        # ---- block 8: the last sentence of the property, through finder.find:
        #   #if E / a / #elif X / b / #else / c / #endif   - when E is true, X (garbage, 1/0, empty, an unbalanced
        #   call ...) must be neither evaluated nor able to fail the analysis; when E is false X decides between b and c
        garbage = ["", "(", ")", "1 +", "* 10", "1/0", "1 % 0", "garbage(", "defined", "defined(", "0x", "08", "1 ? 2", "'ab'",
                   "0xFFFFFFFFFFFFFFFF", "99999999999999999999999", "@", "1 2 3", "f(1,", "#", "1 <<", "\"str\""]
        valid = [("1", 1), ("0", 0), ("1 - 1", 0), ("!0", 1), ("2 > 1", 1), ("defined(NOPE)", 0), ("-1 < 0u", 0), ("010 == 8", 1)]
        for i in range(120 if quick else 1500):
            n, v = U.gen_defined(rng, {}, rng.choice([0, 1, 2, 3]))
            if v[0] != 0:
                x = [rng.choice(garbage), None] if rng.random() < 0.8 else list(rng.choice(valid))
            else:
                x = list(rng.choice(valid))
            c = mk_case(n, [], 1, None, 2)
            out.append(c + [x])
            self.hist["block"]["elif-after-if"] = self.hist["block"].get("elif-after-if", 0) + 1
        # ---- block 7: character soup (exercises the model of Lexer.tokenize: maximal munch, exponents, quotes,
        # escapes, unknown characters); only I~M is compared
        alphabet = list("0019aeExXpuL._+-'\"\\ \t<=>&|!#()?:~%/*^,;@$`") + ["\x01", "\x7f", "\n", "\r"]
        for i in range(700 if quick else 15000):
            text = "".join(rng.choice(alphabet) for _ in range(rng.randint(0, 9)))
            out.append([text, [], 0, 0, 0])
            self.hist["block"]["char-soup"] = self.hist["block"].get("char-soup", 0) + 1
        return out

    # ------------------------------------------------------------ encoding for the driver
    KINDS = {"NumericalConstant": 0, "CharacterConstant": 1, "StringConstant": 2, "Identifier": 3,
             "Operator": 4, "Punctuator": 5, "Unknown": 6}

    def _toks(self, toks):
        return [[self.KINDS[type(t).__name__], str(t.token)] for t in toks]

    def encode(self, case):
        """M works on the tokens the real Lexer produces (the lexer is exercised by I-vs-S only);
        S works on the AST, with macro identifiers replaced by the AST of their (parenthesised) body."""
        _setup()
        from codebasin import preprocessor as pp
        text, env, ast, envast, _find = case[:5]
        toks = self._toks(pp.Lexer(text).tokenize())
        macros = []
        for n, b in env:
            m = pp.macro_from_definition_string(f"{n}={b}")
            macros.append([m.name, self._toks(m.replacement)])
        envd = {n: (None if b == 0 else b) for n, b in (envast or [])}
        bad = ["L", "", ""]
        subst = [False]

        def ea(n):
            k = n[0]
            if k == "L":
                r = U.render_lit(n)
                return ["L", r[:len(r) - len(n[3])], n[3]]
            if k == "C":
                return ["C", U.render_char(n)[1:-1]]
            if k == "I":
                if n[1] in envd:
                    subst[0] = True
                    return bad if envd[n[1]] is None else ea(envd[n[1]])
                return ["I", n[1]]
            if k == "D":
                return ["D", n[1], 1 if n[2] else 0]
            if k == "F":
                subst[0] = True
                return bad
            if k == "P":
                return ["P", ea(n[1])]
            if k == "U":
                return ["U", n[1], ea(n[2])]
            if k == "B":
                return ["B", n[1], ea(n[2]), ea(n[3])]
            if k == "T":
                return ["T", ea(n[1]), ea(n[2]), ea(n[3])]
            raise ValueError(n)
        e_ast = ea(ast) if ast else 0
        return enc([toks, macros, e_ast, 1 if (ast and not subst[0]) else 0, text.encode("latin-1", "replace")])

    # ------------------------------------------------------------ the implementation
    def impl(self, case):
        _setup()
        from codebasin import platform as cbplatform, preprocessor as pp
        text, env, _ast, _envast, find = case[:5]
        root = common.scratch()
        if find == 2:
            return self._elif_route(text, env, case[5][0])

        def canon(f):
            try:
                return ["Ok", 1 if f() else 0]
            except Exception as e:  # noqa
                return ["Err", type(e).__name__]

        def route_node():
            p = cbplatform.Platform("P", str(root))
            for n, b in env:
                m = pp.macro_from_definition_string(f"{n}={b}")
                p.define(m.name, m)
            node = pp.DirectiveParser(pp.Lexer("#if " + text).tokenize()).parse()
            if type(node) is not pp.IfNode:
                raise RuntimeError("not an IfNode")
            return node.evaluate_for_platform(platform=p, filename="x.c", state=None)
        ans = canon(route_node)
        if ans[0] == "Ok":
            # the value behind the truth (for the I~M comparison only)
            try:
                import numpy as np
                p = cbplatform.Platform("P", str(root))
                for n, b in env:
                    m = pp.macro_from_definition_string(f"{n}={b}")
                    p.define(m.name, m)
                v = pp.ExpressionEvaluator(pp.MacroExpander(p).expand(pp.Lexer(text).tokenize())).expression()
                ty = 1 if type(v) is np.uint64 else 0 if type(v) is np.int64 else type(v).__name__
                ans = ans + [int(v), ty]
            except Exception as e:  # noqa
                ans = ans + ["expression() raised", type(e).__name__]
        self.hist["impl_err"][ans[1] if ans[0] == "Err" else "Ok"] = self.hist["impl_err"].get(ans[1] if ans[0] == "Err" else "Ok", 0) + 1
        if not env and "defined" not in text:
            a2 = canon(lambda: pp.ExpressionEvaluator(pp.Lexer(text).tokenize()).evaluate())
            if a2 != ans[:2]:
                return ["Err", "RoutesDisagree", {"evaluate_for_platform": ans, "evaluate": a2}]
        if find:
            a3 = self._find_route(text, env)
            if a3 != ans[:2]:
                return ["Err", "RoutesDisagree", {"evaluate_for_platform": ans, "finder.find": a3}]
        return ans

    def _elif_route(self, text, env, elif_text):
        """which of the three groups of  #if text / #elif elif_text / #else  finder.find attributes: ["Ok", truth, which]"""
        import codebasin
        from codebasin import finder, preprocessor as pp
        root = common.scratch() / "c02e"
        if root.exists():
            shutil.rmtree(root)
        root.mkdir(parents=True)
        f = root / "main.c"
        f.write_text(f"#if {text}\nint a;\n#elif {elif_text}\nint b;\n#else\nint c;\n#endif\n")
        cb = codebasin.CodeBase(root)
        cfg = {"P": [{"file": str(f), "defines": [f"{n}={b}" for n, b in env], "include_paths": [], "include_files": []}]}
        try:
            state = finder.find(str(root), cb, cfg)
        except Exception as e:  # noqa
            return ["Err", type(e).__name__]
        tree = state.get_tree(str(f))
        amap = state.get_map(str(f))
        by_line = {tuple(n.lines): ("P" in amap[n]) for n in tree.walk() if isinstance(n, pp.CodeNode)}
        try:
            groups = [by_line[(2,)], by_line[(4,)], by_line[(6,)]]
            hdr = all(by_line[(k,)] for k in (1, 3, 5, 7))
        except KeyError:
            return ["Err", "NodeShapeMismatch"]
        if not hdr or sum(groups) != 1:
            return ["Err", "BranchAttribution", [hdr] + groups]
        which = groups.index(True)
        return ["Ok", 1 if which == 0 else 0, which]

    def _find_route(self, text, env):
        import codebasin
        from codebasin import finder, preprocessor as pp
        root = common.scratch() / "c02"
        if root.exists():
            shutil.rmtree(root)
        root.mkdir(parents=True)
        f = root / "main.c"
        f.write_text(f"#if {text}\nint yes;\n#else\nint no;\n#endif\n")
        cb = codebasin.CodeBase(root)
        cfg = {"P": [{"file": str(f), "defines": [f"{n}={b}" for n, b in env], "include_paths": [], "include_files": []}]}
        try:
            state = finder.find(str(root), cb, cfg)
        except Exception as e:  # noqa
            return ["Err", type(e).__name__]
        tree = state.get_tree(str(f))
        amap = state.get_map(str(f))
        by_line = {tuple(n.lines): ("P" in amap[n]) for n in tree.walk() if isinstance(n, pp.CodeNode)}
        try:
            yes, no = by_line[(2,)], by_line[(4,)]
            hdr = by_line[(1,)] and by_line[(3,)] and by_line[(5,)]
        except KeyError:
            return ["Err", "NodeShapeMismatch"]
        if not hdr or yes == no:
            return ["Err", "BranchAttribution", [hdr, yes, no]]
        return ["Ok", 1 if yes else 0]

    # ------------------------------------------------------------ views
    @staticmethod
    def _m(ans):
        return ans is not None and not isinstance(ans, str)

    def model_view(self, case, ans):
        if case[4] == 2:
            return None          # the chain is C01's model; here only I versus S
        m = ans[0]
        if len(ans) > 2 and ans[2] != "NA":
            self.tok_cmp += 1
            if ans[2] != 1 and len(self.tok_bad) < 5:
                self.tok_bad.append(case[0])
        if len(ans) > 3:
            self.lex_cmp += 1
            if ans[3] != 1:
                return ["Err", "LexerModelDisagrees"]
        if m[0] == "Ok":
            return ["Ok", m[1], m[2], m[3]]
        if m[1] == "Unsupported":
            return None
        return ["Err", m[1]]

    def impl_view_for_model(self, case, ia):
        return ia[:4] if ia[0] == "Ok" else ia[:2]

    def impl_view_for_spec(self, case, ia):
        if case[4] == 2 and ia[0] == "Ok":
            t_if = ia[1]
            x_truth = case[5][1]
            expected = 0 if t_if else (1 if x_truth else 2)
            return ["Ok", t_if] if ia[2] == expected else ["Err", "ElifAttribution", ia[2]]
        return ia[:2]

    def _s_full(self, case, ans):
        """full S answer ["Ok", truth, z, uns] / ["UB", ..] / None (no AST)"""
        if not case[2]:
            return None
        py = U.sem_canon(case[2], case_env(case))
        if self._m(ans):
            cq = ans[1]
            # inside the quantifier (the strict Python oracle is defined) the Coq S must give the same value;
            # outside, the Coq S may still be defined (it wraps on signed overflow), which is not compared
            if py[0] == "Ok" and cq != py and len(self.s_mismatch) < 5:
                self.s_mismatch.append({"case": case[0], "coq_S": cq, "python_oracle": py})
            if py[0] != "Ok":
                return py
            return cq if isinstance(cq, list) and cq[0] == "Ok" else ["UB", "coq:" + str(cq)]
        return py

    def spec(self, case, ans):
        s = self._s_full(case, ans)
        if s is None:
            return None
        return ["Ok", s[1]] if s[0] == "Ok" else s

    def in_domain(self, case, sa):
        if sa is None:
            why = "no-ast(malformed stream)"
        elif sa[0] != "Ok":
            why = "UB-or-gcc-diagnosed"
        else:
            return True
        self.hist["out_of_domain"][why] = self.hist["out_of_domain"].get(why, 0) + 1
        return False

    def nontrivial(self, case, ia):
        ast = case[2]
        if not ast:
            return False
        ops = U.ops_in(ast)
        d = U.depth(ast)
        self.hist["depth"][str(d)] = self.hist["depth"].get(str(d), 0) + 1
        for k, v in ops.items():
            self.hist["ops"][k] = self.hist["ops"].get(k, 0) + v
        levels = {U.LEVEL[o] for o in ops if o in U.LEVEL} | ({12} if any(o.startswith("u") for o in ops) else set()) | ({1} if "?:" in ops else set())
        text = case[0]
        return len(levels) >= 2 or bool(re.search(r"\d[uUlL]|0[xXbB]|\b0\d|'\\", text))

    # ------------------------------------------------------------ known-finding classes (NARROW)
    def classify(self, case, ia, sa):
        """hex-intmax-overflow: the implementation raises OverflowError AND the text contains an unsuffixed
        (no u/U) octal/hex/binary literal (in the expression or in a macro body) whose value is in [2^63, 2^64) AND replacing every such literal by
        its u-suffixed spelling makes the implementation agree with S."""
        if ia[:2] != ["Err", "OverflowError"]:
            return None
        text = case[0]
        pat = re.compile(r"(?<![\w.])(0[xX][0-9a-fA-F]+|0[bB][01]+|0[0-7]+)([lL]{0,2})(?![\w.])")
        hit = [False]

        def fix(m):
            digits = m.group(1)
            v = int(digits[2:], 16) if digits[1] in "xX" else int(digits[2:], 2) if digits[1] in "bB" else int(digits, 8)
            if (1 << 63) <= v <= U.M64:
                hit[0] = True
                return digits + "u" + m.group(2)
            return m.group(0)
        text2 = pat.sub(fix, text)
        env2 = [[n, pat.sub(fix, b)] for n, b in case[1]]
        if not hit[0]:
            return None
        ia2 = self.impl([text2, env2, 0, 0, 0])
        if ia2[:2] == sa:
            return "hex-intmax-overflow"
        return None

    # ------------------------------------------------------------ shrinking
    def shrink(self, case, still_fails):
        if len(case) > 5:
            return case
        text, env, ast, envast, find = case
        if not ast:
            chars = common.shrink_list(list(text), lambda cs: still_fails(["".join(cs), env, 0, 0, find]))
            text2 = "".join(chars)
            env2 = common.shrink_list(env, lambda e: still_fails([text2, e, 0, 0, find]))
            c = [text2, env2, 0, 0, find]
            if find and still_fails([text2, env2, 0, 0, 0]):
                c[4] = 0
            return c
        envl = [[n, (None if b == 0 else b)] for n, b in envast]

        def mk(a, e, fd):
            return mk_case(a, e, 1, None, fd)

        def cands(n):
            for c in U.children(n):
                yield c
            k = n[0]
            if k == "L":
                if n[4] != 0:
                    yield ["L", n[1], n[2], n[3], 0]
                for v in (0, 1, 2, n[2] // 2):
                    if v < n[2]:
                        yield ["L", n[1], v, n[3], n[4]]
                if n[3]:
                    yield ["L", n[1], n[2], "", n[4]]
                if n[1] != 10:
                    yield ["L", 10, n[2], n[3], 0]
            elif k in ("C", "I", "D"):
                yield U.lit(1)
                yield U.lit(0)
            elif k == "F":
                yield U.lit(0)
            if k == "U":
                for c in cands(n[2]):
                    yield ["U", n[1], c]
            elif k == "P":
                for c in cands(n[1]):
                    yield ["P", c]
            elif k == "B":
                for c in cands(n[2]):
                    yield ["B", n[1], c, n[3]]
                for c in cands(n[3]):
                    yield ["B", n[1], n[2], c]
            elif k == "T":
                for i in (1, 2, 3):
                    for c in cands(n[i]):
                        m = list(n)
                        m[i] = c
                        yield m
            elif k == "F":
                for i, a in enumerate(n[2]):
                    yield ["F", n[1], n[2][:i] + n[2][i + 1:]]
        cur = ast
        if find and still_fails(mk(cur, envl, 0)):
            find = 0
        steps = 0
        progress = True
        while progress and steps < 500:
            progress = False
            for c in cands(cur):
                steps += 1
                if steps >= 500:
                    break
                if U.size(c) <= U.size(cur) and c != cur and still_fails(mk(c, envl, find)):
                    cur = c
                    progress = True
                    break
        envl2 = common.shrink_list(envl, lambda e: still_fails(mk(cur, e, find)))
        return mk(cur, envl2, find)

    # ------------------------------------------------------------ S versus gcc
    def self_tests(self):
        problems = []
        if self.roundtrip_bad:
            problems.append(f"renderer round trip (ISO level-by-level parser) failed on {self.roundtrip_bad[0]}")
        if self.s_mismatch:
            problems.append(f"Coq S and the Python oracle disagree: {self.s_mismatch[0]}")
        if self.tok_bad:
            problems.append(f"Lexer(render(e)) differs from the Coq unparser `tokens dt_source 0 e` on {self.tok_bad[0]!r}")
        if shutil.which("gcc") is None:
            return problems
        rng = self.rng
        n = 250 if self.tier == "quick" else 6000
        items = []
        for _ in range(n):
            env = U.gen_env(rng)
            ast, val = U.gen_defined(rng, U.env_dict(env), rng.choice([1, 2, 3, 4, 5]))
            items.append((ast, env, val))
        # add every boundary literal / char constant form once
        for v in U.BOUNDARY:
            for base in (10, 8, 16, 2):
                lit = ["L", base, v, rng.choice(U.SUFFIXES), rng.randrange(4)]
                try:
                    items.append((lit, [], U.sem(lit, {})))
                except U.UB:
                    pass
        for _ in range(60):
            c = U.gen_char(rng)
            items.append((c, [], U.sem(c, {})))
        bad, dropped = self._gcc_batch(items)
        self.oracle_cases += len(items)
        self.oracle_dropped += dropped
        self.oracle_bad += bad
        if self.oracle_bad:
            problems.append(f"S disagrees with gcc -E on {len(self.oracle_bad)} of {self.oracle_cases} expressions: {self.oracle_bad[0]}")
        return problems

    def _gcc_batch(self, items):
        d = common.scratch() / "gcc02"
        d.mkdir(exist_ok=True)
        lines = []
        owner = []

        def put(s, i):
            lines.append(s)
            owner.append(i)
        for i, (ast, env, (z, u)) in enumerate(items):
            e = U.render(["P", ast], 1)
            k = U.render(U.ast_of_value(z, u), 1)
            for nm, body in env:
                put(f"#define {nm} " + ("" if body is None else U.render(body, 1)), i)
            put(f"#if {e} == {k}", i)
            put(f"t{i}_eq", i)
            put("#endif", i)
            put(f"#if ({e} - {k}) - 1 < 0", i)
            put(f"t{i}_signed", i)
            put("#endif", i)
            put(f"#if {U.render(ast, 1)}", i)
            put(f"t{i}_true", i)
            put("#endif", i)
            for nm, body in env:
                put(f"#undef {nm}", i)
        (d / "t.c").write_text("\n".join(lines) + "\n")
        p = subprocess.run(["gcc", "-E", "-P", "-undef", "-nostdinc", "-x", "c", "t.c"], cwd=d, capture_output=True, text=True)
        diagnosed = set()
        for m in re.finditer(r"t\.c:(\d+):", p.stderr):
            ln = int(m.group(1))
            if 1 <= ln <= len(owner):
                diagnosed.add(owner[ln - 1])
        toks = set(p.stdout.split())
        bad = []
        for i, (ast, env, (z, u)) in enumerate(items):
            if i in diagnosed:
                continue
            exp = {f"t{i}_eq"} | (set() if u else {f"t{i}_signed"}) | ({f"t{i}_true"} if z != 0 else set())
            got = {t for t in (f"t{i}_eq", f"t{i}_signed", f"t{i}_true") if t in toks}
            if exp != got:
                bad.append({"expr": U.render(ast, 1), "env": U.env_texts(env), "S": [z, u], "gcc_tokens": sorted(got), "expected": sorted(exp)})
        return bad, len(diagnosed)

    def extra_coverage(self):
        return {"spec_oracle_cases": self.oracle_cases, "spec_oracle_disagreements": len(self.oracle_bad),
                "spec_oracle_dropped_gcc_diagnosed": self.oracle_dropped,
                "input_distribution": self.hist,
                "coq_S_vs_python_oracle_mismatches": len(self.s_mismatch),
                "lexer_output_equals_coq_unparser": {"compared": self.tok_cmp, "different": len(self.tok_bad)},
                "lexer_model_vs_Lexer_tokenize_compared": self.lex_cmp}


CHECK = C02
