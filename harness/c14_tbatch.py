"""Runs in a FRESH interpreter (one per PYTHONHASHSEED): table-level reports of
codebasin.report for many tables, each under several dict insertion orders.

stdin : JSON  [{"orders": [order, ...], "porders": [[index, ...], ...]}, ...]
              order = [[names, count], ...] (contributions, in insertion order)
              porder = indices into the sorted platform list: the order in which they are handed to average_coverage
stdout: JSON  [[result, ...], ...]  one result per order
"""
import io
import json
import sys
import warnings
from collections import defaultdict

warnings.filterwarnings("ignore")
import logging  # noqa: E402

logging.disable(logging.CRITICAL)
from codebasin import report  # noqa: E402


def guard(f):
    try:
        return f()
    except Exception as e:  # noqa
        return ["Err", type(e).__name__]


def fx(x):
    if isinstance(x, list):
        return x
    x = float(x)
    return [x.hex(), format(x, ".2f")]


def one(order, porders):
    sm = defaultdict(int)
    for names, count in order:
        sm[frozenset(names)] += count
    sm = dict(sm)
    out = {}

    def summ():
        s = io.StringIO()
        report.summary(sm, stream=s)
        return s.getvalue()
    out["summary"] = guard(summ)
    plats = sorted(report.extract_platforms(sm))
    out["plats"] = plats
    out["matrix"] = [[fx(guard(lambda: report.distance(sm, p, q))) for q in plats] for p in plats]
    out["div"] = fx(guard(lambda: report.divergence(sm)))
    out["cov"] = fx(guard(lambda: report.coverage(sm)))
    out["avg"] = fx(guard(lambda: report.average_coverage(sm)))
    # the platforms handed over explicitly, as a list in a given order (what cbi-tree does with root.platforms)
    out["avgp"] = [fx(guard(lambda: report.average_coverage(sm, [plats[i] for i in ix]))) for ix in porders]
    return out


def main():
    tables = json.load(sys.stdin)
    json.dump([[one(o, t["porders"]) for o in t["orders"]] for t in tables], sys.stdout)


if __name__ == "__main__":
    main()
