"""C02 helpers: expression ASTs, rendering to text, an independent ISO C reference
evaluator (Python oracle for S), generators and a reference parser.

AST (JSON lists):
  ["L", base, value, suffix, style]   integer literal, base in {10, 8, 16, 2}; suffix spelling e.g. "uLL"
                                      style bit0: upper-case prefix (0X / 0B), bit1: upper-case hex digits,
                                      bits 2..: number of extra leading zeros (bases 8/16/2 only)
  ["C", kind, value, nd]              character constant; kind 0 plain, 1 simple escape, 2 octal escape with nd digits,
                                      3 hex escape with nd digits (lower case), 4 hex escape upper case digits
  ["I", name]                         identifier (macro from the environment, otherwise an unknown identifier = 0)
  ["D", name, form]                   defined X (0) / defined(X) (1) / defined ( X ) (2)
  ["F", name, [args]]                 function-like call that survives expansion (CBI: 0; ISO C / gcc: syntax error)
  ["U", op, e]   ["B", op, l, r]   ["T", c, a, b]   ["P", e] (explicit parentheses)

Nothing in this file imports codebasin: precedence levels and literal rules below
are ISO C's (6.5, 6.4.4.1, 6.4.4.4, 6.10.1), written independently of the tables
in preprocessor.py.
"""
from __future__ import annotations

M64 = (1 << 64) - 1
I64MAX = (1 << 63) - 1
I64MIN = -(1 << 63)

# ISO C grammar levels (6.5.5 ... 6.5.15); higher binds tighter
LEVEL = {"*": 11, "/": 11, "%": 11, "+": 10, "-": 10, "<<": 9, ">>": 9,
         "<": 8, "<=": 8, ">": 8, ">=": 8, "==": 7, "!=": 7, "&": 6, "^": 5, "|": 4, "&&": 3, "||": 2}
BINOPS = list(LEVEL)
UNOPS = ["-", "+", "!", "~"]
SUFFIXES = ["", "u", "U", "l", "L", "ul", "uL", "Ul", "UL", "lu", "lU", "Lu", "LU", "ll", "LL",
            "ull", "uLL", "Ull", "ULL", "llu", "llU", "LLu", "LLU"]
SIMPLE_ESC = {"n": 10, "t": 9, "r": 13, "a": 7, "b": 8, "f": 12, "v": 11, "\\": 92, "'": 39, '"': 34, "?": 63, "0": 0}
SIMPLE_BY_VAL = {10: "n", 9: "t", 13: "r", 7: "a", 8: "b", 12: "f", 11: "v", 92: "\\", 39: "'", 34: '"', 63: "?"}


class UB(Exception):
    """undefined behaviour / outside the property's quantifier"""


# ------------------------------------------------------------------ rendering
def render_lit(n):
    _, base, value, suffix, style = n
    up_prefix, up_digits, zeros = style & 1, style & 2, style >> 2
    if base == 10:
        s = str(value)
    elif base == 8:
        s = "0" + "0" * zeros + format(value, "o")
    elif base == 16:
        d = format(value, "X" if up_digits else "x")
        s = ("0X" if up_prefix else "0x") + "0" * zeros + d
    elif base == 2:
        s = ("0B" if up_prefix else "0b") + "0" * zeros + format(value, "b")
    else:
        raise ValueError(base)
    return s + suffix


def render_char(n):
    _, kind, value, nd = n
    if kind == 0:
        return "'" + chr(value) + "'"
    if kind == 1:
        return "'\\" + ("0" if value == 0 and nd == 1 else SIMPLE_BY_VAL[value]) + "'"
    if kind == 2:
        return "'\\" + format(value, "o").rjust(nd, "0") + "'"
    if kind == 3:
        return "'\\x" + format(value, "x").rjust(nd, "0") + "'"
    if kind == 4:
        return "'\\x" + format(value, "X").rjust(nd, "0") + "'"
    raise ValueError(kind)


def level_of(n):
    k = n[0]
    if k == "B":
        return LEVEL[n[1]]
    if k == "T":
        return 1
    if k == "U":
        return 12
    return 13


def lexemes(n, need=0):
    """Token spellings of n with the minimal parentheses C's grammar requires when n
    stands where an expression of grammar level >= need is expected."""
    k = n[0]
    if level_of(n) < need:
        return ["("] + lexemes(n, 0) + [")"]
    if k == "L":
        return [render_lit(n)]
    if k == "C":
        return [render_char(n)]
    if k == "I":
        return [n[1]]
    if k == "D":
        return [["defined", n[1]], ["defined", "(", n[1], ")"], ["defined", "(", n[1], ")"]][n[2]]
    if k == "F":
        out = [n[1], "("]
        for i, a in enumerate(n[2]):
            if i:
                out.append(",")
            out += lexemes(a, 0)
        return out + [")"]
    if k == "P":
        return ["("] + lexemes(n[1], 0) + [")"]
    if k == "U":
        return [n[1]] + lexemes(n[2], 12)
    if k == "B":
        p = LEVEL[n[1]]
        return lexemes(n[2], p) + [n[1]] + lexemes(n[3], p + 1)
    if k == "T":
        return lexemes(n[1], 2) + ["?"] + lexemes(n[2], 0) + [":"] + lexemes(n[3], 1)
    raise ValueError(n)


_OPCH = set("+-*/%<>=!&|^~?:")


def must_space(a, b):
    """True when writing lexemes a and b without a blank could change the tokenisation."""
    x, y = a[-1], b[0]
    if (x.isalnum() or x == "_" or x == "'") and (y.isalnum() or y == "_" or y == "'" or y == "."):
        return True
    if x in _OPCH and y in _OPCH:
        return True
    if x in "eEpP" and y in "+-" and (a[0].isdigit() or a[0] == "."):
        return True
    return False


def join(lex, spacing=1, rng=None):
    """spacing 0: as tight as is safe; 1: one blank between all lexemes; 2: random"""
    out = [lex[0]] if lex else []
    for a, b in zip(lex, lex[1:]):
        if must_space(a, b):
            sp = " "
        elif spacing == 0:
            sp = ""
        elif spacing == 1:
            sp = " "
        else:
            sp = rng.choice(["", " ", " ", "  ", "\t"])
        out.append(sp + b)
    return "".join(out)


def render(n, spacing=1, rng=None):
    return join(lexemes(n, 0), spacing, rng)


# ------------------------------------------------------------------ ISO C reference semantics
LEGAL_SUFFIX = set(SUFFIXES)


def lit_value(n):
    _, base, value, suffix, style = n
    if suffix not in LEGAL_SUFFIX or value < 0:
        raise UB("bad literal")
    uns = "u" in suffix.lower()
    if value > M64:
        raise UB("literal too large (gcc diagnoses)")
    if uns:
        return (value, True)
    if value <= I64MAX:
        return (value, False)
    if base == 10:
        raise UB("unsuffixed decimal that only fits unsigned (gcc warns)")
    return (value, True)          # 6.4.4.1p5: octal/hex (and binary) literals take the unsigned type


def char_value(n):
    _, kind, value, nd = n
    if not 0 <= value < 128:
        raise UB("character value with implementation-defined sign / out of range")
    return (value, False)


def _wrap(z, uns):
    if uns:
        return (z & M64, True)
    if not I64MIN <= z <= I64MAX:
        raise UB("signed overflow")
    return (z, False)


def _conv(a, b):
    """usual arithmetic conversions"""
    uns = a[1] or b[1]
    if uns:
        return a[0] & M64, b[0] & M64, True
    return a[0], b[0], False


def _tdiv(x, y):
    q = abs(x) // abs(y)
    return q if (x < 0) == (y < 0) else -q


def sem(n, env):
    """ISO C value (z, unsigned) of AST n under env: {macro name: AST of its body or None for an empty body};
    raises UB outside the property's quantifier."""
    k = n[0]
    if k == "L":
        return lit_value(n)
    if k == "C":
        return char_value(n)
    if k == "I":
        if n[1] in env:
            body = env[n[1]]
            if body is None:
                raise UB("empty macro in arithmetic")
            return sem(body, {})
        return (0, False)
    if k == "D":
        return (1 if n[1] in env else 0, False)
    if k == "F":
        raise UB("call syntax is an error in ISO C")
    if k == "P":
        return sem(n[1], env)
    if k == "U":
        v = sem(n[2], env)
        op = n[1]
        if op == "+":
            return v
        if op == "-":
            return _wrap(-v[0], v[1])
        if op == "~":
            return _wrap(~v[0], v[1])
        if op == "!":
            return (0 if v[0] else 1, False)
    if k == "T":
        c = sem(n[1], env)
        # the unselected operand is not evaluated, but its TYPE takes part in the conversion
        ta, tb = type_of(n[2], env), type_of(n[3], env)
        r = sem(n[2] if c[0] else n[3], env)
        uns = ta or tb
        return (r[0] & M64, True) if uns else r
    if k == "B":
        op = n[1]
        if op == "&&":
            a = sem(n[2], env)
            if not a[0]:
                check_static(n[3], env)
                return (0, False)
            return (1 if sem(n[3], env)[0] else 0, False)
        if op == "||":
            a = sem(n[2], env)
            if a[0]:
                check_static(n[3], env)
                return (1, False)
            return (1 if sem(n[3], env)[0] else 0, False)
        a, b = sem(n[2], env), sem(n[3], env)
        if op in ("<<", ">>"):
            cnt = b[0]
            if not 0 <= cnt < 64:
                raise UB("shift count")
            if op == "<<":
                if a[1]:
                    return ((a[0] << cnt) & M64, True)
                if a[0] < 0:
                    raise UB("left shift of a negative value")
                return _wrap(a[0] << cnt, False)
            return (a[0] >> cnt, a[1])          # arithmetic shift for negative signed values (gcc; impl.-defined in ISO C)
        x, y, uns = _conv(a, b)
        if op == "*":
            return _wrap(x * y, uns)
        if op == "+":
            return _wrap(x + y, uns)
        if op == "-":
            return _wrap(x - y, uns)
        if op in ("/", "%"):
            if y == 0:
                raise UB("division by zero")
            q = _tdiv(x, y)
            if not uns and not I64MIN <= q <= I64MAX:
                raise UB("INT64_MIN / -1")
            return _wrap(q if op == "/" else x - q * y, uns)
        if op == "&":
            return _wrap(x & y, uns)
        if op == "|":
            return _wrap(x | y, uns)
        if op == "^":
            return _wrap(x ^ y, uns)
        r = {"<": x < y, "<=": x <= y, ">": x > y, ">=": x >= y, "==": x == y, "!=": x != y}[op]
        return (1 if r else 0, False)
    raise ValueError(n)


def type_of(n, env):
    """static type (True = unsigned) of n; raises UB for lexically invalid leaves"""
    k = n[0]
    if k == "L":
        return lit_value(n)[1]
    if k == "C":
        return char_value(n)[1]
    if k == "I":
        if n[1] in env:
            if env[n[1]] is None:
                raise UB("empty macro in arithmetic")
            return type_of(env[n[1]], {})
        return False
    if k == "D":
        return False
    if k == "F":
        raise UB("call")
    if k == "P":
        return type_of(n[1], env)
    if k == "U":
        t = type_of(n[2], env)
        return False if n[1] == "!" else t
    if k == "T":
        type_of(n[1], env)
        a, b = type_of(n[2], env), type_of(n[3], env)
        return a or b
    if k == "B":
        a, b = type_of(n[2], env), type_of(n[3], env)
        if n[1] in ("<<", ">>"):
            return a
        if n[1] in ("*", "/", "%", "+", "-", "&", "|", "^"):
            return a or b
        return False
    raise ValueError(n)


def check_static(n, env):
    """an unevaluated operand must still be lexically and syntactically valid"""
    type_of(n, env)


def sem_canon(n, env):
    """["Ok", truth, z, unsigned] or ["UB", reason]"""
    try:
        z, u = sem(n, env)
    except UB as e:
        return ["UB", str(e)]
    return ["Ok", 1 if z != 0 else 0, z, 1 if u else 0]


# ------------------------------------------------------------------ literals for a value
def lit(value, base=10, suffix="", style=0):
    return ["L", base, value, suffix, style]


def ast_of_value(z, uns):
    """an expression (without UB) whose ISO value is (z, uns)"""
    if uns:
        return lit(z, 10, "u")
    if z >= 0:
        return lit(z)
    if z == I64MIN:
        return ["P", ["B", "-", ["U", "-", lit(I64MAX)], lit(1)]]
    return ["P", ["U", "-", lit(-z)]]


def size(n):
    k = n[0]
    if k in ("L", "C", "I", "D"):
        return 1
    if k == "F":
        return 1 + sum(size(a) for a in n[2])
    if k == "P":
        return size(n[1])
    if k == "U":
        return 1 + size(n[2])
    if k == "B":
        return 1 + size(n[2]) + size(n[3])
    if k == "T":
        return 1 + size(n[1]) + size(n[2]) + size(n[3])
    raise ValueError(n)


def depth(n):
    k = n[0]
    if k in ("L", "C", "I", "D"):
        return 0
    if k == "F":
        return 1 + max([depth(a) for a in n[2]] + [0])
    if k == "P":
        return depth(n[1])
    if k == "U":
        return 1 + depth(n[2])
    if k == "B":
        return 1 + max(depth(n[2]), depth(n[3]))
    return 1 + max(depth(n[1]), depth(n[2]), depth(n[3]))


def ops_in(n, acc=None):
    acc = {} if acc is None else acc
    k = n[0]
    if k == "U":
        acc["u" + n[1]] = acc.get("u" + n[1], 0) + 1
        ops_in(n[2], acc)
    elif k == "B":
        acc[n[1]] = acc.get(n[1], 0) + 1
        ops_in(n[2], acc)
        ops_in(n[3], acc)
    elif k == "T":
        acc["?:"] = acc.get("?:", 0) + 1
        for c in n[1:]:
            ops_in(c, acc)
    elif k == "P":
        ops_in(n[1], acc)
    elif k == "F":
        acc["call"] = acc.get("call", 0) + 1
        for a in n[2]:
            ops_in(a, acc)
    else:
        acc["leaf" + k] = acc.get("leaf" + k, 0) + 1
    return acc


def strip_parens(n):
    k = n[0]
    if k == "P":
        return strip_parens(n[1])
    if k == "U":
        return ["U", n[1], strip_parens(n[2])]
    if k == "B":
        return ["B", n[1], strip_parens(n[2]), strip_parens(n[3])]
    if k == "T":
        return ["T", strip_parens(n[1]), strip_parens(n[2]), strip_parens(n[3])]
    if k == "F":
        return ["F", n[1], [strip_parens(a) for a in n[2]]]
    return n


# ------------------------------------------------------------------ reference parser (ISO grammar, one function per level)
class RefParser:
    """Recursive descent straight from the ISO C grammar (6.5.1-6.5.15), over lexeme lists produced by
    `lexemes`.  Used only to validate the renderer: parse(lexemes(ast)) == strip_parens(ast).
    Leaves are returned as ["X", spelling]."""

    LEVELS = [["||"], ["&&"], ["|"], ["^"], ["&"], ["==", "!="], ["<", "<=", ">", ">="], ["<<", ">>"], ["+", "-"], ["*", "/", "%"]]

    def __init__(self, lex):
        self.l = lex
        self.p = 0

    def peek(self):
        return self.l[self.p] if self.p < len(self.l) else None

    def take(self, x=None):
        t = self.peek()
        if t is None or (x is not None and t != x):
            raise SyntaxError(f"expected {x} at {self.p}")
        self.p += 1
        return t

    def conditional(self):
        c = self.binary(0)
        if self.peek() == "?":
            self.take()
            a = self.conditional_or_expr()
            self.take(":")
            b = self.conditional()
            return ["T", c, a, b]
        return c

    def conditional_or_expr(self):
        return self.conditional()

    def binary(self, i):
        if i == len(self.LEVELS):
            return self.unary()
        l = self.binary(i + 1)
        while self.peek() in self.LEVELS[i]:
            op = self.take()
            r = self.binary(i + 1)
            l = ["B", op, l, r]
        return l

    def unary(self):
        if self.peek() in UNOPS:
            op = self.take()
            return ["U", op, self.unary()]
        return self.primary()

    def primary(self):
        t = self.take()
        if t == "(":
            e = self.conditional()
            self.take(")")
            return e
        if t == "defined":
            if self.peek() == "(":
                self.take()
                x = self.take()
                self.take(")")
            else:
                x = self.take()
            return ["X", "defined " + x]
        if t in LEVEL or t in UNOPS or t in (")", "?", ":", ","):
            raise SyntaxError(t)
        return ["X", t]


def leaves_to_x(n):
    k = n[0]
    if k in ("L",):
        return ["X", render_lit(n)]
    if k == "C":
        return ["X", render_char(n)]
    if k == "I":
        return ["X", n[1]]
    if k == "D":
        return ["X", "defined " + n[1]]
    if k == "U":
        return ["U", n[1], leaves_to_x(n[2])]
    if k == "B":
        return ["B", n[1], leaves_to_x(n[2]), leaves_to_x(n[3])]
    if k == "T":
        return ["T", leaves_to_x(n[1]), leaves_to_x(n[2]), leaves_to_x(n[3])]
    if k == "P":
        return leaves_to_x(n[1])
    raise ValueError(n)


def children(n):
    k = n[0]
    if k in ("L", "C", "I", "D"):
        return []
    if k == "F":
        return list(n[2])
    if k == "P":
        return [n[1]]
    if k == "U":
        return [n[2]]
    if k == "B":
        return [n[2], n[3]]
    return [n[1], n[2], n[3]]


def has_call(n):
    return n[0] == "F" or any(has_call(c) for c in children(n))


def renderer_roundtrip_ok(n):
    """parse(lexemes(n)) with the level-by-level ISO parser gives back n (modulo parentheses)"""
    if has_call(n):
        return True
    lex = lexemes(n, 0)
    p = RefParser(lex)
    try:
        got = p.conditional()
    except SyntaxError:
        return False
    return p.p == len(lex) and got == leaves_to_x(n)


# ------------------------------------------------------------------ generators
BOUNDARY = [0, 1, 2, 3, 7, 8, 63, 64, 255, (1 << 31) - 1, 1 << 31, (1 << 31) + 1, (1 << 32) - 1, 1 << 32,
            I64MAX - 1, I64MAX, 1 << 63, (1 << 63) + 1, M64 - 1, M64]
SMALL = [0, 1, 2, 3, 5, 7, 8, 10, 15, 16, 31, 32, 63, 100, 255]
NAMES_DEF = ["A", "B_1", "ZED"]        # may be defined by the environment
NAMES_UNK = ["foo", "_x", "unknownName", "true", "__cplusplus"]   # never defined


def gen_literal(rng, small=False):
    r = rng.random()
    if small or r < 0.55:
        v = rng.choice(SMALL)
    elif r < 0.85:
        v = rng.choice(BOUNDARY)
    else:
        v = rng.getrandbits(rng.choice([8, 16, 33, 62, 63, 64]))
    base = rng.choice([10, 10, 10, 16, 16, 8, 2])
    suffix = rng.choice(SUFFIXES) if rng.random() < 0.45 else ""
    style = rng.randrange(4) + 4 * (rng.choice([0, 0, 0, 1, 2]) if base != 10 else 0)
    n = ["L", base, v, suffix, style]
    # keep the literal inside the quantifier: unsuffixed decimals must fit intmax_t
    try:
        lit_value(n)
    except UB:
        n = ["L", base, v, rng.choice(["u", "U", "ull", "LLU", "uL"]), style]
    return n


def gen_char(rng):
    r = rng.random()
    if r < 0.45:
        v = rng.choice([c for c in range(32, 127) if c not in (39, 92)])
        return ["C", 0, v, 0]
    if r < 0.70:
        v = rng.choice(list(SIMPLE_BY_VAL))
        return ["C", 1, v, 0]
    if r < 0.75:
        return ["C", 1, 0, 1]
    v = rng.randrange(128)
    if r < 0.88:
        nd = rng.randint(len(format(v, "o")), 3)
        return ["C", 2, v, nd]
    nd = rng.randint(len(format(v, "x")), 4)
    return ["C", rng.choice([3, 4]), v, nd]


def gen_leaf(rng, envnames, small=False):
    r = rng.random()
    if r < 0.62:
        return gen_literal(rng, small)
    if r < 0.74:
        return gen_char(rng)
    if r < 0.84:
        return ["D", rng.choice(NAMES_DEF + NAMES_UNK[:2]), rng.randrange(3)]
    if r < 0.93:
        nonempty = [x for x in envnames if envnames[x] is not None]
        if nonempty and rng.random() < 0.6:
            return ["I", rng.choice(nonempty)]
        return ["I", rng.choice([x for x in NAMES_DEF + NAMES_UNK if x not in envnames])]
    return ["I", rng.choice(NAMES_UNK)]


def gen_any(rng, env, d):
    """any syntactically valid expression (may have UB)"""
    if d <= 0 or rng.random() < 0.25:
        return gen_leaf(rng, env)
    r = rng.random()
    if r < 0.18:
        return ["U", rng.choice(UNOPS), gen_any(rng, env, d - 1)]
    if r < 0.28:
        return ["T", gen_any(rng, env, d - 1), gen_any(rng, env, d - 1), gen_any(rng, env, d - 1)]
    if r < 0.36:
        return ["P", gen_any(rng, env, d - 1)]
    return ["B", rng.choice(BINOPS), gen_any(rng, env, d - 1), gen_any(rng, env, d - 1)]


def gen_defined(rng, env, d):
    """an expression without UB, built bottom-up with its value known: returns (ast, (z, uns))"""
    for _ in range(12):
        if d <= 0 or rng.random() < 0.22:
            n = gen_leaf(rng, env, small=rng.random() < 0.4)
        else:
            r = rng.random()
            if r < 0.17:
                n = ["U", rng.choice(UNOPS), gen_defined(rng, env, d - 1)[0]]
            elif r < 0.27:
                c, cv = gen_defined(rng, env, d - 1)
                live = gen_defined(rng, env, d - 1)[0]
                dead = gen_any(rng, env, min(d - 1, 2)) if rng.random() < 0.5 else gen_defined(rng, env, d - 1)[0]
                n = ["T", c, live, dead] if cv[0] else ["T", c, dead, live]
            elif r < 0.33:
                n = ["P", gen_defined(rng, env, d - 1)[0]]
            else:
                op = rng.choice(BINOPS)
                l, lv = gen_defined(rng, env, d - 1)
                if op in ("&&", "||") and ((op == "&&") != bool(lv[0])) and rng.random() < 0.5:
                    rgt = gen_any(rng, env, min(d - 1, 2))      # unevaluated: may divide by zero etc.
                elif op in ("<<", ">>"):
                    rgt = lit(rng.choice([0, 1, 2, 3, 7, 31, 32, 62, 63]), rng.choice([10, 16, 8]), rng.choice(["", "", "u"]), 0)
                else:
                    rgt = gen_defined(rng, env, d - 1)[0]
                n = ["B", op, l, rgt]
        try:
            return n, sem(n, env)
        except UB:
            continue
    n = gen_literal(rng, True)
    return n, sem(n, env)


def gen_env(rng):
    """environment: list of [name, body AST or None]; bodies contain no identifiers"""
    env = []
    for nm in NAMES_DEF:
        r = rng.random()
        if r < 0.45:
            continue
        if r < 0.55:
            env.append([nm, None])
        elif r < 0.8:
            env.append([nm, gen_literal(rng)])
        else:
            body, _ = gen_defined(rng, {}, 2)
            body = closed_body(body, rng)
            env.append([nm, ["P", body]])
    return env


def closed_body(n, rng):
    """replace identifiers/defined in a macro body by literals (bodies are identifier-free)"""
    k = n[0]
    if k in ("I", "D"):
        return gen_literal(rng, True)
    if k in ("L", "C"):
        return n
    if k == "U":
        return ["U", n[1], closed_body(n[2], rng)]
    if k == "P":
        return ["P", closed_body(n[1], rng)]
    if k == "B":
        return ["B", n[1], closed_body(n[2], rng), closed_body(n[3], rng)]
    if k == "T":
        return ["T", closed_body(n[1], rng), closed_body(n[2], rng), closed_body(n[3], rng)]
    raise ValueError(n)


def env_dict(env):
    return {nm: body for nm, body in env}


def env_texts(env):
    """[[name, replacement text]] as handed to -D / Platform.define and to the model"""
    out = []
    for nm, body in env:
        out.append([nm, "" if body is None else render(body, 1)])
    return out


def wrappers(n, val):
    """expressions that make the VALUE and the TYPE of n observable through a truth value"""
    z, u = val
    k = ast_of_value(z, u)
    e = ["P", n]
    return [["B", "==", e, k],
            ["B", "!=", e, k],
            ["B", "<", ["B", "-", ["B", "-", e, k], lit(1)], lit(0)]]


# exhaustive enumeration ---------------------------------------------------------------
def enum_asts(nops, leaves, binops=None, unops=None, ternary=True):
    """all ASTs with exactly nops operators over the given leaves"""
    binops = BINOPS if binops is None else binops
    unops = UNOPS if unops is None else unops
    memo = {}

    def go(k):
        if k in memo:
            return memo[k]
        if k == 0:
            res = list(leaves)
        else:
            res = []
            for e in go(k - 1):
                for op in unops:
                    res.append(["U", op, e])
            for a in range(0, k):
                for l in go(a):
                    for r in go(k - 1 - a):
                        for op in binops:
                            res.append(["B", op, l, r])
            if ternary:
                for a in range(0, k):
                    for b in range(0, k - a):
                        for c in go(a):
                            for x in go(b):
                                for y in go(k - 1 - a - b):
                                    res.append(["T", c, x, y])
        memo[k] = res
        return res
    return go(nops)
