"""Runs in a FRESH interpreter, cwd = the code base root: the three command-line
tools, each through runpy exactly as `python -m <module>` would run it, with
stdout redirected at file-descriptor level (report functions bind sys.stdout
at import time).  argv: the analysis file, the compilation database for the
coverage tool."""
import os
import runpy
import sys
import warnings

warnings.filterwarnings("ignore")


def run(module, argv, out):
    sys.stdout.flush()
    fd = os.open(out, os.O_WRONLY | os.O_CREAT | os.O_TRUNC, 0o644)
    saved = os.dup(1)
    os.dup2(fd, 1)
    os.close(fd)
    old = sys.argv
    sys.argv = argv
    rc = 0
    try:
        runpy.run_module(module, run_name="__main__", alter_sys=True)
    except SystemExit as e:
        rc = e.code if isinstance(e.code, int) else (0 if e.code is None else 1)
    except BaseException as e:  # noqa
        rc = 70
        print("RUNNER-EXC", type(e).__name__, e)
    finally:
        sys.stdout.flush()
        os.dup2(saved, 1)
        os.close(saved)
        sys.argv = old
    return rc


def main():
    toml, db = sys.argv[1], sys.argv[2]
    rcs = [
        run("codebasin", ["codebasin", toml], "out_main.txt"),
        run("codebasin.tree", ["codebasin.tree", toml], "out_tree.txt"),
        run("codebasin.coverage", ["codebasin.coverage", "compute", "-S", ".", "-o", "coverage.json", db], "out_cov.txt"),
    ]
    with open("out_rc.txt", "w") as f:
        f.write(" ".join(map(str, rcs)))


if __name__ == "__main__":
    main()
