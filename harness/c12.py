"""C12 — compiler emulation: aliases, implicit options, modes, passes.

I = codebasin.config (ArgumentParser(argv0).parse_args(argv) for a SEQUENCE of
commands in one process, each case in a fresh working directory holding the
generated .cbi/config, with config._compilers reset once per case)
M = Model/C12.v (extracted), S = Spec/C12.v (extracted, answers "NA" for command
lines outside its scanner)."""
from __future__ import annotations

import importlib.util
import io
import itertools
import json
import logging
import os
import re
import shutil
import contextlib
from pathlib import Path

from . import common
from .common import Check, enc

_spec = importlib.util.spec_from_file_location("c12_tables", common.VERIF / "tools" / "gen" / "c12_tables.py")
T = importlib.util.module_from_spec(_spec)
_spec.loader.exec_module(T)

DEST_NUM = {"defines": 0, "include_paths": 1, "include_files": 2, "modes": 3, "passes": 4}
BUILTIN = ["gcc", "g++", "clang", "clang++", "icx", "icpx", "nvcc"]
USER_NAMES = ["cc0", "cc1", "cc2", "my-cc", "x"]
FLAG_POOL = ["-fa", "-fab", "-fb", "--long", "--long-x", "-m", "-X", "-q", "-fopenmp", "-march", "--gpu-code", "-fsycl-targets",
             "-W1", "-7", "--t"]
MODE_NAMES = ["m0", "m1", "m2", "openmp", "sycl"]
PASS_NAMES = ["p0", "p1", "p-x", "p-y", "default", "sm_70", "sm_80", "7", "12", "p-7", "p-12"]
DEFS = ["A", "B=1", "C", "_OPENMP", "__X__=2"]
PATHS = ["inc", "/usr/inc", "a/b", "."]
FILES = ["f.h", "pre.h"]


# ---------------------------------------------------------------- TOML rendering
def tq(s):
    return json.dumps(s)


def tlist(l):
    return "[" + ", ".join(tq(x) for x in l) + "]"


def render_toml(user):
    out = []
    for name, d in user:
        key = f"compiler.{tq(name)}"
        out.append(f"[{key}]")
        if "alias_of" in d:
            out.append(f"alias_of = {tq(d['alias_of'])}")
        if "options" in d:
            out.append(f"options = {tlist(d['options'])}")
        for sect in ("parser", "modes", "passes"):
            if sect in d and not d[sect]:
                out.append(f"{sect} = []")
        for sect in ("parser", "modes", "passes"):
            for o in d.get(sect, []):
                out.append(f"[[{key}.{sect}]]")
                for k, v in o.items():
                    if isinstance(v, bool):
                        out.append(f"{k} = {'true' if v else 'false'}")
                    elif isinstance(v, list):
                        out.append(f"{k} = {tlist(v)}")
                    else:
                        out.append(f"{k} = {tq(v)}")
        out.append("")
    return "\n".join(out)


# ---------------------------------------------------------------- encoding for the driver
def opt(x, f=lambda y: y):
    return [] if x is None else [f(x)]


def enc_rule(r):
    a = r["act"]
    if a[0] == "SS":
        act = ["SS", a[1], a[2] or []]
    elif a[0] == "EM":
        act = ["EM", a[1], a[2] or [], a[3]]
    else:
        act = a
    return [r["flags"], act, DEST_NUM[r["dest"]], opt(r["default"])]


def enc_udef(u):
    if u[0] == "A":
        return ["A", u[1]]
    return ["C", opt(u[1]),
            opt(u[2], lambda rs: [enc_rule(r) for r in rs]),
            opt(u[3], lambda ms: [[m["name"], m["defines"], m["include_paths"], m["include_files"]] for m in ms]),
            opt(u[4], lambda ps: [[p["name"], p["defines"], p["include_paths"], p["include_files"], p["modes"]] for p in ps])]


# ---------------------------------------------------------------- generators
def gen_values(rng, rule):
    a = rule.get("action")
    if a == "store_split":
        sep = rule["sep"]
        parts = [rng.choice(["x", "y", "0", "7", "12", "", "spir64", "a b"]) for _ in range(rng.randint(1, 3))]
        return sep.join(parts)
    if a == "extend_match":
        pf = T.pattern_of(rule["pattern"]) or [""]
        chunks = []
        for _ in range(rng.randint(0, 3)):
            r = rng.random()
            if r < 0.6:
                chunks.append(rng.choice(pf) + rng.choice(["7", "12", "70", "80", "007"]))
            elif r < 0.8:
                chunks.append(rng.choice(pf))
            else:
                chunks.append(rng.choice(["zz", "=", "arch=", "9", "_"]))
        return rng.choice([",", "", "=", ",code="]).join(chunks)
    return rng.choice(["v", "m0", "m1", "p0", "p1", "A", "B=1", "inc", "f.h", "default"])


BUILTIN_FLAGS = {"-fopenmp", "-fsycl", "-fsycl-is-device", "-fsycl-targets", "--gpu-architecture", "--gpu-code", "-gencode"}


def gen_rule(rng, used_flags, allow_conflict=False):
    pool = [f for f in FLAG_POOL if f not in used_flags and (allow_conflict or f not in BUILTIN_FLAGS)]
    if not pool:
        return None
    flags = rng.sample(pool, min(len(pool), rng.choice([1, 1, 1, 2, 3])))
    kind = rng.choice(["append_const", "append_const", "append", "store_split", "store_split", "extend_match", "extend_match"])
    r = {"flags": flags, "action": kind}
    if kind == "append_const":
        r["dest"] = rng.choice(["modes", "modes", "modes", "defines", "passes", "include_paths", "include_files"])
        r["const"] = rng.choice(MODE_NAMES if r["dest"] == "modes" else PASS_NAMES if r["dest"] == "passes" else DEFS)
    elif kind == "append":
        r["dest"] = rng.choice(["modes", "defines", "passes", "include_paths", "include_files"])
    elif kind == "store_split":
        r["dest"] = rng.choice(["passes", "passes", "passes", "modes", "defines"])
        r["sep"] = rng.choice([",", ",", ":", "+"])
        if rng.random() < 0.6:
            r["format"] = rng.choice(["p-$value", "$value", "p$value-x", "sm_$value"])
        if rng.random() < 0.6:
            r["default"] = rng.sample(PASS_NAMES, rng.randint(0, 2))
    else:
        r["dest"] = rng.choice(["passes", "passes", "passes", "modes", "defines"])
        r["pattern"] = rng.choice([r"(?:sm_|compute_)(\d+)", r"(\d+)", r"(?:a|ab)(\d+)", r"(?:p)(\d+)"])
        if rng.random() < 0.6:
            r["format"] = rng.choice(["p-$value", "$value", "sm_$value"])
        if rng.random() < 0.7:
            r["default"] = rng.sample(PASS_NAMES, rng.randint(0, 2))
        if rng.random() < 0.5:
            r["override"] = rng.random() < 0.6
    return r


def gen_mode(rng, name):
    m = {"name": name}
    if rng.random() < 0.8:
        m["defines"] = rng.sample(DEFS, rng.randint(0, 2))
    if rng.random() < 0.3:
        m["include_paths"] = rng.sample(PATHS, rng.randint(0, 2))
    if rng.random() < 0.3:
        m["include_files"] = rng.sample(FILES, rng.randint(0, 1))
    return m


def gen_pass(rng, name):
    p = gen_mode(rng, name)
    if rng.random() < 0.6:
        p["modes"] = [rng.choice(MODE_NAMES) for _ in range(rng.randint(0, 3))]
    return p


def flags_of(user):
    out = []
    for _, d in user:
        for r in d.get("parser", []):
            out.append(r)
    return out


BUILTIN_RULES = [
    {"flags": ["-fopenmp"], "action": "append_const"},
    {"flags": ["-fsycl"], "action": "append_const"},
    {"flags": ["-fsycl-is-device"], "action": "append_const"},
    {"flags": ["-fsycl-targets"], "action": "store_split", "sep": ","},
    {"flags": ["--gpu-architecture", "--gpu-code", "-gencode"], "action": "extend_match", "pattern": r"(?:sm_|compute_)(\d+)"},
]
GENERIC_RULES = [
    {"flags": ["-D"], "action": "append", "vals": DEFS}, {"flags": ["-I"], "action": "append", "vals": PATHS},
    {"flags": ["-isystem"], "action": "append", "vals": PATHS}, {"flags": ["-include"], "action": "append", "vals": FILES},
    {"flags": ["-O"], "action": "append", "vals": ["2", "3", "fast"]}, {"flags": ["-o"], "action": "append", "vals": ["a.o"]},
    {"flags": ["-g"], "action": "append_const"}, {"flags": ["-c"], "action": "append_const"},
]
UNKNOWN_FLAGS = ["-Wall", "-Wextra", "-std=c++17", "-fPIC", "-pthread", "-MMD", "-march=native", "--expt-relaxed-constexpr",
                 "-x", "-w", "-pipe", "-Werror=foo", "-ffast-math", "--std=c++14", "-qopenmp", "-Xcompiler", "-m64", "-"]
MALFORMED = ["-f", "-fopen", "-fopenmp=libomp", "-D", "--", "-gD", "-g3", "-1", "- x", "", "-", "--gpu", "-fsycl-targets",
             "-DA=1", "-I=x", "-cg", "-gc", "-gDX", "-1.5", "-fa=", "--long=", "-fab", "-fa", "--lon", "-isys", "-inc", "-i",
             "-O", "-x c", "--gpu-code", "-fsycl=1", "-cfa", "-m=", "-Dq", "-qD"]


def gen_tokens(rng, rules, tame=True):
    """One option occurrence (list of tokens) for a random rule."""
    r = rng.choice(rules)
    f = rng.choice(r["flags"])
    if r["action"] == "append_const":
        return [f]
    v = rng.choice(r["vals"]) if "vals" in r else gen_values(rng, r)
    forms = ["eq", "sep"] if len(f) > 2 else ["att", "att", "sep", "eq"]
    form = rng.choice(forms)
    if form == "sep" and tame and (v.startswith("-")):
        form = "eq"
    if form == "eq":
        return [f + "=" + v]
    if form == "att":
        return [f + v] if v else [f, v]
    return [f, v]


def gen_argv(rng, user, malformed=False):
    rules = GENERIC_RULES * 2 + BUILTIN_RULES + flags_of(user) * 3
    out = []
    for _ in range(rng.choice([0, 1, 2, 2, 3, 3, 4, 5, 7])):
        r = rng.random()
        if malformed and r < 0.35:
            out.append(rng.choice(MALFORMED))
        elif r < 0.15:
            out.append(rng.choice(["a.c", "src/b.cpp", "x.o"]))
        elif r < 0.30:
            out.append(rng.choice(UNKNOWN_FLAGS))
        else:
            out += gen_tokens(rng, rules, tame=not malformed)
    return out


def gen_user(rng, odd=False):
    user = []
    names = rng.sample(BUILTIN + USER_NAMES, rng.choice([0, 1, 2, 2, 3, 4]))
    used = []
    for name in names:
        r = rng.random()
        if r < 0.35:
            tgt = rng.choice(names + names + BUILTIN + USER_NAMES + ["nope"] + ([""] if odd else []))
            user.append([name, {"alias_of": tgt}])
            continue
        d = {}
        rules = []
        if rng.random() < 0.85:
            for _ in range(rng.randint(1, 4)):
                rr = gen_rule(rng, [] if (odd and rng.random() < 0.1) else used, allow_conflict=odd or name not in BUILTIN)
                if rr:
                    rules.append(rr)
                    used += rr["flags"]
            d["parser"] = rules
        if rng.random() < 0.7:
            d["modes"] = [gen_mode(rng, n) for n in rng.sample(MODE_NAMES, rng.randint(0, 3))]
            if odd and d["modes"] and rng.random() < 0.3:
                d["modes"].append(gen_mode(rng, d["modes"][0]["name"]))
        if rng.random() < 0.7:
            d["passes"] = [gen_pass(rng, n) for n in rng.sample(PASS_NAMES, rng.randint(0, 4))]
        if rng.random() < 0.5:
            opts = []
            pool = GENERIC_RULES + rules * 3 + (BUILTIN_RULES if name in BUILTIN else [])
            for _ in range(rng.randint(0, 3)):
                opts += gen_tokens(rng, pool)
            d["options"] = opts
        if not d and not odd:
            d["options"] = []
        user.append([name, d])
    return user


def gen_case(rng, malformed=False, odd=False):
    user = gen_user(rng, odd=odd)
    names = [n for n, _ in user] * 3 + BUILTIN + ["unknown-cc"]
    # history needs the same compiler several times
    focus = rng.choice(names)
    cmds = []
    for _ in range(rng.choice([3, 3, 4, 5])):
        n = focus if rng.random() < 0.6 else rng.choice(names)
        a0 = rng.choice(["", "", "/usr/bin/", "./", "a/b/"]) + n
        if odd and rng.random() < 0.05:
            a0 += "/"
        cmds.append([a0, gen_argv(rng, user, malformed=malformed)])
    return {"user": user, "cmds": cmds}


# documented flags of the built-in compilers: every subset is enumerated
DOC_FLAGS = {
    "gcc": [["-fopenmp"], ["-DA"], ["-I", "inc"]],
    "g++": [["-fopenmp"], ["-DA"], ["-include", "f.h"]],
    "clang": [["-fopenmp"], ["-fsycl-is-device"], ["-DA"]],
    "clang++": [["-fopenmp"], ["-fsycl-is-device"], ["-isystem", "inc"]],
    "icx": [["-fopenmp"], ["-fsycl"], ["-fsycl-targets=spir64_gen,spir64_x86_64"], ["-fsycl-targets=nvptx64-nvidia-cuda"], ["-DA"]],
    "icpx": [["-fopenmp"], ["-fsycl"], ["-fsycl-targets", "spir64"], ["-fsycl-targets=spir64_fpga,bogus"], ["-DA"]],
    "nvcc": [["-fopenmp"], ["--gpu-architecture=sm_80"], ["--gpu-code=sm_90,compute_75"], ["-gencode", "arch=compute_89,code=sm_89"], ["-DA"]],
}


def exhaustive_builtin(tier):
    cases = []
    for name, fl in DOC_FLAGS.items():
        cmds = []
        for k in range(len(fl) + 1):
            for sub in itertools.combinations(range(len(fl)), k):
                argv = [t for i in sub for t in fl[i]]
                cmds.append([name, argv])
                if tier == "thorough" and len(sub) >= 2:
                    cmds.append([name, [t for i in reversed(sub) for t in fl[i]]])
        for i in range(0, len(cmds), 4):
            cases.append({"user": [], "cmds": cmds[i:i + 4], "e2e": E2E_GUARDS})
    return cases


EXH_USER = [
    ["cc0", {"options": ["-DIMPL", "-fa"],
             "parser": [
                 {"flags": ["-fa"], "action": "append_const", "dest": "modes", "const": "m0"},
                 {"flags": ["-fb", "--long"], "action": "store_split", "dest": "passes", "sep": ",", "format": "p-$value", "default": ["p0"]},
                 {"flags": ["-m", "--t"], "action": "extend_match", "dest": "passes", "pattern": r"(?:a|ab)(\d+)", "format": "p-$value", "default": ["p1"]},
                 {"flags": ["-X"], "action": "extend_match", "dest": "passes", "pattern": r"(\d+)", "default": ["default"], "override": True},
                 {"flags": ["-q"], "action": "append", "dest": "modes"}],
             "modes": [{"name": "m0", "defines": ["M0"]}, {"name": "m1", "defines": ["M1"], "include_paths": ["mi"]}],
             "passes": [{"name": "p0", "defines": ["P0"], "modes": ["m1"]}, {"name": "p1", "defines": ["P1"], "modes": ["m0", "zz"]},
                        {"name": "p-7", "defines": ["P7"], "include_files": ["p7.h"]}, {"name": "p-12", "modes": ["m1", "m1"]},
                        {"name": "7", "defines": ["SEVEN"]}]}],
    ["cc1", {"alias_of": "cc0"}],
    ["cc2", {"alias_of": "cc1"}],
]
EXH_FLAGS = [["-fa"], ["-fb=7,12"], ["--long", "7"], ["-m", "a7ab12"], ["--t=ab7"], ["-X7"], ["-X", "12"], ["-q", "m1"], ["-qm0"]]


def exhaustive_user(tier):
    cases = []
    cmds = []
    lim = 3 if tier == "quick" else 5
    for k in range(lim + 1):
        for sub in itertools.combinations(range(len(EXH_FLAGS)), k):
            cmds.append([["cc0", "cc1", "/opt/cc2"][len(cmds) % 3], [t for i in sub for t in EXH_FLAGS[i]]])
    for i in range(0, len(cmds), 4):
        cases.append({"user": EXH_USER, "cmds": cmds[i:i + 4], "e2e": E2E_GUARDS})
    return cases


def all_subsets_of_random_config(rng):
    """a random user configuration x EVERY subset of one occurrence of each of its flags (<= 5 rules of one compiler,
    plus -DA), as command sequences of 4"""
    for _ in range(20):
        user = gen_user(rng)
        comps = [(n, d) for n, d in user if d.get("parser")]
        if comps:
            break
    else:
        return []
    name, d = rng.choice(comps)
    occ = [gen_tokens(rng, [r]) for r in d["parser"][:5]] + [["-DA"]]
    aliases = [n for n, dd in user if dd.get("alias_of") == name]
    cmds = []
    for k in range(len(occ) + 1):
        for sub in itertools.combinations(range(len(occ)), k):
            cmds.append([rng.choice([name, name, "/x/" + name] + aliases), [t for i in sub for t in occ[i]]])
    return [{"user": user, "cmds": cmds[i:i + 4]} for i in range(0, len(cmds), 4)]


def alias_cases():
    """all alias graphs on three user names with targets among {the three, a built-in alias, a built-in, missing}"""
    cases = []
    names = ["cc0", "cc1", "cc2"]
    tg = names + ["g++", "gcc", "nope"]
    for a, b, c in itertools.product(tg, repeat=3):
        if (a, b, c).count("nope") > 1:
            continue
        user = [["cc0", {"alias_of": a}], ["cc1", {"alias_of": b}], ["cc2", {"alias_of": c}]]
        cases.append({"user": user, "cmds": [["cc0", ["-fopenmp", "-DA"]], ["bin/cc1", ["-fopenmp"]], ["cc2", []]]})
    return cases


# end-to-end block: guards of the generated source file
E2E_GUARDS = [["def", "_OPENMP"], ["def", "__SYCL_DEVICE_ONLY__"], ["def", "SYCL_LANGUAGE_VERSION"], ["def", "__NVCC__"],
              ["def", "__CUDA_ARCH__"], ["ge", "__CUDA_ARCH__", 750], ["ge", "__CUDA_ARCH__", 900], ["def", "__NVPTX__"],
              ["def", "__SPIR__"], ["def", "A"], ["def", "IMPL"], ["def", "M0"], ["def", "M1"], ["def", "P0"], ["def", "P1"],
              ["def", "P7"], ["def", "SEVEN"], ["def", "NEVER"]]


def e2e_source(guards):
    lines, code_line = ["int always;"], []
    for i, g in enumerate(guards):
        if g[0] == "def":
            lines.append(f"#ifdef {g[1]}")
        else:
            lines.append(f"#if defined({g[1]}) && {g[1]} >= {g[2]}")
        lines.append(f"int guarded_{i};")
        code_line.append(len(lines))
        lines.append("#endif")
    return "\n".join(lines) + "\n", code_line


def guard_holds(g, defines):
    for d in defines:
        name, _, val = d.partition("=")
        if name != g[1]:
            continue
        if g[0] == "def":
            return True
        try:
            if int(val) >= g[2]:
                return True
        except ValueError:
            pass
    return False


def e2e_expected(results, guards):
    """results: canonical per-command results (["Ok", configs, events] | ["Err", kind])"""
    entries = []
    for r in results:
        if r[0] != "Ok":
            return ["Err", r[1]]
        entries += [list(c) for c in r[1]]
    att = [any(guard_holds(g, c[1]) for c in entries) for g in guards]
    return ["Ok", sorted(entries), att]


_memo_installed = False


def _memoise_check_schema():
    """jsonschema.validate re-validates the (constant) schema file against the meta-schema on every
    call (about 45 ms, five times per _load_compilers).  Schema validity is a pure function of the
    schema text, so the harness memoises it per process; CBI's behaviour is unchanged."""
    global _memo_installed
    if _memo_installed:
        return
    import jsonschema
    seen = {}
    for cls in set(jsonschema.validators._META_SCHEMAS.values()) if hasattr(jsonschema.validators, "_META_SCHEMAS") else []:
        orig = cls.check_schema.__func__

        def cached(klass, schema, *a, _orig=orig, **k):
            key = (klass.__name__, json.dumps(schema, sort_keys=True, default=str))
            if key not in seen:
                try:
                    _orig(klass, schema, *a, **k)
                    seen[key] = None
                except Exception as e:  # noqa
                    seen[key] = e
            if seen[key] is not None:
                raise seen[key]
        cls.check_schema = classmethod(cached)
    _memo_installed = True


class _Capture(logging.Handler):
    def __init__(self):
        super().__init__(level=logging.DEBUG)
        self.records = []

    def emit(self, record):
        self.records.append((record.levelno, record.getMessage()))


class C12(Check):
    prop_id = "C12"
    rule = ("cases = a generated .cbi/config (0-4 [compiler.*] tables: alias chains incl. self loops, cycles, dangling and empty "
            "targets; redefinitions of the 7 built-in names; parser rules with append_const / append / store_split / extend_match, "
            "1-3 spellings per rule, default lists, override; modes; passes with mode lists incl. undefined and repeated names; "
            "implicit options) x a SEQUENCE of 3-5 commands in one process (60 % on one focus compiler, argv0 with directory "
            "prefixes), argv = 0-7 option occurrences in =, attached and separate spelling mixed with source files.  Blocks: corpus; "
            "every subset of the documented flags of each of the 7 built-in compilers; every subset (<=3 quick / <=5 thorough of 9) of the "
            "flags of a fixed user compiler reached directly and through 1- and 2-step aliases; all 3-node alias graphs over 6 targets; "
            "40 (quick) / 500 (thorough) random configurations x EVERY subset of one occurrence of each flag of one of their compilers; "
            "random tame stream; random malformed stream (abbreviations, clustered short options, missing values, '--', negative numbers, "
            "conflicting flags, empty tables, duplicate mode names).  Non-trivial = some command yields >= 2 configurations or a "
            "configuration that received a mode/pass contribution, or resolves through >= 1 alias edge, or ends in loop/dangling.")
    assumptions = [
        "CPython 3.12.1 argparse (_parse_optional, _get_option_tuples, consume_optional) is modelled by hand in Model/C12.v and sampled by the correspondence, not verified",
        "tomllib / jsonschema / string.Template / re.findall are modelled only for the family the translator accepts: one-character sep, "
        "format = text$valuetext, pattern = optional (?:lit|lit) followed by (\\d+), list-valued default, dest among the five namespace lists, "
        "actions append_const / append / store_split / extend_match",
        "Python set iteration order (passes, modes of the default pass) is arbitrary: configurations are compared as a set keyed by pass name and "
        "the mode blocks of the default pass up to permutation",
    ]

    def __init__(self, tier, seed):
        super().__init__(tier, seed)
        self._impl_cache = {}
        self._na_seen = set()
        self._conflicts = {}
        self._block_of = {}
        self.hist = {"commands": 0, "cmd_spec_na": 0, "cmd_err": 0, "cmd_multi_pass": 0, "cmd_alias": 0, "cmd_loop_or_dangling": 0,
                     "cmd_mode_contrib": 0, "cases_user_invalid": 0, "blocks": {}}

    # ------------------------------------------------------------ generation
    def generate(self):
        q = self.tier == "quick"
        blocks = [("exhaustive_builtin", exhaustive_builtin(self.tier)),
                  ("exhaustive_user", exhaustive_user(self.tier)),
                  ("alias_graphs", alias_cases()),
                  ("random_config_all_subsets", [c for _ in range(40 if q else 500) for c in all_subsets_of_random_config(self.rng)]),
                  ("random_tame", [gen_case(self.rng) for _ in range(2500 if q else 25000)]),
                  ("random_odd", [gen_case(self.rng, odd=True) for _ in range(800 if q else 8000)]),
                  ("random_malformed", [gen_case(self.rng, malformed=True, odd=True) for _ in range(1200 if q else 12000)])]
        out = []
        for n, cs in blocks:
            self.hist["blocks"][n] = len(cs)
            for c in cs:
                self._block_of[self.key(c)] = n
                if any(not d for _, d in c["user"]):
                    self.hist["cases_user_invalid"] += 1
            out += cs
        return out

    # ------------------------------------------------------------ encoding
    def encode(self, case):
        user = [[n, enc_udef(T.udef_of(d))] for n, d in case["user"]]
        return enc([user, [[a0, argv] for a0, argv in case["cmds"]]])

    # ------------------------------------------------------------ implementation
    def impl(self, case):
        from codebasin import config
        _memoise_check_schema()
        k = self.key(case)
        root = common.scratch() / "c12"
        if root.exists():
            shutil.rmtree(root)
        (root / ".cbi").mkdir(parents=True)
        if case["user"] is not None:
            (root / ".cbi" / "config").write_text(render_toml(case["user"]))
        lg = logging.getLogger("codebasin.config")
        cap = _Capture()
        old_level, old_prop = lg.level, lg.propagate
        lg.setLevel(logging.INFO)
        lg.propagate = False
        lg.addHandler(cap)
        cwd = os.getcwd()
        out = []
        try:
            os.chdir(root)
            config._compilers = None
            for a0, argv in case["cmds"]:
                cap.records.clear()
                init_records = []
                try:
                    with contextlib.redirect_stderr(io.StringIO()):
                        p = config.ArgumentParser(a0)
                        init_records = list(cap.records)
                        cap.records.clear()
                        cfgs = p.parse_args(list(argv))
                    res = ["Ok", sorted([c.pass_name, list(c.defines), list(c.include_paths), list(c.include_files)] for c in cfgs),
                           sorted(self._events(cap.records))]
                except SystemExit:
                    res = ["Err", "SystemExit"]
                except Exception as e:  # noqa
                    res = ["Err", type(e).__name__]
                out.append([self._status(init_records or cap.records), res])
            if case.get("e2e"):
                config._compilers = None
                with contextlib.redirect_stderr(io.StringIO()):
                    out.append(["e2e", self._e2e(case, root)])
        finally:
            os.chdir(cwd)
            lg.removeHandler(cap)
            lg.setLevel(old_level)
            lg.propagate = old_prop
            config._compilers = None
        self._impl_cache[k] = out
        return out

    @staticmethod
    def _e2e(case, root):
        """config.load_database + finder.find on one source file compiled by ALL commands of the case"""
        import codebasin
        from codebasin import config, finder, preprocessor
        guards = case["e2e"]
        text, code_line = e2e_source(guards)
        (root / "src").mkdir(exist_ok=True)
        src = root / "src" / "main.c"
        src.write_text(text)
        for d in (root, root / "src"):
            for h in FILES + ["p7.h"]:
                (d / h).write_text("")
        db = [{"directory": str(root), "file": "src/main.c", "arguments": [a0] + list(argv)} for a0, argv in case["cmds"]]
        (root / "compile_commands.json").write_text(json.dumps(db))
        flog = logging.getLogger("codebasin")
        old = flog.level
        flog.setLevel(logging.CRITICAL)
        try:
            try:
                entries = config.load_database(str(root / "compile_commands.json"), str(root))
            except SystemExit:
                return ["Err", "SystemExit"]
            except Exception as e:  # noqa
                return ["Err", type(e).__name__]
            obs = []
            for e in entries:
                if e["file"] != str(src):
                    return ["Err", "WrongFile", e["file"]]
                obs.append([e["pass_name"], list(e["defines"]), [os.path.relpath(p, root) for p in e["include_paths"]],
                            list(e["include_files"])])
            try:
                state = finder.find(str(root), codebasin.CodeBase(root), {"P": entries})
            except Exception as e:  # noqa
                return ["Err", "find:" + type(e).__name__]
            amap = state.get_map(str(src))
            used = set()
            for node in state.get_tree(str(src)).walk():
                if isinstance(node, preprocessor.CodeNode) and "P" in amap[node]:
                    used.update(node.lines)
            return ["Ok", sorted(obs), [ln in used for ln in code_line], 1 in used]
        finally:
            flog.setLevel(old)

    @staticmethod
    def _status(records):
        st = None
        for lvl, msg in records:
            if "not recognized" in msg:
                st = ["unrec"]
            elif "alias results in a loop" in msg:
                st = ["loop"]
            else:
                m = re.search(r"aliases unrecognized '(.*)'\.$", msg, flags=re.S)
                if m:
                    st = ["dangling", m.group(1)]
                else:
                    m = re.search(r"recognized; aliases '(.*)'\.$", msg, flags=re.S)
                    if m:
                        st = ["ok", m.group(1)]
        return st or ["no-status-logged"]

    @staticmethod
    def _events(records):
        ev = []
        for lvl, msg in records:
            if lvl == logging.WARNING and msg.startswith("Could not parse all arguments"):
                ev.append("W:partial")
            if lvl >= logging.ERROR:
                m = re.match(r"Unrecognized compiler pass: (.*)$", msg, flags=re.S)
                if m:
                    ev.append("P:" + m.group(1))
                    continue
                m = re.match(r"Unrecognized compiler mode: (.*)$", msg, flags=re.S)
                if m:
                    ev.append("M:" + m.group(1))
                    continue
                ev.append("E:" + msg)
        return ev

    # ------------------------------------------------------------ views
    def _cached_impl(self, case):
        k = self.key(case)
        if k not in self._impl_cache:
            self.impl(case)
        return self._impl_cache[k]

    @staticmethod
    def _canon(res, impl_res):
        """driver result -> canonical; the mode blocks of the default pass are applied in the
        order Python iterated the set: accept any permutation, prefer the one the implementation shows."""
        if res == "NA":
            return None
        if res[0] == "Err":
            return ["Err", res[1]]
        cfgs = []
        for pn, d, p, f, blocks in res[1]:
            if not blocks:
                cfgs.append([[pn, d, p, f]])
                continue
            alts = []
            perms = itertools.permutations(blocks) if len(blocks) <= 5 else [tuple(blocks)]
            for perm in perms:
                dd, pp, ff = list(d), list(p), list(f)
                for bd, bp, bf in perm:
                    dd += bd
                    pp += bp
                    ff += bf
                alts.append([pn, dd, pp, ff])
            cfgs.append(alts)
        impl_cfgs = impl_res[1] if impl_res and impl_res[0] == "Ok" else []
        chosen = []
        for alts in cfgs:
            pick = alts[0]
            for a in alts:
                if a in impl_cfgs:
                    pick = a
                    break
            chosen.append(pick)
        return ["Ok", sorted(chosen), sorted(res[2])]

    def _with_e2e(self, case, out):
        if case.get("e2e"):
            exp = e2e_expected([r for _, r in out], case["e2e"])
            if exp[0] == "Ok":
                exp[1] = sorted([pn, d, [os.path.normpath(x) for x in p], f] for pn, d, p, f in exp[1])
                exp.append(True)
            out = out + [["e2e", exp]]
        return out

    def model_view(self, case, ans):
        ia = self._cached_impl(case)
        return self._with_e2e(case, [[st, self._canon(res, i[1])] for (st, res, _, _, _, _, _), i in zip(ans, ia)])

    def legacy_view(self, case, ans):
        ia = self._cached_impl(case)
        return [[st, self._canon(res, i[1])] for (_, _, _, _, st, res, _), i in zip(ans, ia)]

    def spec(self, case, ans):
        if ans is None or isinstance(ans, str):
            return None
        ia = self._cached_impl(case)
        out = []
        na = 0
        self._conflicts[self.key(case)] = [bool(a[6]) for a in ans]
        for (_, _, st, res, _, _, _), i in zip(ans, ia):
            c = self._canon(res, i[1])
            # a command line outside S's scanner is not judged: S adopts the observed result there
            if c is None:
                na += 1
            out.append([st, c if c is not None else i[1]])
        k = self.key(case)
        if k not in self._na_seen:
            self._na_seen.add(k)
            self.hist["cmd_spec_na"] += na
            b = self._block_of.get(k, "corpus")
            d = self.hist.setdefault("cmd_spec_na_by_block", {}).setdefault(b, [0, 0])
            d[0] += na
            d[1] += len(out)
        return self._with_e2e(case, out)

    def impl_view_for_spec(self, case, ia):
        return [[st, res] for st, res in ia]

    def impl_view_for_model(self, case, ia):
        return ia

    def in_domain(self, case, sa):
        return sa is not None

    def nontrivial(self, case, ia):
        nt = False
        if case.get("e2e") and ia and ia[-1][0] == "e2e":
            self.hist["e2e_cases"] = self.hist.get("e2e_cases", 0) + 1
            r = ia[-1][1]
            if r[0] == "Ok":
                self.hist["e2e_entries"] = self.hist.get("e2e_entries", 0) + len(r[1])
                self.hist["e2e_guarded_lines_attributed"] = self.hist.get("e2e_guarded_lines_attributed", 0) + sum(r[2])
                self.hist["e2e_guarded_lines"] = self.hist.get("e2e_guarded_lines", 0) + len(r[2])
        for (st, res), (a0, argv) in zip(ia, case["cmds"]):
            self.hist["commands"] += 1
            name = a0.rsplit("/", 1)[-1]
            if st[0] in ("loop", "dangling"):
                self.hist["cmd_loop_or_dangling"] += 1
                nt = True
            if st[0] == "ok" and st[1] != name:
                self.hist["cmd_alias"] += 1
                nt = True
            if res[0] == "Err":
                self.hist["cmd_err"] += 1
                continue
            if len(res[1]) >= 2:
                self.hist["cmd_multi_pass"] += 1
                nt = True
            base = None
            for c in res[1]:
                if c[0] == "default":
                    base = c
            if base is not None and any(len(c[1]) + len(c[2]) + len(c[3]) > len(base[1]) + len(base[2]) + len(base[3])
                                        for c in res[1] if c[0] != "default"):
                self.hist["cmd_mode_contrib"] += 1
                nt = True
        return nt

    def classify(self, case, ia, sa):
        """redefined-flag-crashes: EVERY differing command (a) belongs to a compiler whose rule list registers some
        flag twice (reported by the driver), (b) raised ArgumentError in the implementation, (c) has the same alias
        status in I and S.  Anything else (including a differing end-to-end element) is not in the class."""
        conf = self._conflicts.get(self.key(case))
        if conf is None or sa is None:
            return None
        diff = False
        for k, (a, b) in enumerate(zip(ia, sa)):
            if a == b:
                continue
            if a[0] == "e2e" or k >= len(conf):
                return None
            diff = True
            if not (conf[k] and a[0] == b[0] and a[1] == ["Err", "ArgumentError"] and b[1][0] == "Ok"):
                return None
        return "redefined-flag-crashes" if diff and len(ia) == len(sa) else None

    def shrink(self, case, still_fails):
        user, cmds = case["user"], case["cmds"]
        if case.get("e2e"):
            inner = still_fails
            still_fails = lambda c: inner(dict(c, e2e=case["e2e"]))  # noqa
        cmds = common.shrink_list(cmds, lambda cs: bool(cs) and still_fails({"user": user, "cmds": cs}))
        user = common.shrink_list(user, lambda us: still_fails({"user": us, "cmds": cmds}))
        for i in range(len(cmds)):
            a0, argv = cmds[i]
            argv = common.shrink_list(argv, lambda av: still_fails({"user": user, "cmds": cmds[:i] + [[a0, av]] + cmds[i + 1:]}))
            cmds = cmds[:i] + [[a0, argv]] + cmds[i + 1:]
        # drop parser rules / modes / passes / options of each user table
        for i in range(len(user)):
            name, d = user[i]
            for sect in ("parser", "modes", "passes", "options"):
                if sect in d and d[sect]:
                    def f(xs, sect=sect, i=i, name=name):
                        dd = dict(user[i][1])
                        dd[sect] = xs
                        return still_fails({"user": user[:i] + [[name, dd]] + user[i + 1:], "cmds": cmds})
                    xs = common.shrink_list(d[sect], f)
                    d = dict(d)
                    d[sect] = xs
                    user = user[:i] + [[name, d]] + user[i + 1:]
        return dict({"user": user, "cmds": cmds}, **({"e2e": case["e2e"]} if case.get("e2e") else {}))

    # ---- S versus the real compilers that happen to be installed (validates the built-in tables' claim) ----
    def self_tests(self):
        import subprocess
        problems = []
        self.oracle_cases = 0
        names = [n for n in ("gcc", "g++", "clang", "clang++") if shutil.which(n)]
        if not names:
            return problems
        cmds = [[n, fl] for n in names for fl in ([], ["-fopenmp"])]
        ans = common.run_model("C12", [self.encode({"user": [], "cmds": cmds})])[0]
        for (n, fl), a in zip(cmds, ans):
            sres = a[3]
            says = sres != "NA" and any(c[0] == "default" and any("_OPENMP" in b[0] for b in c[4]) for c in sres[1])
            try:
                pr = subprocess.run([n] + fl + ["-x", "c", "-dM", "-E", "-"], input="", capture_output=True, text=True, timeout=60)
            except Exception:  # noqa
                continue
            if pr.returncode != 0:
                continue
            self.oracle_cases += 1
            real = any(l.startswith("#define _OPENMP ") for l in pr.stdout.splitlines())
            if real != says:
                problems.append(f"S says _OPENMP {'defined' if says else 'undefined'} for '{n} {' '.join(fl)}' but the installed {n} says the opposite")
        return problems

    def extra_coverage(self):
        return {"input_distribution": self.hist, "spec_oracle_cases": getattr(self, "oracle_cases", 0)}


CHECK = C12
