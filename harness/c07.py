"""C07 — coverage / average coverage / distance / divergence equal their definitions.

I  = codebasin.report.{coverage, average_coverage, distance, divergence,
     extract_platforms} called in process, plus (on a sample) the metric lines
     of report.summary and the distance matrix of report.clustering;
M  = Model/C07.v (exact rationals, NaN = None), via the extracted driver;
S  = Spec/C07.v (explicit line sets) via the driver for small tables, and an
     independent Python oracle (fractions, explicit sets of line ids when the
     table is small, weighted sets otherwise) for every table.

case = [rows, args, pairs, mode]
   rows  = [[sorted platform names], count] ...      (dict insertion order)
   args  = [None | [names]] ...                      (the optional `platforms` argument)
   pairs = [[p, q]] ...                              (arguments of distance)
   mode  = bit0: also run summary()/clustering() and compare the printed numbers
           bit1: pass `platforms` as a list instead of a set
           bit3: CLI case.  case[4] = the generating rows of a small code base (one C file, one
                 `#if defined(..)` block per row, one -D macro per platform); the real `codebasin`
                 CLI is run on it as a subprocess, `rows` is the setmap read back from the summary
                 table IT PRINTS, and the printed Code Divergence / Coverage / Avg. Coverage lines
                 and the distance matrix must be the metrics of that printed table
           bit2: metamorphic run on the implementation itself: the same calls on the table with
                 every platform renamed (injectively), the rows inserted in reverse order and every
                 count multiplied by 7 must give the same values (1e-9 relative; NaN = NaN)
"""
from __future__ import annotations

import io
import itertools
import json
import logging
import math
import os
import re
import subprocess
import sys
from fractions import Fraction

from . import common
from .common import Check, enc

S_LIMIT = 300          # S (Coq) expands the table into lines: only for totals up to this
REL = Fraction(1, 10 ** 9)

NAMES = ["A", "B", "C", "cpu", "gpu", "a", "x y", "p-1", "", "fpga", "B2", "\xe9"]


def qstr(x):
    if x is None:
        return "NaN"
    x = Fraction(x)
    return f"{x.numerator}/{x.denominator}"


def from_driver(v):
    if v == "NaN":
        return "NaN"
    return f"{v[0]}/{v[1]}"


def parse_q(s):
    if s == "NaN":
        return None
    n, d = s.split("/")
    return Fraction(int(n), int(d))


def snap(obs, ref, abs_tol=0):
    """Canonicalise an observed float against the exact reference: the reference
    string itself when it agrees within 1e-9 relative, else a description.
    abs_tol is non-zero only for tables with negative counts (outside the property's
    domain, compared with M only): there float cancellation leaves 1e-16 where the
    exact value is 0, which no relative tolerance accepts."""
    if isinstance(obs, list) and obs[0] != "F":            # ["Err", name]
        return obs
    if obs == "NaN":
        return "NaN"
    f = float(obs[1])
    r = parse_q(ref) if isinstance(ref, str) else None
    if r is None:
        return f"float {f!r}"
    if math.isinf(f):
        return "float inf"
    d = abs(Fraction(f) - r)
    if d <= REL * abs(r) or (r == 0 and f == 0.0) or (abs_tol and d <= abs_tol):
        return ref
    return f"float {f!r}"


def snap_printed(txt, ref):
    """A number printed with 2 decimals is right when it is a correct rounding of the
    exact value (either neighbour is accepted exactly on a tie)."""
    if isinstance(txt, list):
        return txt
    r = parse_q(ref) if isinstance(ref, str) else None
    if txt == "nan":
        return "NaN"
    if r is None:
        return f"printed {txt}"
    try:
        v = Fraction(txt)
    except ValueError:
        return f"printed {txt}"
    if abs(v - r) <= Fraction(1, 200):
        return ref
    return f"printed {txt}"


def fl(x):
    if isinstance(x, float) and math.isnan(x):
        return "NaN"
    return ["F", repr(float(x))]


# ---------------------------------------------------------------- oracle
def table_platforms(rows):
    return sorted({p for (s, _) in rows for p in s})


def oracle(case):
    """Independent Python oracle: the definitions on explicit sets of line ids
    (small tables) or on weighted sets (large counts), exact fractions."""
    rows, args, prs, mode = case[:4]
    total = sum(c for (_, c) in rows)
    plats = table_platforms(rows)
    names = set(plats) | {p for a in args if a for p in a} | {p for pq in prs for p in pq}
    if total <= 4 * S_LIMIT:
        lines = []
        for (s, c) in rows:
            for _ in range(c):
                lines.append((len(lines), frozenset(s)))
        Lp = {p: {i for (i, s) in lines if p in s} for p in names}
        size = len
        universe = {i for (i, _) in lines}
        union = lambda sets: set().union(*sets) if sets else set()  # noqa
        sym = lambda a, b: a ^ b  # noqa
        uni2 = lambda a, b: a | b  # noqa
    else:
        # weighted sets: a "set of lines" is a set of row indices, its size the sum of counts
        Lp = {p: {i for i, (s, _) in enumerate(rows) if p in s} for p in names}
        size = lambda A: sum(rows[i][1] for i in A)  # noqa
        universe = set(range(len(rows)))
        union = lambda sets: set().union(*sets) if sets else set()  # noqa
        sym = lambda a, b: a ^ b  # noqa
        uni2 = lambda a, b: a | b  # noqa
    n_all = size(universe)

    def sel(a):
        return plats if not a else list(a)

    def cov(ps):
        if n_all == 0:
            return None
        return Fraction(100 * size(union([Lp[p] for p in ps])), n_all)

    def avg(ps):
        if not ps or n_all == 0:
            return None
        return sum(Fraction(100 * size(Lp[p]), n_all) for p in ps) / len(ps)

    def dist(p, q):
        u = size(uni2(Lp[p], Lp[q]))
        if u == 0:
            return None
        return Fraction(size(sym(Lp[p], Lp[q])), u)

    def div():
        if len(plats) < 2:
            return None
        ds = [dist(p, q) for p, q in itertools.combinations(plats, 2)]
        if any(d is None for d in ds):
            return None
        return sum(ds) / len(ds)

    return {"cov": [qstr(cov(sel(a))) for a in args],
            "avg": [qstr(avg(sel(a))) for a in args],
            "dist": [qstr(dist(p, q)) for (p, q) in prs],
            "div": qstr(div()),
            "plats": plats}



# ---------------------------------------------------------------- the real CLI
CLI_NAMES = ["A", "B", "C", "cpu", "gpu", "fpga", "p-1", "B2"]
_cli_counter = [0]


def cli_run(gen):
    """Build the code base described by gen = [platform names, [[subset, nlines], ...]] and run
    `python -m codebasin analysis.toml` on it; returns its stdout (or ["Err", what])."""
    names, blocks = gen
    _cli_counter[0] += 1
    root = common.scratch() / f"c07-cli-{_cli_counter[0]}"
    root.mkdir(parents=True)
    src = []
    k = 0
    for (sub, n) in blocks:
        if len(sub) == 0:
            src.append("#if 0")
        elif len(sub) < len(names):
            src.append("#if " + " || ".join(f"defined(USE_{names.index(p)})" for p in sub))
        for _ in range(n):
            k += 1
            src.append(f"int v{k};")
        if len(sub) < len(names):
            src.append("#endif")
    (root / "main.c").write_text("\n".join(src) + "\n")
    toml = []
    for i, nm in enumerate(names):
        (root / f"cc{i}.json").write_text(json.dumps(
            [{"directory": str(root), "command": f"gcc -DUSE_{i} -c main.c", "file": "main.c"}]))
        toml.append(f'[platform."{nm}"]\ncommands = "cc{i}.json"\n')
    (root / "analysis.toml").write_text("\n".join(toml))
    env = dict(os.environ, PYTHONPATH=str(common.REPO), PYTHONHASHSEED="0", MPLBACKEND="Agg")
    try:
        pr = subprocess.run([sys.executable, "-W", "ignore", "-m", "codebasin", "analysis.toml"], cwd=root, env=env,
                            capture_output=True, text=True, timeout=120)
    except subprocess.TimeoutExpired:
        return ["Err", "cli-timeout"]
    if pr.returncode != 0:
        return ["Err", "cli-exit-%d" % pr.returncode, (pr.stdout + pr.stderr)[-300:]]
    return pr.stdout


def cli_parse(text):
    """-> (rows read from the summary table, {"div","cov","avg"} printed strings, matrix or None, its header)"""
    rows, rep, matrix, hdr = [], {}, None, None
    section = None
    for line in text.splitlines():
        t = line.strip()
        if t == "Summary":
            section = "summary"
        elif t == "Clustering":
            section = "clustering"
        elif t.startswith("Duplicates"):
            section = "other"
        for key, tag in (("Code Divergence: ", "div"), ("Coverage (%): ", "cov"), ("Avg. Coverage (%): ", "avg")):
            if t.startswith(key):
                rep[tag] = t[len(key):].strip()
        if t.startswith("│"):
            cells = [c.strip() for c in t.strip("│").split("│")]
            if section == "summary":
                m = re.fullmatch(r"\{(.*)\}", cells[0])
                if m:
                    names = [x for x in m.group(1).split(", ") if x != ""]
                    rows.append([sorted(names), int(cells[1])])
            elif section == "clustering":
                if hdr is None:
                    hdr = cells[1:]
                    matrix = []
                else:
                    matrix.append(cells)
    return rows, rep, matrix, hdr

# ---------------------------------------------------------------- the check
class C07(Check):
    prop_id = "C07"
    rule = ("exhaustive block: every table over <= 3 platforms (8 possible rows incl. the empty set) with counts in "
            "{0,1,2,5} (4^8 tables, quick tier: a seed-rotated quarter + all tables over <= 2 platforms with absent rows), "
            "every `platforms` argument (None and all 8 subsets) and all 16 ordered pairs over {A,B,C,absent}; random stream: "
            "tables over <= 8 platforms, 1-24 distinct rows in random insertion order, counts from {0, small, <= 10^12}, "
            "arguments None/empty/subsets/unknown names, as set or list; malformed stream: negative counts, duplicate names "
            "in a list argument (compared with M only); CLI stream: 6 (quick) / 40 (thorough) generated one-file code bases over 1-5 "
            "platforms run through the real `codebasin` command, the printed metric lines and distance matrix checked against "
            "the setmap read from the printed summary table; metamorphic bit: the implementation re-run on the renamed, "
            "row-reversed, x7-scaled table must agree with itself. Non-trivial = >= 2 platforms, lines > 0 and some distance strictly "
            "between 0 and 1")
    assumptions = ["Python int = Z; binary64 results are compared with M's exact rational within 1e-9 relative "
                   "(counts <= 10^12, <= 256 rows: every integer involved is < 2^53)",
                   "dict insertion order = row order of the association list; set iteration order is arbitrary "
                   "(covered by C07_perm_invariant)",
                   "printed values (summary lines, distance matrix) must be a correct 2-decimal rounding of the exact value"]

    def __init__(self, tier, seed):
        super().__init__(tier, seed)
        self._m = {}
        self._s = {}
        self._oracle_bad = []
        self._oracle_n = 0
        self._hist = {"platforms": {}, "rows": {}, "nan_div": 0, "nan_dist": 0, "report_cases": 0,
                      "clustering_run": 0, "malformed": 0, "big_counts": 0}
        logging.disable(logging.CRITICAL)

    # ------------------------------------------------------------ generation
    def _std(self, rows, mode=0):
        plats = table_platforms(rows)
        univ = plats[:4] + ["Zabsent"]
        if mode & 1:
            prs = [[p, q] for p in plats for q in plats]
        else:
            prs = [[p, q] for p in univ for q in univ]
        return prs

    def generate(self):
        out = []
        rng = self.rng
        quick = self.tier == "quick"
        # ---- exhaustive small block
        P3 = ["A", "B", "C"]
        subsets3 = [[p for i, p in enumerate(P3) if m >> i & 1] for m in range(8)]
        args3 = [None] + subsets3
        prs3 = [[p, q] for p in P3 + ["Z"] for q in P3 + ["Z"]]
        counts = [0, 1, 2, 5]
        k = 0
        rot = self.seed % 4
        for cs in itertools.product(counts, repeat=8):
            k += 1
            if quick and (k % 4) != rot:
                continue
            rows = [[subsets3[i], cs[i]] for i in range(8)]
            out.append([rows, args3, prs3, 4 if k % 3 == 0 else 0])
        # all tables over <= 2 platforms where each of the 4 rows is absent or has a count in {0,1,2,5}
        P2 = ["A", "B"]
        subsets2 = [[p for i, p in enumerate(P2) if m >> i & 1] for m in range(4)]
        args2 = [None] + subsets2 + [["Z"], ["A", "Z"]]
        prs2 = [[p, q] for p in P2 + ["Z"] for q in P2 + ["Z"]]
        for cs in itertools.product([None] + counts, repeat=4):
            rows = [[subsets2[i], cs[i]] for i in range(4) if cs[i] is not None]
            out.append([rows, args2, prs2, 0])
        # ---- random stream
        n = 1500 if quick else 40000
        n_report = 60 if quick else 500
        for i in range(n):
            np_ = rng.choice([0, 1, 2, 2, 3, 3, 4, 5, 6, 7, 8])
            names = rng.sample(NAMES, np_)
            nrows = rng.randint(0 if np_ == 0 else 1, min(2 ** np_, 24))
            masks = rng.sample(range(2 ** np_), nrows)
            kind = rng.random()
            rows = []
            for m in masks:
                s = sorted(p for j, p in enumerate(names) if m >> j & 1)
                r = rng.random()
                if kind < 0.15:
                    c = rng.choice([0, 0, 1, 2])
                elif r < 0.15:
                    c = 0
                elif r < 0.55:
                    c = rng.randint(1, 40)
                elif r < 0.8:
                    c = rng.randint(1, 10 ** 6)
                else:
                    c = rng.randint(10 ** 9, 10 ** 12)
                rows.append([s, c])
            mode = 0
            if i < n_report:
                mode |= 1
            if rng.random() < 0.3:
                mode |= 2
            if rng.random() < 0.5:
                mode |= 4
            args = [None, []]
            for _ in range(rng.randint(1, 4)):
                pool = names + ["Zabsent"]
                a = sorted(rng.sample(pool, rng.randint(1, len(pool))))
                args.append(a)
            if mode & 1:
                prs = self._std(rows, 1)
            else:
                pool = (table_platforms(rows) + ["Zabsent"])
                prs = [[rng.choice(pool), rng.choice(pool)] for _ in range(6)]
                prs += [[p, p] for p in pool[:3]]
                prs += [[q, p] for (p, q) in prs[:3]]
            out.append([rows, args, prs, mode])
        # ---- CLI stream: the real command line tool on small generated code bases
        self._cli_cache = getattr(self, "_cli_cache", {})
        for i in range(6 if quick else 40):
            np_ = rng.choice([1, 2, 2, 3, 3, 4, 5])
            names = rng.sample(CLI_NAMES, np_)
            masks = rng.sample(range(2 ** np_), rng.randint(1, min(2 ** np_, 10)))
            blocks = [[sorted(p for j, p in enumerate(names) if m >> j & 1), rng.randint(1, 30)] for m in masks]
            gen = [names, blocks]
            text = cli_run(gen)
            self._cli_cache[json.dumps(gen)] = text
            if isinstance(text, list):
                rows = []
            else:
                rows = cli_parse(text)[0]
            plats = sorted(names)
            out.append([rows, [None], [[p, q] for p in plats for q in plats], 1 | 8, gen])
        # ---- malformed stream (outside the quantifier; I ~ M only)
        for i in range(100 if quick else 2000):
            np_ = rng.randint(1, 4)
            names = rng.sample(NAMES, np_)
            masks = rng.sample(range(2 ** np_), rng.randint(1, 2 ** np_))
            rows = [[sorted(p for j, p in enumerate(names) if m >> j & 1), rng.randint(-5, 6)] for m in masks]
            a = [rng.choice(names) for _ in range(rng.randint(1, 4))]
            args = [None, a, a + a[:1]]
            pool = names + ["Zabsent"]
            prs = [[rng.choice(pool), rng.choice(pool)] for _ in range(5)]
            out.append([rows, args, prs, 2])
        self._generated = out
        return out

    # ------------------------------------------------------------ encoding
    def want_s(self, case):
        rows = case[0]
        return all(c >= 0 for (_, c) in rows) and sum(c for (_, c) in rows) <= S_LIMIT

    def encode(self, case):
        rows, args, prs, mode = case[:4]
        return enc([[[list(s), c] for (s, c) in rows],
                    ["None" if a is None else list(a) for a in args],
                    [list(pq) for pq in prs],
                    1 if self.want_s(case) else 0])

    # ------------------------------------------------------------ implementation
    def impl(self, case):
        from codebasin import report
        rows, args, prs, mode = case[:4]
        setmap = {}
        for (s, c) in rows:
            setmap[frozenset(s)] = c

        def call(f, *a):
            try:
                return fl(f(*a))
            except Exception as e:  # noqa
                return ["Err", type(e).__name__]

        def mk(a):
            if a is None:
                return None
            return list(a) if (mode & 2) else set(a)

        out = {"cov": [call(report.coverage, setmap, mk(a)) for a in args],
               "avg": [call(report.average_coverage, setmap, mk(a)) for a in args],
               "dist": [call(report.distance, setmap, p, q) for (p, q) in prs],
               "div": call(report.divergence, setmap)}
        try:
            out["plats"] = sorted(report.extract_platforms(setmap))
        except Exception as e:  # noqa
            out["plats"] = ["Err", type(e).__name__]
        if mode & 8:
            out["report"] = self._cli_report(case)
        elif mode & 1:
            out["report"] = self._report(report, setmap, rows)
        if mode & 4:
            out["meta"] = self._meta(report, rows, args, prs, mode, out)
        return out

    def _cli_report(self, case):
        rows, gen = case[0], case[4]
        key = json.dumps(gen)
        cache = getattr(self, "_cli_cache", {})
        text = cache[key] if key in cache else cli_run(gen)
        if isinstance(text, list):
            return {"cli": text}
        prows, rep, matrix, hdr = cli_parse(text)
        canon = lambda rr: sorted([sorted(s_), c] for (s_, c) in rr)  # noqa
        rep["cli"] = "table-as-recorded" if canon(prows) == canon(rows) else ["table-differs", prows]
        plats = sorted(gen[0])
        if len(plats) >= 2:
            if hdr != plats or matrix is None or [r[0] for r in matrix] != plats:
                rep["matrix"] = ["Err", "matrix-labels", hdr]
            else:
                rep["matrix"] = [r[1:] for r in matrix]
        return rep

    @staticmethod
    def _meta(report, rows, args, prs, mode, base):
        ren = lambda n: "r:" + n  # noqa  (injective)
        setmap2 = {}
        for (s, c) in reversed(rows):
            setmap2[frozenset(ren(p) for p in s)] = 7 * c

        def call(f, *a):
            try:
                return fl(f(*a))
            except Exception as e:  # noqa
                return ["Err", type(e).__name__]

        def mk(a):
            if a is None:
                return None
            a2 = [ren(p) for p in reversed(a)]
            return a2 if (mode & 2) else set(a2)

        other = {"cov": [call(report.coverage, setmap2, mk(a)) for a in args],
                 "avg": [call(report.average_coverage, setmap2, mk(a)) for a in args],
                 "dist": [call(report.distance, setmap2, ren(p), ren(q)) for (p, q) in prs],
                 "div": [call(report.divergence, setmap2)]}
        try:
            other["plats"] = sorted(report.extract_platforms(setmap2))
        except Exception as e:  # noqa
            other["plats"] = ["Err", type(e).__name__]

        def close(x, y):
            if x == "NaN" or y == "NaN" or x[0] != "F" or y[0] != "F":
                return x == y
            a, b = float(x[1]), float(y[1])
            return abs(a - b) <= 1e-9 * max(abs(a), abs(b))
        for k in ("cov", "avg", "dist", "div"):
            mine = base[k] if k != "div" else [base[k]]
            for i, (x, y) in enumerate(zip(mine, other[k])):
                if not close(x, y):
                    return f"{k}[{i}] changes under rename/reorder/scale: {x} -> {y}"
        if isinstance(base["plats"], list) and other["plats"] != sorted(ren(p) for p in base["plats"]):
            return "extract_platforms changes under rename/reorder/scale"
        return "same"

    def _report(self, report, setmap, rows):
        rep = {}
        s = io.StringIO()
        try:
            report.summary(setmap, s)
            for line in s.getvalue().splitlines():
                for key, tag in (("Code Divergence: ", "div"), ("Coverage (%): ", "cov"), ("Avg. Coverage (%): ", "avg")):
                    if line.startswith(key):
                        rep[tag] = line[len(key):].strip()
        except Exception as e:  # noqa
            rep["summary"] = ["Err", type(e).__name__]
        plats = table_platforms(rows)
        if len(plats) >= 2:
            s = io.StringIO()
            png = common.scratch() / "c07-dendrogram.png"
            try:
                defined = all(not math.isnan(report.distance(setmap, p, q)) for p in plats for q in plats)
            except Exception:  # noqa
                defined = False
            if defined:
                try:
                    report.clustering(str(png), setmap, s)
                    rep["matrix"] = self._parse_matrix(s.getvalue(), plats)
                except Exception as e:  # noqa
                    rep["matrix"] = ["Err", type(e).__name__]
        return rep

    @staticmethod
    def _parse_matrix(text, plats):
        body = []
        hdr = None
        for line in text.splitlines():
            if line.startswith("│"):
                cells = [c.strip() for c in line.strip("│").split("│")]
                if hdr is None:
                    hdr = cells[1:]
                else:
                    body.append(cells)
        if hdr != [p.strip() for p in plats]:
            return ["Err", "matrix-header", hdr]
        if [r[0] for r in body] != [p.strip() for p in plats]:
            return ["Err", "matrix-rows"]
        return [r[1:] for r in body]

    # ------------------------------------------------------------ views
    def _ref_from(self, part):
        cov, avg, dist, div, plats = part
        return {"cov": [from_driver(x) for x in cov], "avg": [from_driver(x) for x in avg],
                "dist": [from_driver(x) for x in dist], "div": from_driver(div), "plats": sorted(plats)}

    def _with_report(self, case, ref):
        rows, args, prs, mode = case[:4]
        if mode & 4:
            ref = dict(ref)
            ref["meta"] = "same"
        if not (mode & 1):
            return ref
        ref = dict(ref)
        plats = table_platforms(rows)
        rep = {"div": ref["div"], "cov": ref["cov"][args.index(None)], "avg": ref["avg"][args.index(None)]}
        if len(plats) >= 2:
            look = {(p, q): d for (p, q), d in zip(map(tuple, prs), ref["dist"])}
            m = [[look.get((p, q), "missing") for q in plats] for p in plats]
            if all(x != "NaN" for r in m for x in r):
                rep["matrix"] = m
        if mode & 8:
            rep["cli"] = "table-as-recorded"
        ref["report"] = rep
        return ref

    def model_view(self, case, ans):
        ref = self._with_report(case, self._ref_from(ans[0]))
        self._m[self.key(case)] = ref
        return ref

    def spec(self, case, ans):
        rows = case[0]
        if any(c < 0 for (_, c) in rows):
            return None
        orc = oracle(case)
        ref = orc
        if ans is not None and not isinstance(ans, str) and ans[1] != "Skip":
            coq_s = self._ref_from(ans[1])
            self._oracle_n += 1
            if coq_s != orc and len(self._oracle_bad) < 5:
                self._oracle_bad.append({"case": case, "coq_S": coq_s, "oracle": orc})
            ref = coq_s
        ref = self._with_report(case, ref)
        self._s[self.key(case)] = ref
        return ref

    def _view(self, case, ia, ref):
        if ref is None:
            return ia
        tol = Fraction(1, 10 ** 9) if any(c < 0 for (_, c) in case[0]) else 0
        out = {"cov": [snap(o, r, tol) for o, r in zip(ia["cov"], ref["cov"])],
               "avg": [snap(o, r, tol) for o, r in zip(ia["avg"], ref["avg"])],
               "dist": [snap(o, r, tol) for o, r in zip(ia["dist"], ref["dist"])],
               "div": snap(ia["div"], ref["div"], tol),
               "plats": ia["plats"]}
        if "report" in ia:
            rep = {}
            rr = ref.get("report", {})
            for k, v in ia["report"].items():
                if k in ("div", "cov", "avg"):
                    rep[k] = snap_printed(v, rr.get(k))
                elif k == "matrix" and isinstance(v, list) and v and v[0] != "Err" and isinstance(rr.get(k), list) \
                        and len(rr[k]) == len(v):
                    rep[k] = [[snap_printed(x, y) for x, y in zip(r1, r2)] for r1, r2 in zip(v, rr[k])]
                else:
                    rep[k] = v
            out["report"] = rep
        if "meta" in ia:
            out["meta"] = ia["meta"]
        return out

    def impl_view_for_model(self, case, ia):
        return self._view(case, ia, self._m.get(self.key(case)))

    def impl_view_for_spec(self, case, ia):
        return self._view(case, ia, self._s.get(self.key(case)))

    # ------------------------------------------------------------ classification
    def in_domain(self, case, spec_ans):
        rows, args, prs, mode = case[:4]
        if spec_ans is None:
            return False
        if any(c < 0 for (_, c) in rows):
            return False
        if any(a is not None and len(set(a)) != len(a) for a in args):
            return False
        return True

    def nontrivial(self, case, ia):
        rows = case[0]
        h = self._hist
        if ia.get("div") == "NaN":
            h["nan_div"] += 1
        h["nan_dist"] += sum(1 for d in ia.get("dist", []) if d == "NaN")
        h["nan_cov"] = h.get("nan_cov", 0) + sum(1 for d in ia.get("cov", []) if d == "NaN")
        h["nan_avg"] = h.get("nan_avg", 0) + sum(1 for d in ia.get("avg", []) if d == "NaN")
        h["values_compared"] = h.get("values_compared", 0) + len(ia.get("cov", [])) + len(ia.get("avg", [])) \
            + len(ia.get("dist", [])) + 1
        if "report" in ia:
            h["report_cases"] += 1
            if isinstance(ia["report"].get("matrix"), list) and ia["report"]["matrix"][:1] != ["Err"]:
                h["clustering_run"] += 1
        if len(table_platforms(rows)) < 2 or sum(c for (_, c) in rows) <= 0:
            return False
        for d in ia["dist"]:
            if isinstance(d, list) and d[0] == "F" and 0.0 < float(d[1]) < 1.0:
                return True
        return False

    def classify(self, case, ia, sa):
        return None

    # ------------------------------------------------------------ shrinking
    def shrink(self, case, still_fails):
        rows, args, prs, mode = case[:4]
        if mode & 8:
            return case
        cur = [list(rows), list(args), list(prs), mode]

        def attempt(c):
            if c != cur and still_fails(c):
                return True
            return False
        # drop the report part first if not needed
        if mode & 1:
            c = [cur[0], cur[1], cur[2], mode & ~1]
            if attempt(c):
                cur = c
        for idx in (1, 2, 0):
            def f(items, idx=idx):
                c = list(cur)
                c[idx] = items
                if idx == 1 and None not in items and (cur[3] & 1):
                    return False
                return still_fails(c)
            cur[idx] = common.shrink_list(cur[idx], f, max_steps=150)
        # smaller counts
        for i in range(len(cur[0])):
            for v in (0, 1, 2, cur[0][i][1] // 2):
                if abs(v) < abs(cur[0][i][1]):
                    c = [[list(r) for r in cur[0]], cur[1], cur[2], cur[3]]
                    c[0][i][1] = v
                    if still_fails(c):
                        cur = c
                        break
        return cur

    # ------------------------------------------------------------ self tests and statistics
    def self_tests(self):
        out = []
        for b in self._oracle_bad:
            out.append("Coq S disagrees with the Python explicit-set oracle on " + str(b)[:400])
        # the snapping canonicaliser must reject a wrong float and accept a right one
        if snap(["F", "0.5"], "1/2") != "1/2" or snap(["F", "0.5000001"], "1/2") == "1/2" \
                or snap("NaN", "1/2") == "1/2" or snap(["F", "0.0"], "NaN") == "NaN":
            out.append("float canonicaliser self-test failed")
        if snap_printed("0.38", "3/8") != "3/8" or snap_printed("0.37", "3/8") != "3/8" or snap_printed("0.36", "3/8") == "3/8":
            out.append("printed-number canonicaliser self-test failed")
        return out

    def _distribution(self):
        h = self._hist
        for case in getattr(self, "_generated", []):
            rows, args, prs, mode = case[:4]
            np_ = len(table_platforms(rows))
            h["platforms"][str(np_)] = h["platforms"].get(str(np_), 0) + 1
            b = len(rows) if len(rows) <= 8 else ("9-16" if len(rows) <= 16 else "17-24")
            h["rows"][str(b)] = h["rows"].get(str(b), 0) + 1
            if any(c < 0 for (_, c) in rows):
                h["malformed"] += 1
            if any(c >= 10 ** 9 for (_, c) in rows):
                h["big_counts"] += 1
            if any(c == 0 for (_, c) in rows):
                h["zero_count_row"] = h.get("zero_count_row", 0) + 1
            if any(len(s_) == 0 for (s_, _) in rows):
                h["empty_set_row"] = h.get("empty_set_row", 0) + 1
            if mode & 2:
                h["list_argument"] = h.get("list_argument", 0) + 1
            if mode & 4:
                h["metamorphic"] = h.get("metamorphic", 0) + 1
            if mode & 8:
                h["cli_subprocess_cases"] = h.get("cli_subprocess_cases", 0) + 1
        return h

    def extra_coverage(self):
        return {"input_distribution": self._distribution(),
                "exhaustive": {"bound": "tables over <= 3 platforms, counts in {0,1,2,5}" +
                               (" (seed-rotated quarter in the quick tier)" if self.tier == "quick" else " (all 65536)") +
                               "; all 625 tables over <= 2 platforms with absent rows; every platforms argument"},
                "spec_oracle_cases": self._oracle_n,
                "spec_oracle_disagreements": len(self._oracle_bad)}


CHECK = C07
