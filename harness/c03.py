"""C03 — macro definition and expansion conform to the C standard.

I  = codebasin.preprocessor: DirectiveParser(...).parse() -> DefineNode.evaluate_for_platform /
     macro_from_definition_string -> Platform.define, then MacroExpander(platform).expand(tokens);
     for cases whose expansion is one integer also finder.find on `#if INPUT == k`.
M  = coq/theories/Model/C03*.v (extracted), S = Spec/C03.v (Prosser's hide-set algorithm, extracted).
Oracle for S (self test): gcc -E -P.
"""
from __future__ import annotations

import itertools
import json
import os
import re
import shutil
import subprocess
import warnings
from pathlib import Path

from . import common
from .common import Check, enc

warnings.filterwarnings("ignore")
import logging  # noqa: E402
logging.getLogger("codebasin").setLevel(logging.CRITICAL)

KINDS = {"NumericalConstant": 0, "CharacterConstant": 1, "StringConstant": 2, "Identifier": 3,
         "Operator": 4, "Punctuator": 5, "Unknown": 6}


def _pp():
    from codebasin import preprocessor
    return preprocessor


def lex(text):
    return _pp().Lexer(text).tokenize()


def tok_enc(t):
    return [KINDS[type(t).__name__], bool(t.prev_white), t.token.encode("latin-1", "replace")]


def canon_tok(t):
    k = type(t).__name__
    if k == "CharacterConstant":
        return "'" + t.token + "'"
    if k == "StringConstant":
        return '"' + t.token + '"'
    return str(t.token)


def head(m):
    if m["params"] is None:
        return m["name"]
    return m["name"] + "(" + ",".join(m["params"]) + ")"


def define_text(m):
    return "#define " + head(m) + ("" if m["body"] is None else " " + m["body"])


def dash_d_text(m):
    return head(m) + ("" if m["body"] is None else "=" + m["body"])


def is_D(m):
    return m.get("via") == "D"


# ----------------------------------------------------------------------------
# generator
# ----------------------------------------------------------------------------
OBJ = ["A", "B", "C", "None"]
FUN = ["F", "G", "H"]
FREE = ["p", "q", "x", "y", "__VA_ARGS__"]
NUMS = ["0", "1", "2", "7"]
OPS = ["+", "*", "-", "<", "=="]


class Gen:
    def __init__(self, rng):
        self.r = rng

    def table(self, nmax=4, p_fun=0.55, p_hash=0.5):
        r = self.r
        n = r.randint(1, nmax)
        names = r.sample(OBJ + FUN, n)
        ms = []
        for nm in names:
            fun = (nm in FUN) if r.random() < 0.9 else (nm not in FUN)
            if fun and r.random() < p_fun + 0.45:
                k = r.choice([0, 1, 1, 2, 2, 3])
                params = ["x", "y", "z"][:k]
                if r.random() < 0.25:
                    params = params[:2] + [r.choice(["...", "...", "va..."])]
            else:
                params = None
            ms.append({"name": nm, "params": params, "body": None, "via": "D" if r.random() < 0.25 else "define"})
        for m in ms:
            m["body"] = self.body(m, ms, p_hash)
            if m["body"] is None and not is_D(m):
                m["body"] = ""
        return ms

    def pnames(self, m):
        if m["params"] is None:
            return []
        out = []
        for p in m["params"]:
            if p == "...":
                out.append("__VA_ARGS__")
            elif p.endswith("..."):
                out.append(p[:-3])
            else:
                out.append(p)
        return out

    def atom(self, m, ms, depth=0):
        r = self.r
        ps = self.pnames(m)
        c = r.random()
        if ps and c < 0.35:
            return r.choice(ps)
        if c < 0.5:
            return r.choice(NUMS)
        if c < 0.58:
            return r.choice(FREE)
        if c < 0.66:
            return r.choice(OPS)
        # a reference to a macro of the table (possibly itself): bare or called
        t = r.choice(ms)
        if t["params"] is None or r.random() < 0.3 or depth > 1:
            return t["name"]
        return t["name"] + self.call_args(t, lambda: self.arg(m, ms, depth + 1))

    def arg(self, m, ms, depth):
        r = self.r
        k = r.choice([0, 1, 1, 1, 2])
        parts = [self.atom(m, ms, depth) for _ in range(k)]
        if parts and r.random() < 0.12:
            return "(" + " ".join(parts) + ")"
        if parts and r.random() < 0.06:
            return "(" + parts[0] + "," + " ".join(parts[1:] or ["1"]) + ")"
        return " ".join(parts)

    def call_args(self, t, mk):
        r = self.r
        n = len(t["params"])
        variadic = n > 0 and t["params"][-1].endswith("...")
        if variadic:
            k = r.choice([n - 1, n, n, n + 1, n + 2]) if n > 1 else r.choice([0, 1, 2, 3])
        else:
            k = n if r.random() < 0.93 else max(0, n + r.choice([-1, 1]))
        args = [mk() for _ in range(k)]
        sep = r.choice([",", ",", ", ", " , "])
        sp = r.choice(["", "", "", " "])
        return sp + "(" + sep.join(args) + ")"

    def body(self, m, ms, p_hash):
        r = self.r
        ps = self.pnames(m)
        if r.random() < 0.06:
            return None if is_D(m) else ""
        k = r.choice([1, 1, 2, 2, 3, 3, 4, 5])
        parts = []
        for _ in range(k):
            c = r.random()
            if ps and c < 0.10 * 2 * p_hash:
                parts.append(r.choice(["#", "# "]) + r.choice(ps))
            elif c < 0.22 * 2 * p_hash and (ps or r.random() < 0.3):
                chain = [self.cat_operand(ps) for _ in range(r.choice([2, 2, 2, 3]))]
                parts.append(r.choice(["##", " ## ", "## "]).join(chain))
            else:
                parts.append(self.atom(m, ms))
        return " ".join(parts)

    def cat_operand(self, ps):
        r = self.r
        c = r.random()
        if ps and c < 0.6:
            return r.choice(ps)
        if c < 0.8:
            return r.choice(["1", "2", "p", "q_", "A", "F"])
        return r.choice(["p", "0x", "L", "_"])

    def invocation(self, ms, k=None):
        r = self.r
        fake = {"params": None, "name": "", "body": ""}
        k = k or r.choice([1, 1, 2, 2, 3, 4])
        parts = []
        for _ in range(k):
            c = r.random()
            if c < 0.75:
                t = r.choice(ms)
                if t["params"] is None or r.random() < 0.12:
                    parts.append(t["name"])
                else:
                    parts.append(t["name"] + self.call_args(t, lambda: self.arg(fake, ms, 0)))
                # following source tokens that a rescanned function-like name may pick up
                while r.random() < 0.22:
                    parts.append("(" + ",".join(self.arg(fake, ms, 1) for _ in range(r.choice([1, 1, 2]))) + ")")
            elif c < 0.85:
                parts.append(r.choice(NUMS + FREE))
            elif c < 0.93:
                parts.append(r.choice(OPS))
            else:
                parts.append(r.choice(["defined " + r.choice(OBJ + FUN), "defined(" + r.choice(OBJ + FUN) + ")", "(", ")", ","]))
        return " ".join(parts)

    def case(self, **kw):
        ms = self.table(**kw)
        return {"macros": ms, "input": self.invocation(ms)}

    def operand_only(self):
        """arguments that must NOT be macro-expanded: a parameter used only as operand of # / ## (or an
        unused variable argument) receives a call with the wrong number of arguments; in domain because a
        conforming preprocessor never expands it"""
        r = self.r
        inner_n = r.choice([1, 2, 2, 3])
        inner = {"name": "F", "params": ["x", "y", "z"][:inner_n], "body": " ".join(["x", "y", "z"][:inner_n]), "via": "define"}
        k = r.choice([1, 2, 3])
        ps = ["a", "b", "c"][:k]
        p = r.choice(ps)
        # `_ ## p` glues `_` onto the macro name of the call, which therefore never is a call
        forms = ["#" + p, "_ ## " + p, "#" + p + " _ ## " + p, "# " + p + " q"]
        others = [q for q in ps if q != p]
        body = " ".join([r.choice(forms)] + ([r.choice(others)] if others and r.random() < 0.6 else []) +
                        ([r.choice(["1", "+", "G"])] if r.random() < 0.4 else []))
        outer = {"name": "S", "params": list(ps), "body": body, "via": r.choice(["define", "define", "D"])}
        ms = [inner, outer]
        if r.random() < 0.4:
            ms.append({"name": "V", "params": ["x", "..."], "body": r.choice(["x", "", "#x"]), "via": "define"})
        wrong = r.choice([n for n in range(0, 5) if n != inner_n and not (inner_n == 1 and n == 0)])
        bad_call = "F(" + ",".join(r.choice(["1", "p", "", "(2)"]) for _ in range(wrong)) + ")"
        if wrong == 0:
            bad_call = "F()" if inner_n > 1 else "F(1,2)"
        args = []
        for q in ps:
            if q == p:
                args.append(r.choice(["", " "]) + bad_call)
            else:
                args.append(r.choice(["1", "p", "F", ""]))
        inp = "S(" + ",".join(args) + ")"
        if len(ms) == 3 and r.random() < 0.7:
            inp += " V(1, " + bad_call + ")"
        return {"macros": ms, "input": inp}

    def funlike_flat(self):
        """the fragment of C03_funlike_partial: object-like + fixed-arity function-like macros without # / ##,
        no function-like name in replacement lists; invocations with flat arguments (object-like names allowed)"""
        r = self.r
        objs = r.sample(["A", "B", "C", "N"], r.randint(0, 3))
        funs = r.sample(["F", "G", "H"], r.randint(1, 2))
        ms = []

        def body(params):
            k = r.choice([1, 2, 3, 4, 5])
            pool = list(params) * 2 + objs + ["1", "2", "p", "+", "*", "==", "(", ")"] + funs[:0]
            return " ".join(r.choice(pool) for _ in range(k))
        for o in objs:
            ms.append({"name": o, "params": None, "body": body([]), "via": r.choice(["define", "D"])})
        arity = {}
        for f in funs:
            n = r.choice([1, 1, 2, 2, 3])
            arity[f] = n
            ms.append({"name": f, "params": ["x", "y", "z"][:n], "body": body(["x", "y", "z"][:n]), "via": r.choice(["define", "define", "D"])})
        r.shuffle(ms)
        parts = []
        for _ in range(r.choice([1, 2, 3])):
            c = r.random()
            if c < 0.7:
                f = r.choice(funs)
                args = [" ".join(r.choice(["1", "7", "p", "q", "+", "-"] + objs * 2) for _ in range(r.choice([0, 1, 1, 2])))
                        for _ in range(arity[f])]
                parts.append(f + r.choice(["", " "]) + "(" + r.choice([",", ", ", " , "]).join(args) + ")")
            elif c < 0.85:
                parts.append(r.choice(objs + ["1", "p", "+", "=="]))
            else:
                x = r.choice(objs + funs + ["Z"])
                parts.append(r.choice(["defined " + x, "defined(" + x + ")", "defined ( " + x + " )"]) + r.choice([" &&", " ||", ""]))
        return {"macros": ms, "input": " ".join(parts)}

    def selfref_applied(self):
        """a function-like macro whose replacement list contains its own name (or the name of a macro that is
        being expanded around it) NOT followed by '(' - typically as the last token -, passed as an ARGUMENT to a
        macro that applies its parameter: m(2), `m a` with a = (2), ID(x) followed by '(' in the source.
        The name must stay painted (C11 6.10.3.4p2) although its own context has been popped and although the
        scan that met it ended at the pre-expansion barrier."""
        r = self.r
        via = lambda: r.choice(["define", "define", "D"])
        k = r.choice([0, 0, 0, 1, 2])
        ms = []
        if k == 0:      # direct: f(x) -> ... f
            fb = r.choice(["x + f", "x f", "f", "x * f", "f + x", "x + f + x", "(x) f", "x + 1 + f"])
            ms.append({"name": "f", "params": ["x"], "body": fb, "via": via()})
        elif k == 1:    # indirect through a function-like macro that is still being expanded
            ms.append({"name": "f", "params": ["x"], "body": r.choice(["g(x)", "g(x) + 1", "1 + g(x)"]), "via": via()})
            ms.append({"name": "g", "params": ["x"], "body": r.choice(["x + f", "x f", "x + g", "f"]), "via": via()})
        else:           # indirect through an object-like macro
            ms.append({"name": "f", "params": ["x"], "body": r.choice(["x + h", "x h", "h"]), "via": via()})
            ms.append({"name": "h", "params": None, "body": r.choice(["f", "1 + f", "f + 1"]), "via": via()})
        shape = r.choice(["CALL", "CALL", "AP", "ID", "ID", "ID2", "TOP"])
        arg = "f(" + r.choice(["1", "2", "p", "1 + 1"]) + ")"
        tail = "(" + r.choice(["2", "3", "q", "1, 2"]) + ")"
        if shape == "CALL":
            ms.append({"name": "CALL", "params": ["m"], "body": r.choice(["m(2)", "m (3)", "m(2) + 1", "1 + m(2)", "m(m(2))"]), "via": via()})
            inp = "CALL(" + arg + ")"
        elif shape == "AP":
            ms.append({"name": "AP", "params": ["m", "a"], "body": r.choice(["m a", "m a + 1"]), "via": via()})
            inp = "AP(" + arg + "," + r.choice(["", " "]) + tail + ")"
        elif shape == "ID":
            ms.append({"name": "ID", "params": ["x"], "body": r.choice(["x", "x", "(x)", "1 + x"]) if r.random() < 0.8 else "x", "via": via()})
            if ms[-1]["body"] == "(x)":
                ms[-1]["body"] = "x"
            inp = "ID(" + arg + ")" + r.choice(["", " "]) + tail
        elif shape == "ID2":
            ms.append({"name": "ID", "params": ["x"], "body": "x", "via": via()})
            inp = "ID(ID(" + arg + "))" + tail
        else:
            inp = arg + tail
        if r.random() < 0.3:
            inp = inp + " " + r.choice(["+ 1", "+ f(1)", "* 2"])
        r.shuffle(ms)
        return {"macros": ms, "input": inp}

    def painted_paste(self):
        """a PAINTED name used as an operand of ##: a self-referential macro passes its own name through the
        argument of an outer macro (where pre-expansion paints it) into a nested macro that pastes it; the
        result of ## is a NEW token that is rescanned normally, whether it spells a macro name (object- or
        function-like), a number or nothing known"""
        r = self.r
        via = lambda: r.choice(["define", "define", "D"])
        ms = []
        levels = r.choice([2, 2, 2, 3])
        pa, pb = r.choice([("a", "b"), ("x", "y")])
        order = r.choice([pa + "##" + pb, pa + " ## " + pb, pa + "##" + pb + " " + r.choice(["", "+ 1"])]).strip()
        ms.append({"name": "CAT_", "params": [pa, pb], "body": order, "via": via()})
        if levels == 3:
            ms.append({"name": "CAT2", "params": ["a", "b"], "body": "CAT_(a,b)", "via": via()})
            ms.append({"name": "CAT", "params": ["a", "b"], "body": r.choice(["CAT2(a,b)", "CAT2(a, b)"]), "via": via()})
        else:
            ms.append({"name": "CAT", "params": ["a", "b"], "body": r.choice(["CAT_(a,b)", "CAT_(a, b)", "CAT_(a,b) + 0"]), "via": via()})
        kind = r.choice(["obj", "obj", "fun", "fun2", "right", "both"])
        suffix = r.choice(["1", "2", "_y", "X", "1"])
        if kind == "obj":
            ms.append({"name": "X", "params": None, "body": "CAT(X," + suffix + ")" + r.choice(["", " + 1"]), "via": via()})
            inp = r.choice(["X", "X + X", "CAT(X,1)"])
            pasted = "X" + suffix
        elif kind == "fun":
            ms.append({"name": "X", "params": ["n"], "body": "CAT(X,n)", "via": via()})
            inp = "X(" + suffix + ")"
            pasted = "X" + suffix
        elif kind == "fun2":
            ms.append({"name": "X", "params": ["n"], "body": "CAT(X,n)", "via": via()})
            inp = "X(" + suffix + ")(3)"
            pasted = "X" + suffix
        elif kind == "right":
            ms.append({"name": "X", "params": None, "body": "CAT(" + r.choice(["Y", "p", "X"]) + ",X)", "via": via()})
            inp = "X"
            pasted = r.choice(["YX", "pX", "XX"])
        else:
            ms.append({"name": "X", "params": None, "body": "CAT(X,X)", "via": via()})
            inp = "X"
            pasted = "XX"
        # what the pasted spelling means
        c = r.random()
        if re.fullmatch(r"[A-Za-z_]\w*", pasted) and pasted not in ("X",):
            if c < 0.45:
                ms.append({"name": pasted, "params": None, "body": r.choice(["5", "7 + 1", "X", "X + 5", pasted]), "via": via()})
            elif c < 0.75:
                ms.append({"name": pasted, "params": ["y"], "body": r.choice(["y + 1", "y", "X(y)", "y * 2"]), "via": via()})
        r.shuffle(ms)
        return {"macros": ms, "input": inp}

    def variadic_count(self):
        """argument counting / picking with variadic macros (unnamed `...` and named `rest...`), zero, one and
        many variable arguments; always evaluated at least twice over one parsed tree"""
        r = self.r
        via = lambda: r.choice(["define", "define", "define", "D"])
        k = r.choice(["NARGS", "NARGS", "PICK", "REST", "FIRST"])
        ms = []
        if k == "NARGS":
            ms.append({"name": "NARGS_", "params": ["a", "b", "c", "n", "..."], "body": "n", "via": via()})
            ms.append({"name": "NARGS", "params": ["..."], "body": "NARGS_(__VA_ARGS__,3,2,1,0)", "via": via()})
            inp = "NARGS(" + ",".join(r.choice(["p", "q", "1", "(1,2)"]) for _ in range(r.choice([1, 2, 3]))) + ")"
        elif k == "PICK":
            ms.append({"name": "PICK", "params": ["x", "rest..."], "body": r.choice(["x + SECOND(rest, 0, 0)", "SECOND(rest, 7, 8) x", "SECOND(x, rest, 9)"]), "via": via()})
            ms.append({"name": "SECOND", "params": ["a", "b", "..."], "body": "b", "via": via()})
            inp = "PICK(" + ",".join(r.choice(["1", "2", "p", "q"]) for _ in range(r.choice([1, 2, 3, 4]))) + ")"
        elif k == "REST":
            ms.append({"name": "REST", "params": ["x", r.choice(["...", "rest..."])], "body": None, "via": via()})
            ms[-1]["body"] = "[" + ("__VA_ARGS__" if ms[-1]["params"][-1] == "..." else "rest") + "] x"
            inp = "REST(" + ",".join(r.choice(["1", "2", "p", ""]) for _ in range(r.choice([1, 2, 3]))) + ")"
        else:
            ms.append({"name": "FIRST", "params": ["..."], "body": "FIRST_(__VA_ARGS__, 0)", "via": via()})
            ms.append({"name": "FIRST_", "params": ["a", "..."], "body": r.choice(["a", "a #__VA_ARGS__"]), "via": via()})
            inp = "FIRST(" + ",".join(r.choice(["1", "2", "p"]) for _ in range(r.choice([0, 1, 2, 3]))) + ")"
        if r.random() < 0.3:
            inp += " + " + inp
        r.shuffle(ms)
        c = {"macros": ms, "input": inp}
        if any(not is_D(m) for m in ms):
            c["history"] = r.choice([2, 2, 3])
        return c

    def malformed(self):
        r = self.r
        c = self.case()
        m = r.choice(c["macros"])
        k = r.randint(0, 9)
        if k == 0:
            m["body"] = "## " + (m["body"] or "1")
        elif k == 1:
            m["body"] = (m["body"] or "1") + " ##"
        elif k == 2 and m["params"] is not None:
            m["body"] = "# 1 " + (m["body"] or "")
        elif k == 3:
            c["input"] = c["input"] + " " + r.choice(FUN) + "(1"
        elif k == 4 and m["params"]:
            m["params"] = m["params"] + [m["params"][0]]
        elif k == 5:
            c["macros"].append(dict(c["macros"][0]))
        elif k == 6:
            m["body"] = (m["body"] or "") + ' "s t" ' + "'c'"
        elif k == 7:
            c["input"] = c["input"].replace(",", ",,", 1).replace("(", "((", 1)
        elif k == 8:
            m["body"] = "+ ## - 1 ## 2 ## x"
        else:
            c["input"] = "defined " + c["input"] + " defined"
        return c


def exhaustive(tier):
    """Every table {A := b1 ; F(x) := b2} with bodies of <= L tokens over a small alphabet,
    crossed with a few invocations that exercise rescanning with the following source."""
    alpha = ["A", "F", "x", "1", "(", ")"] if tier == "quick" else ["A", "F", "x", "1", "(", ")", "+", "F(x)"]
    L = 2
    bodies = [""]
    for n in range(1, L + 1):
        bodies += [" ".join(p) for p in itertools.product(alpha, repeat=n)]
    inputs = ["A", "F(A)", "F(1)(2)", "A(F)(3)"] if tier == "quick" else ["A", "F(A)", "F(1)(2)", "A(F)(3)", "F(F)(A)", "F((A),1)", "F()"]
    out = []
    for b1 in bodies:
        if "x" in b1.split():
            continue
        for b2 in bodies:
            for inp in inputs:
                out.append({"macros": [{"name": "A", "params": None, "body": b1, "via": "define"},
                                       {"name": "F", "params": ["x"], "body": b2, "via": "define"}],
                            "input": inp})
    return out


# ----------------------------------------------------------------------------
class C03(Check):
    prop_id = "C03"
    rule = ("macro tables of 1-4 macros (object-like / function-like with 0-3 parameters / variadic `...` and `name...`; "
            "via #define or -D) whose bodies come from the property's grammar (identifiers, numbers, operators, parameter "
            "uses, #param, a##b chains, __VA_ARGS__, bare and called references to macros of the table incl. themselves), "
            "crossed with invocations with 0..n+2 arguments incl. empty, parenthesised and comma-in-parentheses arguments, "
            "nested calls, bare function-like names and extra parenthesised groups after a call; a stream of painted "
            "self-references (own name / name of an enclosing macro not followed by '(' in a replacement list) passed as "
            "argument to a macro that applies its parameter (m(2), m a, ID(x)(...)); a stream of painted names used as "
            "## operands through two- and three-level paste helpers (results: macro names, numbers, unknown names); "
            "variadic counting macros (NARGS, PICK(x, rest...)); HISTORY: 30 % of the cases with a function-like #define "
            "(60 % when variadic, all of the counting stream) evaluate the SAME parsed DefineNodes and expression tokens 2-3 "
            "times for fresh Platforms and must give the same answer each time; an exhaustive block of "
            "all tables {A:=b1; F(x):=b2} with bodies of <= 2 tokens; a malformed stream.  A case is non-trivial when the "
            "expansion differs from the input AND a function-like macro, a # / ## operator or a nested replacement took part")
    assumptions = ["token lists are produced by the real Lexer.tokenize on ASCII text (lexing itself is C17's subject)",
                   "S = Prosser's hide-set algorithm; validated against gcc -E -P in self_tests; white-space inside "
                   "stringified arguments follows the convention described in docs/C03.md"]

    def __init__(self, tier, seed):
        super().__init__(tier, seed)
        self.hist = {}
        self.oracle = {"cases": 0, "skipped_gcc_diagnosed": 0, "disagreements": 0}
        self._spec_log = []
        self._impl_cache = {}
        self._gcc_asked = 0

    # ---- generation ----
    def generate(self):
        g = Gen(self.rng)
        quick = self.tier == "quick"
        n_rand = 2500 if quick else 60000
        n_obj = 300 if quick else 6000
        n_mal = 250 if quick else 5000
        out = []
        ex = exhaustive(self.tier)
        out += ex
        for _ in range(n_rand):
            out.append(g.case())
        for _ in range(n_obj):   # the fragment of C03_objlike: object-like only, no ##
            ms = g.table(nmax=5, p_fun=-1.0, p_hash=0.0)
            for m in ms:
                m["params"] = None
            for m in ms:
                m["body"] = g.body(m, ms, 0.0) or ""
            out.append({"macros": ms, "input": g.invocation(ms)})
        for _ in range(n_mal):
            out.append(g.malformed())
        n_ff = 250 if quick else 5000
        for _ in range(n_ff):   # the fragment of C03_funlike_partial
            out.append(g.funlike_flat())
        self.hist["funlike_flat_block"] = n_ff
        n_sr = 300 if quick else 5000
        self._selfref = []
        for _ in range(n_sr):   # painted self-reference applied to arguments later on
            c = g.selfref_applied()
            out.append(c)
            self._selfref.append(c)
        self.hist["selfref_applied_block"] = n_sr
        n_vc = 200 if quick else 4000
        self._vcount = []
        for _ in range(n_vc):   # variadic counting, evaluated twice over one parsed tree
            c = g.variadic_count()
            out.append(c)
            self._vcount.append(c)
        self.hist["variadic_count_block"] = n_vc
        n_pp = 300 if quick else 5000
        self._ppaste = []
        for _ in range(n_pp):   # a painted name as operand of ##
            c = g.painted_paste()
            out.append(c)
            self._ppaste.append(c)
        self.hist["painted_paste_block"] = n_pp
        n_op = 200 if quick else 4000
        for _ in range(n_op):
            out.append(g.operand_only())
        self.hist["operand_only_block"] = n_op
        # HISTORY dimension: cases with a function-like `#define` are evaluated twice (or three times) over
        # ONE parsed tree: 30 % of them, 60 % when the macro is variadic (decided by the case PRNG)
        n_hist = 0
        for c in out:
            if "history" in c:
                continue
            fl = [m for m in c["macros"] if m["params"] is not None and not is_D(m)]
            if not fl:
                continue
            va = any(m["params"] and m["params"][-1].endswith("...") for m in fl)
            if self.rng.random() < (0.6 if va else 0.3):
                c["history"] = self.rng.choice([2, 2, 3])
                n_hist += 1
        self.hist["history_cases_evaluated_twice_or_more"] = n_hist
        good = []
        for c in out:
            try:
                self.prepare(c)
                good.append(c)
            except Exception:
                self.hist["generator_rejected"] = self.hist.get("generator_rejected", 0) + 1
        self.hist["exhaustive_block"] = len(ex)
        return good

    # ---- encoding ----
    def prepare(self, c):
        """token-level form of a case: per macro (via, mtoks, name, isfun, params, variadic, btoks); input tokens"""
        ms = []
        for m in c["macros"]:
            via, hl = 0, 0
            if is_D(m):
                # the same split as macro_from_definition_string (str.partition is not part of the model)
                hd, sep, value = dash_d_text(m).partition("=")
                mt = lex(hd + " " + value)
                hl = len(lex(hd))
                via = 1 if sep else 2
            else:
                mt = lex(define_text(m))[2:]
            params = []
            variadic = False
            if m["params"] is not None:
                for p in m["params"]:
                    if p == "...":
                        params.append("__VA_ARGS__")
                        variadic = True
                    elif p.endswith("..."):
                        params.append(p[:-3])
                        variadic = True
                    else:
                        params.append(p)
            body = m["body"]
            if body is None:
                body = "1" if is_D(m) else ""
            ms.append([via, hl, [tok_enc(t) for t in mt], m["name"].encode(), m["params"] is not None,
                       [p.encode() for p in params], variadic, [tok_enc(t) for t in lex(body)]])
        return [ms, [tok_enc(t) for t in lex(c["input"])]]

    def encode(self, case):
        return enc(self.prepare(case))

    # ---- implementation ----
    def parse_defines(self, case):
        """the `#define` lines of a case parsed ONCE (the DefineNodes of the cached source tree); None for -D"""
        pp = _pp()
        nodes = []
        for i, m in enumerate(case["macros"]):
            if is_D(m):
                nodes.append(None)
                continue
            try:
                node = pp.DirectiveParser(lex(define_text(m))).parse()
            except Exception as e:  # noqa
                return None, ["DefErr", i, type(e).__name__]
            if not isinstance(node, pp.DefineNode):
                return None, ["DefErr", i, "ParseError"]
            nodes.append(node)
        return nodes, None

    def platform(self, case, nodes=None):
        """a fresh Platform with the definitions of the case: DefineNode.evaluate_for_platform on the (possibly
        shared, already evaluated) nodes, macro_from_definition_string for -D"""
        pp = _pp()
        from codebasin import platform
        if nodes is None:
            nodes, err = self.parse_defines(case)
            if err:
                return None, err
        plat = platform.Platform("verif", "/")
        for i, m in enumerate(case["macros"]):
            try:
                if is_D(m):
                    macro = pp.macro_from_definition_string(dash_d_text(m))
                    plat.define(macro.name, macro)
                else:
                    nodes[i].evaluate_for_platform(platform=plat)
            except Exception as e:  # noqa
                return None, ["DefErr", i, type(e).__name__]
        return plat, None

    def impl(self, case):
        """the real code, with a 3 s alarm per case (a non-terminating expansion is an answer, not a hang)"""
        import signal

        class _Timeout(BaseException):
            pass

        def on_alarm(signum, frame):
            raise _Timeout()
        old = signal.signal(signal.SIGALRM, on_alarm)
        signal.setitimer(signal.ITIMER_REAL, 3.0)
        try:
            r = self._impl(case)
        except _Timeout:
            r = ["Err", "Timeout"]
        finally:
            signal.setitimer(signal.ITIMER_REAL, 0)
            signal.signal(signal.SIGALRM, old)
        self._impl_cache[self.key(case)] = r
        return r

    def _impl_once(self, case, nodes, toks):
        pp = _pp()
        plat, err = self.platform(case, nodes)
        if err:
            return err
        try:
            out = pp.MacroExpander(plat).expand(toks)
        except Exception as e:  # noqa
            return ["Err", type(e).__name__]
        return ["Ok", [canon_tok(t) for t in out], [1 if t.prev_white else 0 for t in out]]

    def _impl(self, case):
        """HISTORY: a case with "history": n > 1 evaluates the SAME parsed directives (DefineNodes and the token
        list of the controlling expression, as the cached source tree holds them) n times, each time for a fresh
        Platform - what finder.find does for a second platform, a second translation unit including the same
        header, or a second inclusion.  Every evaluation must give the same answer; the answer compared with M and
        S is the last one."""
        nodes, err = self.parse_defines(case)
        if err:
            return err
        toks = lex(case["input"])
        n = int(case.get("history", 1))
        results = [self._impl_once(case, nodes, toks) for _ in range(max(1, n))]
        if any(r != results[0] for r in results[1:]):
            return ["HistoryDiffers", results[0], results[-1]]
        return results[-1]

    LARGE = 300    # tokens; beyond this an expansion is outside what the model's fuel is sized for

    def model_view(self, case, ans):
        m = ans[0]
        if m[0] == "Err" and m[1] == "OutOfFuel":
            ia = self._impl_cache.get(self.key(case))
            if ia is not None and ia[0] == "Ok" and len(ia[1]) > self.LARGE:
                # the implementation finished with a very large expansion, the model ran out of its fixed
                # fuel: no answer from M, counted, not compared (a small expansion with M out of fuel IS compared)
                self.hist["model_out_of_fuel_on_large_expansion"] = self.hist.get("model_out_of_fuel_on_large_expansion", 0) + 1
                return None
        if m[0] == "Ok":
            # spellings AND prev_white flags are compared between I and M
            return ["Ok", [str(x) for x in m[1]], [int(x) for x in m[2]]]
        if m[0] == "DefErr":
            return ["DefErr", m[1], m[2]]
        return ["Err", m[1]]

    def spec(self, case, ans):
        if ans is None or isinstance(ans, str):
            return None
        s = ans[1]
        if s[0] == "Ok":
            r = ["Ok", [str(x) for x in s[1]]]
        else:
            r = ["Err", s[1]]
        if len(self._spec_log) < 200000:
            self._spec_log.append((case, r))
        k = "S:" + (r[0] if r[0] == "Ok" else r[1])
        self.hist[k] = self.hist.get(k, 0) + 1
        return r

    def impl_view_for_spec(self, case, impl_ans):
        # S is compared on the token spellings only
        if impl_ans[0] == "Ok":
            return ["Ok", impl_ans[1]]
        return impl_ans

    def in_domain(self, case, spec_ans):
        """Inside the quantifier: S accepts the case, and - when the implementation disagrees with S - gcc
        does not overrule S.  Prosser's hide sets are stricter than gcc/clang where ISO C is silent (a name
        stays hidden in the result of a function-like invocation whose name and parentheses both come from
        an expansion that is already complete); such a case has no single conforming answer."""
        if spec_ans is None or spec_ans[0] != "Ok":
            return False
        ia = self._impl_cache.get(self.key(case))
        if ia is None or self.impl_view_for_spec(case, ia) == spec_ans or ia[0] != "Ok":
            return True
        if self._gcc_asked >= 300 or shutil.which("gcc") is None or "defined" in case["input"]:
            return True
        self._gcc_asked += 1
        got = self.gcc_tokens(case)
        if got is not None and got != spec_ans[1]:
            self.oracle["spec_overruled_by_gcc"] = self.oracle.get("spec_overruled_by_gcc", 0) + 1
            self.oracle.setdefault("spec_overruled_example", {"case": case, "spec": spec_ans[1], "gcc": got})
            return False
        return True

    def gcc_tokens(self, case):
        """token spellings of gcc -E -P on the case, or None when gcc prints a diagnostic"""
        d = common.scratch() / "c03gcc"
        d.mkdir(parents=True, exist_ok=True)
        lines = [define_text(m) for m in case["macros"] if not is_D(m)]
        lines.append("@@START@@")
        lines.append(case["input"])
        src = d / "t.c"
        src.write_text("\n".join(lines) + "\n")
        args = ["gcc", "-E", "-P", "-undef", "-nostdinc", "-x", "c"] + \
               ["-D" + dash_d_text(m) for m in case["macros"] if is_D(m)] + [str(src)]
        try:
            p = subprocess.run(args, capture_output=True, text=True, timeout=30)
        except Exception:
            return None
        if p.returncode != 0 or p.stderr.strip():
            return None
        out = p.stdout.split("@@START@@", 1)
        if len(out) != 2:
            return None
        try:
            return [canon_tok(t) for t in lex(out[1])]
        except Exception:
            return None

    def nontrivial(self, case, impl_ans):
        if impl_ans[0] != "Ok":
            return False
        try:
            src = [canon_tok(t) for t in lex(case["input"])]
        except Exception:
            return False
        if impl_ans[1] == src:
            return False
        txt = " ".join((m["body"] or "") for m in case["macros"])
        return any(m["params"] is not None for m in case["macros"]) or "#" in txt or \
            any(n["name"] in (m["body"] or "") for m in case["macros"] for n in case["macros"])

    # ---- known-finding classes (narrow predicates; see findings/C03.json) ----
    @staticmethod
    def _body_toks(m):
        try:
            return [(type(t).__name__, t.token) for t in lex(m["body"] or "")]
        except Exception:
            return []

    def _params(self, m):
        return Gen(None).pnames(m)

    _max_level = None

    def max_level(self):
        if C03._max_level is None:
            src = (common.REPO / "codebasin" / "preprocessor.py").read_text()
            C03._max_level = int(re.search(r"self\.max_level\s*=\s*(\d+)", src).group(1))
        return C03._max_level

    def classify(self, case, impl_ans, spec_ans):
        ms = case["macros"]
        # (0) the 200-level backstop: only tables with at least max_level-1 macros can reach it
        if impl_ans[:2] == ["Ok", ["0"]] and len(ms) >= self.max_level() - 1:
            return "depth-limit-200"
        variadic = [m for m in ms if m["params"] and m["params"][-1].endswith("...")]
        hashy = [m for m in ms if m["params"] is not None and "#" in (m["body"] or "")]
        return None

    # ---- shrinking ----
    def shrink(self, case, still_fails):
        cur = json.loads(json.dumps(case))

        def attempt(c):
            try:
                self.prepare(c)
            except Exception:
                return False
            return still_fails(c)
        changed = True
        steps = 0
        import time as _time
        t_end = _time.time() + 90
        while changed and steps < 200 and _time.time() < t_end:
            changed = False
            for i in range(len(cur["macros"])):
                c = json.loads(json.dumps(cur))
                del c["macros"][i]
                steps += 1
                if c["macros"] and attempt(c):
                    cur, changed = c, True
                    break
            if changed:
                continue
            for field in ["input"] + list(range(len(cur["macros"]))):
                text = cur["input"] if field == "input" else (cur["macros"][field]["body"] or "")
                parts = re.findall(r"\s*(?:[A-Za-z_0-9.]+|##|==|\S)", text)
                for j in range(len(parts)):
                    t2 = "".join(parts[:j] + parts[j + 1:]).strip()
                    c = json.loads(json.dumps(cur))
                    if field == "input":
                        c["input"] = t2
                    else:
                        c["macros"][field]["body"] = t2
                    steps += 1
                    if t2 != text and attempt(c):
                        cur, changed = c, True
                        break
                if changed:
                    break
        return cur

    # ---- second observation point: `#if INPUT == k` through finder.find ----
    def if_observation(self, case, value):
        """finder.find on  #defines / #if INPUT == value / #else / #endif ; returns (then_taken, else_taken)"""
        import codebasin
        from codebasin import finder
        root = common.scratch() / "c03if"
        if root.exists():
            shutil.rmtree(root)
        root.mkdir(parents=True)
        lines = []
        defs = []
        for m in case["macros"]:
            if is_D(m):
                defs.append(dash_d_text(m))
            else:
                lines.append(define_text(m))
        lines += [f"#if ({case['input']}) == {value}", "int then_branch;", "#else", "int else_branch;", "#endif", ""]
        f = root / "main.c"
        f.write_text("\n".join(lines))
        cb = codebasin.CodeBase(root)
        # two platforms over ONE parsed tree: the second evaluation must select the same branch
        entry = {"file": str(f), "defines": defs, "include_paths": [], "include_files": []}
        cfg = {"p": [dict(entry)], "p2": [dict(entry)]}
        state = finder.find(root, cb, cfg)
        tree = state.get_tree(str(f))
        assoc = state.get_map(str(f))
        then_line = lines.index("int then_branch;") + 1
        else_line = lines.index("int else_branch;") + 1
        res = {}
        for node in tree.walk():
            if type(node).__name__ == "CodeNode":
                if then_line in node.lines:
                    res["then"] = "p" in assoc[node]
                    res["then2"] = "p2" in assoc[node]
                if else_line in node.lines:
                    res["else"] = "p" in assoc[node]
                    res["else2"] = "p2" in assoc[node]
        if (res.get("then"), res.get("else")) != (res.get("then2"), res.get("else2")):
            return ["HistoryDiffers", [res.get("then"), res.get("else")], [res.get("then2"), res.get("else2")]]
        return [res.get("then"), res.get("else")]

    @staticmethod
    def pp_value(tokens):
        """value of a fully expanded controlling expression made of decimal numbers, + - * ( ) and identifiers:
        a remaining identifier is 0, a remaining `name ( ... )` is 0 (this is what ExpressionEvaluator and
        ISO C 6.10.1p4 do); None when the expression is outside this little language"""
        out, i = [], 0
        while i < len(tokens):
            t = tokens[i]
            if re.fullmatch(r"[A-Za-z_]\w*", t):
                if i + 1 < len(tokens) and tokens[i + 1] == "(":
                    depth, j = 0, i + 1
                    while j < len(tokens):
                        depth += tokens[j] == "("
                        depth -= tokens[j] == ")"
                        if depth == 0:
                            break
                        j += 1
                    if j >= len(tokens):
                        return None
                    i = j
                out.append("0")
            elif re.fullmatch(r"[0-9]+", t) and not (len(t) > 1 and t[0] == "0"):
                out.append(t)
            elif t in ("+", "-", "*", "(", ")"):
                out.append(t)
            else:
                return None
            i += 1
        try:
            v = eval(" ".join(out), {"__builtins__": {}}, {})   # noqa: S307 - digits and + - * ( ) only
        except Exception:
            return None
        return v if isinstance(v, int) and abs(v) < 2 ** 31 else None

    def selfref_if_tests(self):
        """the self-reference stream through `#if (INPUT) == k` (finder.find): k is the value of S's expansion"""
        n, bad = 0, []
        limit = 40 if self.tier == "quick" else 400
        spec_of = {self.key(c): sa for c, sa in self._spec_log}
        per_stream = {}
        streams = [("selfref", c) for c in getattr(self, "_selfref", [])] + [("ppaste", c) for c in getattr(self, "_ppaste", [])] + \
                  [("vcount", c) for c in getattr(self, "_vcount", [])]
        for stream, c in streams:
            if per_stream.get(stream, 0) >= limit:
                continue
            sa = spec_of.get(self.key(c))
            if sa is None or sa[0] != "Ok":
                continue
            k = self.pp_value(sa[1])
            if k is None or k < 0:
                continue
            try:
                a = self.if_observation(c, k)
                b = self.if_observation(c, k + 1)
            except Exception as e:  # noqa
                a, b = ["EXC", type(e).__name__], None
            n += 1
            per_stream[stream] = per_stream.get(stream, 0) + 1
            if a != [True, False] or b != [False, True]:
                bad.append({"case": c, "k": k, "eq": a, "neq": b, "spec": sa[1]})
        self.hist["targeted_if_route_cases_per_stream"] = per_stream
        self.hist["selfref_if_route_cases"] = n
        self.hist["selfref_if_route_disagreements"] = len(bad)
        if bad:
            # the #if route disagrees with S: a violation candidate that expand() must show as well;
            # reported here so that the route itself is never silently wrong
            return [f"#if route: `#if (INPUT) == k` disagrees with S on {len(bad)} of {n} targeted (self-reference / painted-paste) cases: {json.dumps(bad[0])}"]
        return []

    def self_tests(self):
        problems = []
        problems += self.if_tests()
        problems += self.selfref_if_tests()
        problems += self.include_tests()
        problems += self.gcc_tests()
        return problems

    # ---- third observation point: the operand of a computed #include ----
    def include_observation(self, case, expected_name):
        """finder.find on  #defines / #define XSTR_(s) #s / #define XSTR(s) XSTR_(s) / #include XSTR(INPUT);
        returns True iff the header called expected_name is attributed to the platform."""
        import codebasin
        from codebasin import finder
        root = common.scratch() / "c03inc"
        if root.exists():
            shutil.rmtree(root)
        root.mkdir(parents=True)
        lines, defs = [], []
        for m in case["macros"]:
            if is_D(m):
                defs.append(dash_d_text(m))
            else:
                lines.append(define_text(m))
        lines += ["#define XSTR_(s) #s", "#define XSTR(s) XSTR_(s)", f"#include XSTR({case['input']})", "int after;", ""]
        f = root / "main.c"
        f.write_text("\n".join(lines))
        h = root / expected_name
        h.write_text("int in_header;\n")
        (root / "decoy.h").write_text("int decoy;\n")
        cb = codebasin.CodeBase(root)
        cfg = {"p": [{"file": str(f), "defines": defs, "include_paths": [], "include_files": []}]}
        state = finder.find(root, cb, cfg)
        tree = state.get_tree(str(h))
        if tree is None:
            return False
        assoc = state.get_map(str(h))
        return any("p" in assoc[n] for n in tree.walk() if type(n).__name__ == "CodeNode")

    def include_tests(self):
        """cases whose S-expansion is a single identifier or number: `#include XSTR(INPUT)` must attribute
        the header of that name (observed through finder.find); a differently named header must not be."""
        n, bad = 0, []
        limit = 40 if self.tier == "quick" else 400
        for c, sa in self._spec_log:
            if n >= limit:
                break
            if sa[0] == "Ok" and len(sa[1]) == 1 and re.fullmatch(r"[A-Za-z0-9_]{1,12}", sa[1][0]) and \
                    "defined" not in c["input"] and "XSTR" not in json.dumps(c) and \
                    [canon_tok(t) for t in lex(c["input"])] != sa[1]:
                name = sa[1][0]
                try:
                    got = self.include_observation(c, name)
                except Exception as e:  # noqa
                    got = ["EXC", type(e).__name__]
                n += 1
                if got is not True and self.impl_view_for_spec(c, self.impl(c)) == sa:
                    bad.append({"case": c, "header": name, "attributed": got})
        self.hist["include_route_cases"] = n
        self.hist["include_route_disagreements"] = len(bad)
        if bad:
            return [f"#include route (finder.find) disagrees with expand() on {len(bad)} of {n} cases: {bad[0]}"]
        return []

    def if_tests(self):
        """cases whose S-expansion is one decimal integer: `#if (INPUT) == k` must select the then-branch
        and `#if (INPUT) == k+1` the else-branch (observed through finder.find)."""
        n = 0
        bad = []
        limit = 60 if self.tier == "quick" else 600
        for c, sa in self._spec_log:
            if n >= limit:
                break
            if sa[0] == "Ok" and len(sa[1]) == 1 and re.fullmatch(r"[1-9][0-9]{0,3}|0", sa[1][0]) and \
                    "defined" not in c["input"] and any(m["params"] is not None for m in c["macros"]):
                k = int(sa[1][0])
                try:
                    a = self.if_observation(c, k)
                    b = self.if_observation(c, k + 1)
                except Exception as e:  # noqa
                    a, b = ["EXC", type(e).__name__], None
                n += 1
                if a != [True, False] or b != [False, True]:
                    ia = self.impl(c)
                    if self.impl_view_for_spec(c, ia) == sa:      # expand agrees with S but the #if route does not
                        bad.append({"case": c, "k": k, "eq": a, "neq": b})
        self.hist["if_route_cases"] = n
        self.hist["if_route_disagreements"] = len(bad)
        if bad:
            return [f"#if route (finder.find) disagrees with expand() on {len(bad)} of {n} cases: {bad[0]}"]
        return []

    def gcc_tests(self):
        if shutil.which("gcc") is None:
            return ["gcc not available: S not validated against an external preprocessor"]
        d = common.scratch() / "c03gcc"
        d.mkdir(parents=True, exist_ok=True)
        limit = 360 if self.tier == "quick" else 5000
        idx = list(range(len(self._spec_log)))
        self.rng.shuffle(idx)
        # the self-reference stream is validated against gcc first (a fixed share of the budget)
        share = 60 if self.tier == "quick" else 600
        sr_keys = {self.key(c) for c in getattr(self, "_selfref", [])[:share]} | \
                  {self.key(c) for c in getattr(self, "_ppaste", [])[:share]}
        first = [i for i in idx if self.key(self._spec_log[i][0]) in sr_keys]
        idx = first + [i for i in idx if i not in set(first)]
        self.oracle["selfref_cases_first"] = len(first)
        bad = []
        for i in idx:
            if self.oracle["cases"] >= limit:
                break
            c, sa = self._spec_log[i]
            if sa[0] != "Ok" or "defined" in c["input"]:
                continue
            got = self.gcc_tokens(c)
            if got is None:
                self.oracle["skipped_gcc_diagnosed"] += 1
                continue
            self.oracle["cases"] += 1
            if got != sa[1]:
                ia = self._impl_cache.get(self.key(c))
                if ia is not None and self.impl_view_for_spec(c, ia) == ["Ok", got]:
                    # gcc and the implementation agree against S: the hide-set corner (see in_domain)
                    self.oracle["spec_overruled_by_gcc_in_sample"] = self.oracle.get("spec_overruled_by_gcc_in_sample", 0) + 1
                    continue
                def squeeze(toks):
                    return [t.replace(" ", "") if t.startswith('"') else t for t in toks]
                if squeeze(got) == squeeze(sa[1]):
                    # only the white space inside a string made by # differs.  ISO C does not say whether
                    # white space separates two tokens that became neighbours because an EMPTY argument was
                    # substituted between them (gcc keeps a padding token there, S and CBI do not)
                    self.oracle["white_space_only_differences"] = self.oracle.get("white_space_only_differences", 0) + 1
                    self.oracle.setdefault("white_space_only_example", {"case": c, "spec": sa[1], "gcc": got})
                    continue
                self.oracle["disagreements"] += 1
                bad.append({"case": c, "spec": sa[1], "gcc": got})
        ws = self.oracle.get("white_space_only_differences", 0)
        if ws * 100 > max(1, self.oracle["cases"]):
            bad.append({"white_space_only_differences": ws, "example": self.oracle.get("white_space_only_example")})
        if bad:
            self.oracle["first_disagreement"] = bad[0]
            return [f"S disagrees with gcc -E -P on {len(bad)} of {self.oracle['cases']} cases: {json.dumps(bad[0])}"]
        return []

    def extra_coverage(self):
        return {"input_distribution": self.hist, "spec_oracle": self.oracle}


CHECK = C03
