"""C16 — duplicates report = classes of byte-identical files."""
from __future__ import annotations

import os
import shutil
import warnings
from pathlib import Path

from . import common
from .common import Check, enc

warnings.filterwarnings("ignore")

POOL = ["", "a", "b", "ab", "ab\n", "ac", "abc", "int x;\n", "int x;\n ", "int y;\n"]
# large files sharing a long common beginning (a licence banner / generated table): a digest of
# the leading block only cannot separate them, so several classes land in one bucket
_BANNER = "/* generated table - do not edit */\n" * 130          # 4810 bytes > 4096
BIG = [_BANNER + "int t[] = {1};\n", _BANNER + "int t[] = {2};\n", _BANNER + "int t[] = {1};\n ", _BANNER]
# contents that differ as BYTES but not as decoded text: line-end conventions and bytes that are not
# valid UTF-8 (a Latin-1 accent in a comment): reading in text mode (universal newlines,
# errors="replace") maps each group to one string.  Contents are encoded as Latin-1: one byte per character.
TEXTY = [["int a;\nint b;\n", "int a;\r\nint b;\r\n", "int a;\rint b;\r"],
         ["// caf\xe9\nint c;\n", "// caf\xe8\nint c;\n", "// caf\xc3\xa9\nint c;\n"],
         ["x\n", "x\r\n", "x\r"]]
EXT = [".c", ".h", ".cpp", ".f90"]


class C16(Check):
    prop_id = "C16"
    rule = ("random code bases: 0-12 files with contents from a pool of 10 byte strings (empty, prefix pairs, large files sharing a 4.8 kB beginning with classes interleaved in path order, "
            "last-byte differences; files equal as decoded text but not as bytes: LF / CRLF / CR line ends, bytes that are not valid UTF-8), symlinked twins, twins excluded by pattern, nested directories; a case is "
            "non-trivial if at least one duplicate group exists AND at least one file is unique or a link/excluded twin is present")
    assumptions = ["all regular files of a case carry the same mtime (worst case for stat-based shortcuts)",
                   "filecmp.cmp(shallow=False) is byte equality; hashlib digest is a function of content",
                   "CodeBase iteration yields each member path once (C09)"]

    def generate(self):
        n = 150 if self.tier == "quick" else 3000
        out = []
        for _ in range(n):
            k = self.rng.randint(0, 12)
            pool = self.rng.sample(POOL, self.rng.randint(1, min(6, len(POOL))))
            files = []
            names = set()
            for i in range(k):
                d = self.rng.choice(["", "", "sub/", "sub/deep/", "other/"])
                name = f"{d}f{i}{self.rng.choice(EXT)}"
                r = self.rng.random()
                if r < 0.15 and files:
                    tgt = self.rng.choice([f for f in files if f[2] == "file"] or files)
                    if tgt[2] == "file":
                        files.append([name, tgt[1], "link:" + tgt[0]])
                        continue
                if r < 0.30:
                    files.append(["ex/" + name.replace("/", "_"), self.rng.choice(pool), "excluded"])
                    continue
                files.append([name, self.rng.choice(pool), "file"])
            out.append(files)
        # one bucket, several classes, classes INTERLEAVED in path order (v1 = X, v2 = Y, v3 = X, ...)
        for _ in range(25 if self.tier == "quick" else 400):
            k = self.rng.randint(3, 7)
            classes = self.rng.sample(range(len(BIG)), self.rng.randint(2, 3))
            files = []
            for i in range(k):
                d = self.rng.choice(["", f"v{i}/", "sub/"])
                files.append([f"{d}t{i}.c" if d != f"v{i}/" else f"{d}table.c", BIG[self.rng.choice(classes)], "file"])
            if self.rng.random() < 0.4:
                files.append(["small.c", self.rng.choice(POOL), "file"])
            out.append(files)
        out.append([["v1/table.c", BIG[0], "file"], ["v2/table.c", BIG[1], "file"], ["v3/table.c", BIG[0], "file"],
                    ["util/a.h", "int u;\n", "file"], ["util/b.h", "int u;\n", "file"]])
        # byte-different files that are equal as decoded text, next to genuine twins
        out.append([["unix/main.cpp", TEXTY[0][0], "file"], ["win/main.cpp", TEXTY[0][1], "file"],
                    ["fr/cafe.cpp", TEXTY[1][0], "file"], ["it/cafe.cpp", TEXTY[1][1], "file"],
                    ["inc/a.h", "int u;\n", "file"], ["inc/b.h", "int u;\n", "file"]])
        for _ in range(25 if self.tier == "quick" else 400):
            files = []
            for i in range(self.rng.randint(2, 7)):
                g = self.rng.choice(TEXTY)
                d = self.rng.choice(["", "sub/", f"v{i}/"])
                files.append([f"{d}x{i}{self.rng.choice(EXT)}", self.rng.choice(g), "file"])
            if self.rng.random() < 0.5:
                files.append(["small.c", self.rng.choice(POOL), "file"])
            out.append(files)
        # exhaustive small block: every assignment of 3 contents to <= 4 plain files
        lim = 4 if self.tier == "quick" else 6
        import itertools
        for n_files in range(2, lim + 1):
            for assign in itertools.product(range(3), repeat=n_files):
                if self.tier == "quick" and n_files == 4 and assign[0] != 0:
                    continue
                out.append([[f"e{i}.c", POOL[1 + a], "file"] for i, a in enumerate(assign)])
        return out

    def members(self, case):
        return [[n, c, k.startswith("link:")] for (n, c, k) in case if k != "excluded"]

    def encode(self, case):
        return enc([[n, c.encode("latin-1"), l] for (n, c, l) in self.members(case)])

    def impl(self, case):
        import codebasin
        from codebasin import report
        root = common.scratch() / "c16"
        if root.exists():
            shutil.rmtree(root)
        root.mkdir(parents=True)
        for (n, c, k) in case:
            p = root / n
            p.parent.mkdir(parents=True, exist_ok=True)
            if k.startswith("link:"):
                os.symlink(os.path.relpath(root / k[5:], p.parent), p)
            else:
                p.write_bytes(c.encode("latin-1"))
                # one timestamp for every file (as after a checkout or an archive extraction): a
                # comparison that trusts os.stat signatures (size + mtime) cannot tell the files apart
                os.utime(p, ns=(1_700_000_000_000_000_000, 1_700_000_000_000_000_000))
        cb = codebasin.CodeBase(root, exclude_patterns=["ex/"])
        try:
            groups = report.find_duplicates(cb)
        except Exception as e:  # noqa
            return ["EXC", type(e).__name__]
        return sorted(sorted(str(Path(p).relative_to(root)) for p in g) for g in groups)

    def model_view(self, case, ans):
        a, b = ans
        if a == "OutOfFuel" or b == "OutOfFuel":
            return ["OutOfFuel"]
        ca = sorted(sorted(g) for g in a)
        cb = sorted(sorted(g) for g in b)
        if ca != cb:
            return ["MODEL-INSTANCES-DISAGREE", ca, cb]
        return ca

    def spec(self, case, ans):
        by = {}
        for (n, c, l) in self.members(case):
            if not l:
                by.setdefault(c, []).append(n)
        return sorted(sorted(g) for g in by.values() if len(g) >= 2)

    def nontrivial(self, case, impl_ans):
        mem = self.members(case)
        return bool(impl_ans) and impl_ans[0] != "EXC" and (
            len(mem) > sum(len(g) for g in impl_ans) or any(k != "file" for (_, _, k) in case))

    def shrink(self, case, still_fails):
        return common.shrink_list(case, still_fails)


CHECK = C16
