import argparse
import importlib
import os
import sys

from . import common


def main():
    ap = argparse.ArgumentParser()
    ap.add_argument("prop")
    ap.add_argument("--tier", default=os.environ.get("VERIF_TIER", "quick"), choices=["quick", "thorough"])
    ap.add_argument("--replay")
    ap.add_argument("--seed", type=int, default=int(os.environ.get("VERIF_SEED", "0") or 0))
    a = ap.parse_args()
    pid = a.prop.upper()
    mod = importlib.import_module(f"harness.{pid.lower()}")
    chk = mod.CHECK(a.tier, a.seed)
    try:
        if a.replay:
            rc = common.replay(chk, a.replay)
        else:
            rc = common.run_check(chk)
    finally:
        common.cleanup_scratch()
    sys.exit(rc)


if __name__ == "__main__":
    main()
