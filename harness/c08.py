"""C08 — translation units and platforms are analysed in isolation and compose.

I  = finder.find on the whole configuration (in process), and the two CLIs (codebasin -R summary,
     codebasin.tree) with every -p selection;
M  = extracted find_M of Model/C08.v (plus the hoisted / cached variants, used only to measure how
     many generated cases can expose state leaking from one compile command to the next);
S  = union over the platform's compile commands of the reference preprocessor run ALONE (Spec/C08.v).
On top of I-vs-M-vs-S the implementation is compared with itself: the full run against the union of its
single-command runs, against every platform subset, and against a shuffled configuration."""
from __future__ import annotations

import itertools
import random

from . import common
from .common import Check, enc
from .c01 import balanced, normalise, parse_items, unparse_items, shrink_candidates
from .c04 import pstr
from . import c08_util as U


def subsets_of(names, seed, limit=None):
    subs = []
    for k in range(1, len(names) + 1):
        subs += [list(c) for c in itertools.combinations(names, k)]
    if limit is not None and len(subs) > limit:
        rng = random.Random(seed)
        full = subs[-1]
        subs = rng.sample(subs[:-1], limit - 1) + [full]
    return subs


def shuffled(cfg, seed):
    rng = random.Random(seed * 7919 + 13)
    out = [[p, list(es)] for p, es in cfg]
    for pe in out:
        rng.shuffle(pe[1])
    rng.shuffle(out)
    return out


# ---------------------------------------------------------------- exhaustive small block
MICRO_FILES = [
    [[["src", "a.c"], [["Inc", ["Q", ["h.h"]]], ["If", ["Defd", "F1"]], ["Code"], ["Endif"], ["Undef", "F0"], ["Def", "F0", "E"]]],
     [["src", "b.c"], [["If", ["Defd", "F0"]], ["Code"], ["Else"], ["Code"], ["Endif"], ["Inc", ["Q", ["h.h"]]],
                       ["If", ["Defd", "F1"]], ["Code"], ["Endif"]]],
     [["src", "h.h"], [["Once"], ["If", ["NDefd", "F0"]], ["Undef", "F1"], ["Def", "F1", "E"], ["Endif"], ["Code"]]]],
    [[["inc1", "h.h"], [["Def", "V0", 2], ["Code"]]],
     [["src", "a.c"], [["Inc", ["Q", ["h.h"]]], ["If", ["Eq", "V0", 2]], ["Code"], ["Endif"]]],
     [["src", "b.c"], [["Inc", ["A", ["h.h"]]], ["If", ["Eq", "V0", 1]], ["Code"], ["Elif", ["Defd", "V0"]], ["Code"], ["Endif"], ["Undef", "V0"]]],
     [["src", "h.h"], [["If", ["NDefd", "G"]], ["Def", "G", "E"], ["Def", "V0", 1], ["Code"], ["Endif"]]]],
]
MICRO_ENTRIES = [
    [["src", "a.c"], [], [], []],
    [["src", "a.c"], [["inc1"]], [["F0", "E"]], []],
    [["src", "b.c"], [["inc1"]], [], []],
    [["src", "b.c"], [], [["F0", 1]], [["h.h"]]],
]


def micro_cases(tier):
    out = []
    lists = [[e] for e in MICRO_ENTRIES] + [[a, b] for a in MICRO_ENTRIES for b in MICRO_ENTRIES]
    for fi, files in enumerate(MICRO_FILES):
        for l0 in lists:
            out.append(["lib", files, [["P0", l0]], len(out)])
            for l1 in lists:
                if tier == "quick" and (len(l1) > 1 or fi > 0):
                    continue
                out.append(["lib", files, [["P0", l0], ["P1", l1]], len(out)])
    return out


# the shape of a seeded regression (prefix-header cache shared by shallow copy): every command of the platform has
# the same options and -include config.h; a.c defines its private macro after the prefix, b.c and the shared
# #pragma once / guarded headers test it
_PFX_FILES = [[["src", "a.c"], [["Def", "T0", 1], ["Inc", ["Q", ["g.h"]]], ["Code"]]],
              [["src", "b.c"], [["Inc", ["Q", ["g.h"]]], ["If", ["Defd", "T0"]], ["Code"], ["Else"], ["Code"], ["Endif"],
                                ["If", ["Defd", "F0"]], ["Code"], ["Endif"]]],
              [["src", "g.h"], [["If", ["NDefd", "G"]], ["Def", "G", "E"], ["Code"], ["If", ["Defd", "T0"]], ["Code"], ["Endif"], ["Endif"]]],
              [["src", "h.h"], [["Once"], ["Def", "F0", 1]]]]
_PFX_E = lambda f: [["src", f], [], [], [["h.h"]]]

# the shape of another seeded regression ("a file that is one node already recorded for the platform is not
# walked again"): api.h is ONLY `#include "detail/impl.h"`, fwd.h only `#define W0 1`; both commands of P0 reach them
_ONE_FILES = [[["src", "a.c"], [["Inc", ["Q", ["api.h"]]], ["Inc", ["Q", ["fwd.h"]]], ["Code"]]],
              [["src", "api.h"], [["Inc", ["Q", ["detail", "impl.h"]]]]],
              [["src", "b.c"], [["Inc", ["Q", ["api.h"]]], ["Inc", ["Q", ["fwd.h"]]], ["If", ["Defd", "F0"]], ["Code"], ["Else"], ["Code"], ["Endif"],
                                ["If", ["Defd", "W0"]], ["Code"], ["Endif"]]],
              [["src", "detail", "impl.h"], [["Once"], ["Def", "F0", 1], ["Code"]]],
              [["src", "fwd.h"], [["Def", "W0", 1]]]]
_ONE_E = lambda f, incs=(): [["src", f], [], [], [list(i) for i in incs]]

# the shape of a third seeded regression (computed include memoised on the shared tree node, keyed by the spelling
# of the macro named in the directive): backend.h does `#define H0 H0__P` / `#include H0` where H0__P is "g.h" or
# "h.h" by an #ifdef on the per-command flag F0; host.c and device.c include backend.h and test what it pulls in
_CI_FILES = [[["src", "a.c"], [["Inc", ["Q", ["bk.h"]]], ["If", ["Eq", "V0", 1]], ["Code"], ["Else"], ["Code"], ["Endif"]]],
             [["src", "b.c"], [["Inc", ["Q", ["bk.h"]]], ["If", ["Eq", "V0", 1]], ["Code"], ["Else"], ["Code"], ["Endif"]]],
             [["src", "bk.h"], [["If", ["Defd", "F0"]], ["Def", "H0__P", ["P", False, ["g.h"]]], ["Def", "H0", ["P", False, ["g.h"]], "H0__P"], ["Else"],
                                ["Def", "H0__P", ["P", False, ["h.h"]]], ["Def", "H0", ["P", False, ["h.h"]], "H0__P"], ["Endif"],
                                ["Inc", ["M", "H0"]]]],
             [["src", "g.h"], [["Def", "V0", 1], ["Code"]]],
             [["src", "h.h"], [["Def", "V0", 2], ["Code"]]]]
_CI_E = lambda f, flag: [["src", f], [], ([["F0", "E"]] if flag else []), []]
_CI_D = lambda f, h: [["src", f], [], [["H0", ["P", False, [h]], "H0__P"], ["H0__P", ["P", False, [h]]]], []]
_CI_FILES_D = [_CI_FILES[0], _CI_FILES[1], [["src", "bk.h"], [["Inc", ["M", "H0"]]]], _CI_FILES[3], _CI_FILES[4]]

# the shape of a fourth seeded regression (a header re-parsed, and its association map reset, when it is included
# from a translation unit of another language): common.h shared by core.c, util.c and wrap.cpp, two platforms
_ML_FILES = [[["src", "common.h"], [["Once"], ["Code"], ["If", ["Defd", "F0"]], ["Code"], ["Else"], ["Code"], ["Endif"],
                                   ["If", ["Defd", "F1"]], ["Code"], ["Endif"]]],
             [["src", "core.c"], [["Inc", ["Q", ["common.h"]]], ["Code"]]],
             [["src", "util.c"], [["Inc", ["Q", ["common.h"]]], ["Code"]]],
             [["src", "wrap.cpp"], [["Inc", ["Q", ["common.h"]]], ["Code"]]]]
_ML_E = lambda f, defs=(): [["src", f], [], [list(d) for d in defs], []]

CORPUS_EXTRA = [
    ["lib", _ML_FILES, [["P0", [_ML_E("core.c", [["F0", "E"]]), _ML_E("wrap.cpp")]], ["P1", [_ML_E("util.c", [["F1", 1]])]]], 41],
    ["lib", _ML_FILES, [["P0", [_ML_E("wrap.cpp"), _ML_E("core.c", [["F0", "E"]]), _ML_E("util.c")]], ["P1", [_ML_E("wrap.cpp", [["F1", 1]])]]], 42],
    ["cli", _ML_FILES, [["P0", [_ML_E("core.c", [["F0", "E"]]), _ML_E("util.c")]], ["P1", [_ML_E("wrap.cpp", [["F1", 1]])]]], 43],
    ["lib", _CI_FILES, [["P0", [_CI_E("a.c", True), _CI_E("b.c", False)]]], 31],
    ["lib", _CI_FILES, [["P0", [_CI_E("b.c", False), _CI_E("a.c", True)]], ["P1", [_CI_E("a.c", False)]]], 32],
    ["cli", _CI_FILES, [["P0", [_CI_E("a.c", True)]], ["P1", [_CI_E("b.c", False)]]], 33],
    ["lib", _CI_FILES_D, [["P0", [_CI_D("a.c", "g.h"), _CI_D("b.c", "h.h")]], ["P1", [_CI_D("b.c", "g.h")]]], 34],
    ["cli", _CI_FILES_D, [["P0", [_CI_D("a.c", "g.h")]], ["P1", [_CI_D("b.c", "h.h")]]], 35],
    ["lib", _ONE_FILES, [["P0", [_ONE_E("a.c"), _ONE_E("b.c")]], ["P1", [_ONE_E("b.c")]]], 21],
    ["lib", _ONE_FILES, [["P0", [_ONE_E("a.c", [["fwd.h"]]), _ONE_E("b.c", [["fwd.h"]])]]], 22],
    ["cli", _ONE_FILES, [["P0", [_ONE_E("b.c"), _ONE_E("a.c"), _ONE_E("b.c")]], ["P1", [_ONE_E("a.c")]]], 23],
    ["lib", _PFX_FILES, [["P0", [_PFX_E("a.c"), _PFX_E("b.c")]]], 11],
    ["lib", _PFX_FILES, [["P0", [_PFX_E("b.c"), _PFX_E("a.c"), _PFX_E("b.c")]], ["P1", [_PFX_E("b.c")]]], 12],
    ["cli", _PFX_FILES, [["P0", [_PFX_E("a.c"), _PFX_E("b.c")]], ["P1", [_PFX_E("b.c")]]], 13],
    # user-defined compiler whose option has a default pass list: a command WITHOUT the option, analysed after
    # one WITH it, must not inherit the other's passes (process-wide config._compilers cache)
    ["cli", [[["src", "a.c"], [["Code"]]], [["src", "b.c"], [["If", ["Eq", "V1", 2]], ["Code"], ["Endif"], ["Code"]]]],
     [["P0", [[["src", "a.c"], [], [], [], 2]]], ["P1", [[["src", "b.c"], [], [], [], 0]]]], 6],
    # a.c defines X, b.c tests it: with a hoisted Platform the second command sees the first one's macro
    ["lib", [[["src", "a.c"], [["Def", "F0", "E"], ["Code"]]], [["src", "b.c"], [["If", ["Defd", "F0"]], ["Code"], ["Endif"]]]],
     [["P0", [[["src", "a.c"], [], [], []], [["src", "b.c"], [], [], []]]]], 1],
    # #pragma once header defining the macro the second command tests: a cached once-list hides it
    ["lib", [[["src", "a.c"], [["Inc", ["Q", ["h.h"]]]]],
             [["src", "b.c"], [["Inc", ["Q", ["h.h"]]], ["If", ["Defd", "F0"]], ["Code"], ["Endif"]]],
             [["src", "h.h"], [["Once"], ["Def", "F0", "E"]]]],
     [["P0", [[["src", "a.c"], [], [], []], [["src", "b.c"], [], [], []]]]], 2],
    # same spelling, different -I per command: a cached include look-up returns the first command's header
    ["lib", [[["inc1", "h.h"], [["Def", "F0", "E"]]], [["inc2", "h.h"], [["Def", "F1", "E"]]],
             [["src", "a.c"], [["Inc", ["A", ["h.h"]]], ["If", ["Defd", "F0"]], ["Code"], ["Endif"], ["If", ["Defd", "F1"]], ["Code"], ["Endif"]]]],
     [["P0", [[["src", "a.c"], [["inc1"]], [], []], [["src", "a.c"], [["inc2"]], [], []]]],
      ["P1", [[["src", "a.c"], [["inc2"]], [], []]]]], 3],
    # -D of the first command must not reach the second
    ["cli", [[["src", "a.c"], [["If", ["Defd", "F0"]], ["Code"], ["Endif"], ["Code"]]],
             [["src", "b.c"], [["If", ["Defd", "F0"]], ["Code"], ["Else"], ["Code"], ["Endif"]]]],
     [["P0", [[["src", "a.c"], [], [["F0", "E"]], []], [["src", "b.c"], [], [], []]]],
      ["P1", [[["src", "b.c"], [], [["F0", 1]], []]]]], 4],
]


class C08(Check):
    prop_id = "C08"
    rule = ("code bases of 2-4 compiled files and 1-4 header names placed in 1-3 of 4 directories (clashing names), headers bare / guarded / "
            "#pragma once that define, undefine and test the macros the compiled files test; 1-4 platforms x 1-4 compile commands with random "
            "-I/-D/-include; kinds: lib (finder.find; full run vs union of single-command runs vs every platform subset vs shuffled order), "
            "cli (codebasin -R summary and codebasin.tree in process for every -p selection, shuffled databases, mixed compilers; a sample "
            "re-run in a fresh subprocess); plus an exhaustive block over 4 entries x 2 micro code bases and a malformed stream. "
            "2-4 commands of a platform often share IDENTICAL options with 0-2 -include, and compiled files define/undefine private macros (T0-T2) that other compiled files and shared headers test; "
            "0-2 single-node files (a header that is only an #include / #define / #undef / #pragma once / one code block) reached early by the compiled files; "
            "30 % of the cases have a computed include whose macro differs per command (-D or #ifdef), and in half of the cases with a path-valued macro it is rendered two-level (#define H0 H0__P); "
            "in 45 % of the random cases some compiled files carry a C++ extension (.cpp/.cc/.cxx) so that headers are reached from two languages; "
            "non-trivial = the hoisted-Platform, cached-include or prefix-header-cache variant of the model gives a different attribution on the case "
            "(i.e. the case can expose state leaking between commands)")
    assumptions = ["paths are absolute, normalised, without symbolic links (C13/C15)",
                   "whitespace flags that MacroFunction.replace mutates in shared trees and the language an out-of-code-base header is first parsed with are modelled out (DESIGN section 5, C08)",
                   "compiler-specific implicit definitions (C12) are not tested by the generated sources, so compilers differ only in the number of passes"]

    def __init__(self, tier, seed):
        super().__init__(tier, seed)
        self.sensitive = {}
        self.dist = {"lib": 0, "cli": 0, "platforms": {}, "commands": {}, "hoisted_differs": 0, "cached_differs": 0, "prefix_cache_differs": 0, "cases_with_same_option_group": 0, "per_command_computed_include_cases": 0, "cases_with_path_macro": 0, "cases_with_indirect_path_macro": 0, "cases_with_single_node_file": 0, "mixed_language_cases": 0,
                     "impl_find_calls": 0, "cli_inproc_calls": 0, "cli_subprocess_calls": 0, "malformed": 0, "exhaustive_block": 0}
        self.subproc_budget = 6 if tier == "quick" else 60

    # ---- generation ----
    def gen_case(self, kind, wild=False):
        files, mains, names = U.gen_files(self.rng, wild, cxx=True)
        cfg = U.gen_cfg(self.rng, mains, names)
        if kind == "cli":
            # some commands use the user-defined multi-pass compiler of .cbi/config
            for _, es in cfg:
                for e in es:
                    if self.rng.random() < 0.3:
                        e.append(self.rng.choice([0, 1, 2, 2]))
        rng = self.rng
        if rng.random() < 0.3:
            # computed includes whose macro differs per command: the SAME `#include H0` node (in every compiled
            # file, or in one shared header) is reached by several commands with different values of H0,
            # set by -D or chosen by an #ifdef on a per-command flag
            self.dist["per_command_computed_include_cases"] += 1
            form = rng.choice(["dash_d", "dash_d", "ifdef"])
            inc = [["If", ["Defd", "H0"]], ["Inc", ["M", "H0"]], ["Endif"]]
            if form == "dash_d":
                target = rng.choice(["mains", "header"])
                for _, es in cfg:
                    for e in es:
                        if not any(d[0] == "H0" for d in e[2]) and rng.random() < 0.85:
                            e[2].append(["H0", ["P", rng.random() < 0.3, rng.choice(names)]])
            else:
                target = "header"
                a, b = rng.choice(names), rng.choice(names)
                inc = [["If", ["Defd", "F0"]], ["Undef", "H0"], ["Def", "H0", ["P", False, a]], ["Else"],
                       ["Undef", "H0"], ["Def", "H0", ["P", rng.random() < 0.3, b]], ["Endif"], ["Inc", ["M", "H0"]]]
                for _, es in cfg:
                    for e in es:
                        e[2][:] = [d for d in e[2] if d[0] != "F0"] + ([["F0", rng.choice(["E", 1])]] if rng.random() < 0.5 else [])
            by = {U.pstr(p): f for f in files for p in [f[0]]}
            if target == "header":
                hp = ["src", "bk.h"]
                files.append([hp, normalise(inc + [["Code"]])])
                files.sort(key=lambda f: f[0])
                for m in mains:
                    by[U.pstr(m)][1][:0] = [["Inc", ["Q" if m[:-1] == ["src"] else "A", ["bk.h"]]]]
                for _, es in cfg:
                    for e in es:
                        if ["src"] not in e[1] and e[0][:-1] != ["src"]:
                            e[1].append(["src"])
            else:
                for m in mains:
                    by[U.pstr(m)][1][:0] = [list(x) for x in inc]
        has_vp = any(l[0] == "Def" and isinstance(l[2], list) for _, ls in files for l in ls) or \
            any(isinstance(d[1], list) for _, es in cfg for e in es for d in e[2])
        if has_vp:
            self.dist["cases_with_path_macro"] += 1
            if rng.random() < 0.5:
                # two-level rendering of every path-valued macro (see c08_util.make_indirect)
                files, cfg = U.make_indirect(files, cfg)
                self.dist["cases_with_indirect_path_macro"] += 1
        if wild and self.rng.random() < 0.4:
            # break the nesting of one file
            f = self.rng.choice(files)
            idx = [i for i, l in enumerate(f[1]) if l[0] in ("Endif", "If")]
            if idx:
                del f[1][self.rng.choice(idx)]
                f[1][:] = normalise(f[1])     # adjacent code lines are one node
        return [kind, files, cfg, self.rng.randrange(1 << 30)]

    def generate(self):
        out = list(CORPUS_EXTRA)
        micro = micro_cases(self.tier)
        self.dist["exhaustive_block"] = len(micro)
        out += micro
        n_lib, n_cli, n_bad = (110, 40, 20) if self.tier == "quick" else (2500, 600, 300)
        for _ in range(n_lib):
            out.append(self.gen_case("lib"))
        for _ in range(n_cli):
            out.append(self.gen_case("cli"))
        for _ in range(n_bad):
            out.append(self.gen_case(self.rng.choice(["lib", "lib", "cli"]), wild=True))
        self.dist["malformed"] = n_bad
        return out

    def encode(self, case):
        kind, files, cfg, seed = case
        cfg_m = [[pn, [[e[0], e[1], U.strip_alias_defs(e[2]), e[3]] for e in es]] for pn, es in U.expand_cfg(cfg)]
        return enc([[[p, U.strip_alias_lines(ls)] for p, ls in files], U.weights_of(files), cfg_m])

    # ---- implementation ----
    def impl(self, case):
        kind, files, cfg, seed = case
        self.dist[kind] += 1
        self.dist["platforms"][len(cfg)] = self.dist["platforms"].get(len(cfg), 0) + 1
        nc = sum(len(es) for _, es in cfg)
        self.dist["commands"][nc] = self.dist["commands"].get(nc, 0) + 1
        if kind == "lib":
            return self.impl_lib(files, cfg, seed)
        return self.impl_cli(files, cfg, seed)

    def impl_lib(self, files, cfg, seed):
        root = common.scratch() / "c08"
        U.materialise(files, root, U.DIRS)
        shapes = U.node_lines_of(files)

        def find(c, want_setmap=False):
            self.dist["impl_find_calls"] += 1
            return U.run_find(root, root, c, files, shapes, want_setmap=want_setmap)
        full = find(cfg, True)
        if full[0] != "Ok":
            return full[:2]
        meta = []
        names = [p for p, _ in cfg]
        # 1. the union of the single-command runs
        union = set()
        bad = None
        for p, es in cfg:
            for e in es:
                r = find([[p, [e]]])
                if r[0] != "Ok":
                    bad = r
                else:
                    union |= {tuple(t) for t in r[1]}
        if bad is not None:
            meta.append(["single-command-run-fails", bad[1]])
        elif sorted(list(t) for t in union) != full[1]:
            meta.append(["full-run-differs-from-union-of-single-command-runs"])
        # 2. every platform subset = projection
        for q in subsets_of(names, seed, 15):
            if len(q) == len(names):
                continue
            r = find([pe for pe in cfg if pe[0] in q], True)
            if r[0] != "Ok" or r[1] != U.project(full[1], q):
                meta.append(["subset-is-not-the-projection", q])
                break
            if r[2] != U.setmap_from_triples(full[1], files, lambda p: True, names=q):
                meta.append(["subset-setmap-is-not-the-projection", q])
                break
        # 3. shuffled commands and platforms
        r = find(shuffled(cfg, seed), True)
        if r[0] != "Ok" or r[1] != full[1] or r[2] != full[2]:
            meta.append(["shuffled-configuration-differs"])
        return ["Ok", full[1], full[2], meta]

    def impl_cli(self, files, cfg, seed):
        root = common.scratch() / "c08cli"
        U.materialise(files, root, U.DIRS)
        U.write_user_config(root)
        # every case starts like a fresh process (so that a replay is self-contained); all the CLI runs
        # of one case then share the process-wide config._compilers cache
        import codebasin.config as cbconfig
        cbconfig._compilers = None
        U.write_cli_inputs(root, cfg, seed, shuffle=bool(seed & 1))
        names = [p for p, _ in cfg]
        rng = random.Random(seed)
        res = []
        meta = []
        for q in subsets_of(names, seed, 8):
            flags = []
            if len(q) < len(names) or rng.random() < 0.3:
                qq = list(q)
                rng.shuffle(qq)
                for x in qq:
                    flags += ["-p", x]
            argv = ["-R", "summary"] + flags + ["analysis.toml"]
            code, out = U.cli_inproc("main", argv, root)
            self.dist["cli_inproc_calls"] += 1
            res.append([q, U.parse_summary(out) if code == 0 else ["exit", code]])
            if len(q) == len(names) and self.subproc_budget > 0 and seed % 5 == 0:
                self.subproc_budget -= 1
                self.dist["cli_subprocess_calls"] += 1
                code2, out2 = U.cli_subproc("main", argv, root)
                strip = lambda s: s[s.index("Summary"):] if "Summary" in s else s   # warnings are silenced in process
                if code2 != code or strip(out2) != strip(out):
                    meta.append(["fresh-process-differs-from-warm-process"])
        trees = []
        for q in subsets_of(names, seed + 1, 2):
            flags = []
            if len(q) < len(names):
                for x in q:
                    flags += ["-p", x]
            code, out = U.cli_inproc("tree", flags + ["analysis.toml"], root)
            self.dist["cli_inproc_calls"] += 1
            trees.append([q, sorted(U.parse_tree(out).items()) if code == 0 else ["exit", code]])
        return ["Cli", res, [[q, [list(kv) for kv in t] if t and t[0] != "exit" else t] for q, t in trees], meta]

    # ---- model and spec views ----
    def predict(self, case, triples):
        kind, files, cfg, seed = case
        triples = sorted({tuple(t) for t in triples})
        triples = [list(t) for t in triples]
        allf = lambda p: True
        if kind == "lib":
            return ["Ok", triples, U.setmap_from_triples(triples, files, allf), []]
        names = [p for p, _ in cfg]
        res = [[q, U.setmap_from_triples(triples, files, allf, names=q)] for q in subsets_of(names, seed, 8)]
        trees = [[q, [list(kv) for kv in sorted(U.tree_prediction(triples, files, allf, q).items())]]
                 for q in subsets_of(names, seed + 1, 2)]
        return ["Cli", res, trees, []]

    @staticmethod
    def triples_of(ans):
        return [[n, pstr(f), i] for n, f, i in ans[1]]

    @staticmethod
    def err_of(ans):
        kind = ans[1].split(":")[0]
        return ["Err", "RecursionError" if kind == "OutOfFuel" else kind]

    def model_view(self, case, ans):
        m, s, h, k, pf, sm = ans
        key = self.key(case)
        hd = (h != m)
        kd = (k != m)
        pd = (pf != m)
        if m[0] == "Ok" and pf[0] == "Ok":
            pd = sorted(map(tuple, self.triples_of(pf))) != sorted(map(tuple, self.triples_of(m)))
        if m[0] == "Ok" and h[0] == "Ok":
            hd = sorted(map(tuple, self.triples_of(h))) != sorted(map(tuple, self.triples_of(m)))
        if m[0] == "Ok" and k[0] == "Ok":
            kd = sorted(map(tuple, self.triples_of(k))) != sorted(map(tuple, self.triples_of(m)))
        if key not in self.sensitive:
            self.dist["hoisted_differs"] += int(hd)
            self.dist["cached_differs"] += int(kd)
            self.dist["prefix_cache_differs"] += int(pd)
            nsame = 0
            for _, es in case[2]:
                seen = {}
                for e in es:
                    kk = enc([e[0][:-1], e[1], e[2], e[3]] + e[4:])
                    seen[kk] = seen.get(kk, 0) + 1
                nsame += sum(1 for v in seen.values() if v >= 2)
            self.dist["cases_with_same_option_group"] += int(nsame > 0)
            self.dist["cases_with_single_node_file"] += int(any(len(ls) == 1 for _, ls in case[1]))
            exts = {e[0][-1].rsplit(".", 1)[-1] for _, es in case[2] for e in es}
            self.dist["mixed_language_cases"] += int("c" in exts and bool(exts & {"cpp", "cc", "cxx"}))
        self.sensitive[key] = hd or kd or pd
        if m[0] != "Ok":
            return self.err_of(m) if case[0] == "lib" else None
        v = self.predict(case, self.triples_of(m))
        if case[0] == "lib":
            # the setmap computed by the MODEL's get_setmap, not by the harness
            v[2] = U.canon_rows([[k_, c] for k_, c in sm])
        return v

    def spec(self, case, ans):
        if ans is None or isinstance(ans, str):
            return None
        s = ans[1]
        if s[0] != "Ok":
            return ["Err", s[1].split(":")[0]]
        return self.predict(case, self.triples_of(s))

    def impl_view_for_model(self, case, ia):
        return ia[:2] if ia[0] == "Err" else ia

    impl_view_for_spec = impl_view_for_model

    def in_domain(self, case, sa):
        if sa is None or sa[0] not in ("Ok", "Cli"):
            return False
        if not U.alias_invariant(case[1], case[2]):
            return False          # only a shrinking step can produce this: the two renderings are then not equivalent
        return all(balanced(ls) for _, ls in case[1])

    def nontrivial(self, case, ia):
        return ia[0] in ("Ok", "Cli") and self.sensitive.get(self.key(case), False)

    # ---- shrinking ----
    def shrink(self, case, still_fails):
        kind, files, cfg, seed = case

        def ok(fs, c):
            need = {pstr(e[0]) for _, es in c for e in es}
            return need <= {pstr(p) for p, _ in fs} and still_fails([kind, fs, c, seed])
        cfg = common.shrink_list(cfg, lambda c: len(c) >= 1 and ok(files, c), max_steps=40)
        for i in range(len(cfg)):
            p, es = cfg[i]
            es = common.shrink_list(es, lambda x: len(x) >= 1 and ok(files, cfg[:i] + [[p, x]] + cfg[i + 1:]), max_steps=40)
            cfg = cfg[:i] + [[p, es]] + cfg[i + 1:]
        files = common.shrink_list(files, lambda fs: ok(fs, cfg), max_steps=60)
        for idx in range(len(files)):
            p, ls = files[idx]
            items = parse_items(ls)
            if items is None:
                continue
            progress, steps = True, 0
            while progress and steps < 120:
                progress = False
                for cand in shrink_candidates(items):
                    steps += 1
                    if steps >= 120:
                        break
                    cl = normalise(unparse_items(cand))
                    trial = files[:idx] + [[p, cl]] + files[idx + 1:]
                    if ok(trial, cfg):
                        items, files, progress = cand, trial, True
                        break
        import copy
        for pi in range(len(cfg)):
            for ei in range(len(cfg[pi][1])):
                for fld in (1, 2, 3):
                    def repl(v, pi=pi, ei=ei, fld=fld):
                        c2 = copy.deepcopy(cfg)
                        c2[pi][1][ei][fld] = v
                        return c2
                    new = common.shrink_list(cfg[pi][1][ei][fld], lambda v: ok(files, repl(v)), max_steps=10)
                    cfg = repl(new)
        return [kind, files, cfg, seed]

    def extra_coverage(self):
        return {"input_distribution": self.dist}


CHECK = C08
