"""C14 - results are deterministic and independent of enumeration order.

Two kinds of cases:
  T  a platform-set table given as contributions in insertion order, plus further
     insertion orders; the table-level functions of codebasin.report are run in
     FRESH interpreters, one per PYTHONHASHSEED, under every insertion order.
  P  a small code base (files with #ifdef structure, platforms with -D sets and
     compile commands); materialised on disk once per schedule and analysed by
     the three command-line tools in a fresh interpreter per schedule =
     (PYTHONHASHSEED, file creation order, os.scandir/os.listdir shuffle seed,
     order of the [platform.*] tables).
I  = what the first schedule produced (canonicalised) + the list of outputs that
     differ under some other schedule.
M  = the extracted Gallina model (Model/C14.v, C14f.v), bit-exact for binary64.
S  = an independent Python oracle: exact rationals from the definitions, rows by
     (size, names); "nothing may differ between schedules".
"""
from __future__ import annotations

import hashlib
import itertools
import json
import math
import os
import re
import shutil
import subprocess
import sys
from concurrent.futures import ThreadPoolExecutor
from fractions import Fraction
from pathlib import Path

from . import common
from .common import Check, enc

HERE = Path(__file__).resolve().parent
SITE = HERE / "c14_site"
PY = "/venv/bin/python"
NAMES = ["A", "B", "C", "a", "b1", "b10", "b2", "Z", "_x", "cpu", "gpu", "GPU"]
JOBS = 3


# ------------------------------------------------------------------ floats
def fbits(x):
    """binary64 -> the model's encoding (SpecFloat canonical mantissa/exponent)."""
    x = float(x)
    if math.isnan(x):
        return "nan"
    if math.isinf(x):
        return ["inf", int(x < 0)]
    if x == 0:
        return ["z", int(math.copysign(1.0, x) < 0)]
    m, e = math.frexp(abs(x))
    return ["f", int(x < 0), int(m * (1 << 53)), e - 53]


def hundredths(s):
    """'12.34' -> 1234 ; 'nan' -> 'nan' (exact, no float involved)."""
    s = s.strip()
    if s in ("nan", "-nan"):
        return "nan"
    if s in ("inf", "-inf"):
        return ["inf", int(s[0] == "-")]
    m = re.fullmatch(r"(-?)(\d+)\.(\d\d)", s)
    if not m:
        return ["unparsed", s]
    v = int(m.group(2)) * 100 + int(m.group(3))
    return -v if m.group(1) and v else v


def fx_impl(v):
    """[hex, '.2f' string] or ['Err', name] from the batch -> [bits, hundredths] | 'undef'."""
    if v and v[0] == "Err":
        return "undef" if v[1] == "ZeroDivisionError" else v
    x = float.fromhex(v[0])
    if math.isnan(x):
        return "undef"
    return [fbits(x), hundredths(v[1])]


def fx_model(d):
    """enc_fx / enc_fres of the driver -> [bits, hundredths] | 'undef'."""
    if d == "ZeroDivisionError":
        return "undef"
    bits, h = d
    if bits == "nan":
        return "undef"
    return [bits, h]


def close(x, q: Fraction | None):
    """binary64 bits (model encoding) vs an exact rational, 1e-9 relative."""
    if q is None:
        return x == "undef"
    if x == "undef" or not isinstance(x, list):
        return False
    b = x[0]
    if b[0] == "z":
        v = Fraction(0)
    elif b[0] == "f":
        v = Fraction(b[2]) * (Fraction(2) ** b[3]) * (-1 if b[1] else 1)
    else:
        return False
    if abs(v - q) > Fraction(1, 10 ** 9) * max(abs(q), Fraction(1, 10 ** 6)):
        return False
    # the printed value must be a correct 2-decimal rounding of something that close to q
    h = x[1]
    return isinstance(h, int) and abs(Fraction(h, 100) - q) <= Fraction(1, 200) + Fraction(1, 10 ** 9) * max(abs(q), 1)


def close_h(h, q: Fraction | None):
    if q is None:
        return h in ("nan", "undef")
    return isinstance(h, int) and abs(Fraction(h, 100) - q) <= Fraction(1, 200) + Fraction(1, 10 ** 9) * max(abs(q), 1)


# ------------------------------------------------------------------ parsing tool output
def parse_grid(text):
    """rows of a tabulate simple_grid as lists of stripped cells (header first)."""
    rows = []
    for line in text.splitlines():
        if line.startswith("│"):
            rows.append([c.strip() for c in line.strip("│").split("│")])
    return rows


def parse_summary(text):
    grid = parse_grid(text)
    rows = []
    for cells in grid[1:]:
        name = cells[0]
        names = [n for n in name[1:-1].split(", ") if n]
        rows.append([names, int(cells[1]), hundredths(cells[2])])
    lines = {}
    for key, tag in (("Code Divergence:", "cd"), ("Coverage (%):", "cc"), ("Avg. Coverage (%):", "ac"), ("Total SLOC:", "total")):
        m = re.search(r"^" + re.escape(key) + r"\s*(\S+)\s*$", text, flags=re.M)
        lines[tag] = None if not m else (int(m.group(1)) if tag == "total" else hundredths(m.group(1)))
    return rows, [lines["cd"], lines["cc"], lines["ac"], lines["total"]]


def section(text, title):
    """text of one report section of the codebasin output."""
    m = re.search(r"^" + title + r"\n=+\n", text, flags=re.M)
    if not m:
        return None
    rest = text[m.end():]
    n = re.search(r"^\n?(Summary|Clustering|Duplicates)\n=+\n", rest, flags=re.M)
    return rest[:n.start()] if n else rest


# ------------------------------------------------------------------ S: the oracle on a table
def oracle_table(contribs):
    """Definitions on a table: rows by (size, names); exact rationals; None = undefined."""
    sm = {}
    for names, count in contribs:
        k = tuple(sorted(set(names)))
        sm[k] = sm.get(k, 0) + count
    keys = sorted(sm, key=lambda k: (len(k), k))
    total = sum(sm.values())
    plats = sorted({p for k in sm for p in k})

    def dist(p, q):
        union = sum(c for k, c in sm.items() if p in k or q in k)
        sym = sum(c for k, c in sm.items() if (p in k) != (q in k))
        return Fraction(sym, union) if union else None
    matrix = [[dist(p, q) for q in plats] for p in plats]
    prs = [dist(p, q) for p, q in itertools.combinations(plats, 2)]
    div_raises = any(d is None for d in prs)
    div = None if (not prs or div_raises) else sum(prs) / len(prs)
    used = sum(c for k, c in sm.items() if k)
    cov = Fraction(100 * used, total) if total else None
    per = [Fraction(100 * sum(c for k, c in sm.items() if p in k), total) if total else None for p in plats]
    avg = None if (not plats or not total) else sum(per) / len(plats)
    return {"rows": [[list(k), sm[k]] for k in keys], "pct": [Fraction(100 * sm[k], total) if total else None for k in keys],
            "total": total, "plats": plats, "matrix": matrix, "div": div, "cov": cov, "avg": avg,
            "summary_raises": (bool(keys) and total == 0) or div_raises,
            "undefined_pair": any(d is None for row in matrix for d in row)}


# ------------------------------------------------------------------ P: rendering and the attribution oracle
def lang_of(path):
    """language class of a file name as codebasin.language.FileLanguage assigns it (only the classes the
    generator uses: fortran-free, asm, c/c++ - the last two share one lexer)."""
    ext = os.path.splitext(path[-1])[1]
    if ext in (".f90", ".F90"):
        return "fortran"
    if ext in (".s", ".S", ".asm"):
        return "asm"
    return "c"


def line_text(i, l):
    k = l[0]
    if k == "C":
        if len(l) > 3:
            # a code line longer than 4096 bytes (files that share a long beginning and differ near the end)
            return [f"int v{i}_{j}_{'a' * 4200} = {l[2]};" for j in range(l[1])]
        return [f"int v{i}_{j} = {l[2] if len(l) > 2 else 0};" for j in range(l[1])]
    if k == "B":
        return [f"! note {i}_{j}" for j in range(l[1])]
    return [{"I": f"#ifdef {l[1] if len(l) > 1 else ''}", "N": f"#ifndef {l[1] if len(l) > 1 else ''}",
             "L": f"#elif defined({l[1] if len(l) > 1 else ''})", "E": "#else", "X": "#endif",
             "H": f'#include "{l[1] if len(l) > 1 else ""}"',
             "D": f"#define {l[1] if len(l) > 1 else ''} {l[2] if len(l) > 2 else ''}".rstrip(),
             "Q": f"#if {l[1] if len(l) > 1 else ''} == {l[2] if len(l) > 2 else ''}"}[k]]


def render(lines, lang="c"):
    """logical lines -> (text, nodes); nodes = the physical line numbers of every CodeNode in walk order, as the
    lexer of [lang] sees the text: '! ...' lines are code for the C lexer and comments for the Fortran one; the
    assembler lexer drops '#' lines and makes one node of everything else."""
    out, nodes, run = [], [], []
    for i, l in enumerate(lines):
        k = l[0]
        txt = line_text(i, l)
        first = len(out) + 1
        out += txt
        nums = list(range(first, len(out) + 1))
        if lang == "asm":
            if k in ("C", "B"):
                run += nums
            continue
        if k == "C" or (k == "B" and lang == "c"):
            run += nums
            continue
        if k == "B":
            continue                      # a Fortran comment: no SLOC, does not end a run of code
        if run:
            nodes.append(run)
            run = []
        nodes.append(nums)
    if run:
        nodes.append(run)
    return "\n".join(out) + "\n", nodes


# the user-defined compiler "mycc" written to .cbi/config: flag -> (mode name, defines, include directories)
MODES = {"-fa": ("ma", ["MV=1"], []), "-fb": ("mb", ["MV=2"], []), "-fc": ("mc", ["MX"], [["arch", "m"]])}
# and its passes, selected together by --arch=a,b,... : letter -> (defines, include directories)
PASSES = {"a": (["PA"], [["arch", "a"]]), "b": (["PB"], [["arch", "b"]]), "c": (["MV=2"], [["arch", "a"], ["arch", "m"]])}
ARCH_DIRS = [["arch", "a"], ["arch", "b"], ["arch", "m"]]


def command_entries(case, pname, defs):
    """The preprocessor configurations config.ArgumentParser.parse_args makes of ONE compile command, as
    (defines, include search list) in the order finder.find sees them: the 'default' pass = the command line's -D
    and -I options followed by what the active modes add, in the order of their flags; and one further,
    independent configuration per selected pass = the command line's options followed by what that pass adds."""
    opts = case.get("opts", {}).get(pname, {})
    base = [case["incdirs"][i] for i in opts.get("I", [])]
    d, sdirs = list(defs), list(base)
    for flag in dict.fromkeys(opts.get("modes", [])):
        d += MODES[flag][1]
        sdirs += MODES[flag][2]
    out = [(d, sdirs)]
    for letter in dict.fromkeys(opts.get("passes", [])):
        out.append((list(defs) + PASSES[letter][0], list(base) + PASSES[letter][1]))
    return out


def n_events(case):
    return sum(len(comp) * len(command_entries(case, name, defs)) for name, defs, comp in case["plats"])


def resolve(case, name, this_dir, search):
    """Platform.find_include_file for a quoted name: the includer's directory, then the -I directories in order."""
    index = {pstr(f[0]): i for i, f in enumerate(case["files"])}
    for d in [this_dir] + search:
        cand = os.path.normpath(os.path.join(pstr(d) or ".", name))
        if cand in index:
            return index[cand]
    return None


def walk(case, idx, env, search, out, depth):
    """One visit of files[idx] by the associator with the macro table [env] (first definition wins) and the
    include search list [search]: appends the (path, node) pairs it associates, follows reached #include lines."""
    p, lines = case["files"][idx]
    lang = lang_of(p)
    if lang == "asm":
        if any(l[0] in ("C", "B") for l in lines):
            out.append([p, 0])
        return
    stack, node, run_open, live = [], 0, False, True
    for l in lines:
        k = l[0]
        if k == "B" and lang == "fortran":
            continue
        if k in ("C", "B"):
            if not run_open:
                run_open = True
                if live:
                    out.append([p, node])
                node += 1
            continue
        run_open = False
        if k == "H":
            if live:
                out.append([p, node])
                t = l[2] if len(l) > 2 and l[2] is not None else resolve(case, l[1], p[:-1], search)
                if t is not None and depth < 8:
                    walk(case, t, env, search, out, depth + 1)
        elif k == "D":
            if live:
                out.append([p, node])
                env.setdefault(l[1], str(l[2]) if len(l) > 2 and l[2] != "" else "")
        elif k in ("I", "N", "Q"):
            if live:
                out.append([p, node])
                if k == "Q":
                    t = env.get(l[1]) == str(l[2])
                else:
                    t = (l[1] in env) == (k == "I")
                stack.append([True, t, live])
                live = t
            else:
                stack.append([False, False, live])
        elif k in ("L", "E"):
            parent, taken, outer = stack[-1]
            if parent:
                out.append([p, node])
                if taken:
                    live = False
                else:
                    t = True if k == "E" else (l[1] in env)
                    stack[-1][1] = t
                    live = t
        elif k == "X":
            parent, taken, outer = stack.pop()
            if parent:
                out.append([p, node])
            live = outer
        node += 1


def entry_hits(case, pname, defs, c):
    """For one compile command: per preprocessor configuration (pass) the (path, node) pairs it associates:
    forced includes first, then the file, one macro table per configuration."""
    opts = case.get("opts", {}).get(pname, {})
    fidx = comp_target(case, c)[0]
    this_dir = case["files"][fidx][0][:-1]
    res = []
    for defines, search in command_entries(case, pname, defs):
        env = {}
        for d in defines:
            m, eq, v = d.partition("=")
            env.setdefault(m, v if eq else "1")
        out = []
        for name in opts.get("include", []):
            t = resolve(case, name, this_dir, search)
            if t is not None:
                walk(case, t, env, search, out, 0)
        walk(case, fidx, env, search, out, 0)
        res.append(out)
    return res


def nodes_of_file(f):
    return render(f[1], lang_of(f[0]))[1]


def comp_target(case, c):
    """a compile-command entry: a file index, or -(k+1) = through link k; -> (index of the real file, name used)."""
    if c >= 0:
        return c, case["files"][c][0]
    lp, t = case.get("links", [])[-c - 1]
    return t, lp


def pstr(p):
    return "/".join(p)


class shuffled_fs:
    """In THIS process: os.scandir / os.listdir yield their entries in an order drawn from the seed
    (the same perturbation as harness/c14_site/sitecustomize.py applies in the analysed interpreters)."""

    def __init__(self, seed):
        self.seed = seed

    def __enter__(self):
        if self.seed is None:
            return self
        import random
        rng = random.Random(self.seed)
        self._scandir, self._listdir = os.scandir, os.listdir
        real_scandir, real_listdir = os.scandir, os.listdir

        class Shuffled:
            def __init__(s, it):
                with it:
                    ents = sorted(it, key=lambda e: e.name)
                rng.shuffle(ents)
                s._it = iter(ents)

            def __iter__(s):
                return s

            def __next__(s):
                return next(s._it)

            def __enter__(s):
                return s

            def __exit__(s, *a):
                return False

            def close(s):
                pass

        def listdir(path="."):
            ents = sorted(real_listdir(path))
            rng.shuffle(ents)
            return ents
        os.scandir = lambda path=".": Shuffled(real_scandir(path))
        os.listdir = listdir
        return self

    def __exit__(self, *a):
        if self.seed is not None:
            os.scandir, os.listdir = self._scandir, self._listdir
        return False


class C14(Check):
    prop_id = "C14"
    rule = ("T: tables over <= 6 platform names (names chosen so that str order, case and length matter) as contributions in "
            "insertion order with repeated keys, counts from x.xx5-prone families (totals 8, 24, 40, 200), zero counts, up to 1e12; "
            "each under >= 3 insertion orders x 5 hash seeds in fresh interpreters; exhaustive small block; an edge stream (empty / "
            "all-zero tables, repeated names, punctuation, blanks, non-ASCII). P: code bases of 2-7 files in nested directories with "
            "#ifdef/#ifndef/#elif/#else structure and '!' lines, file names of three lexer classes (c/c++, fortran-free, asm), duplicate "
            "files, headers reached through (nested) #include, symbolic links whose name is of ANOTHER lexer class than their target "
            "(some named by compile commands), 2-3 -I directories holding same-named headers with different #defines listed in a "
            "different order per platform, repeated -D of one macro, forced includes, compiler modes defining one macro "
            "differently, #if MV == n blocks, 1-4 platforms with -D sets, each analysed by codebasin, cbi-tree and cbi-cov in a fresh interpreter under 4 schedules. F: the same code "
            "bases through finder.find + get_setmap in process, 4 runs with permuted configuration and shuffled scandir, observing "
            "the dict with its insertion order and every node's platform set. Non-trivial: T - at least two platforms and two rows "
            "of equal size; P - additionally files in more than one directory; F - two platforms, three rows, two directories")
    assumptions = ["which nodes a compile command reaches is C01/C04's subject: the model takes it as input (computed by an independent stateful oracle: #ifdef/#ifndef/#if M == n/#elif defined/#else/#endif, #define with first-definition-wins, quoted includes searched in the includer's directory then the -I list in order, forced includes first)",
                   "every symbolic link among the members points to a regular member of the code base (trees and association maps are keyed by the real path, the lexer is chosen by the real file name); counts stay below 2^53",
                   "runtime schedules (hash seeds, scandir order, platform-table order) are SAMPLED; Coq proves invariance of the model under every permutation",
                   "tabulate, json.dump and format(x,'.2f') are deterministic functions of their arguments (format is checked against the model's decimal rounding on every float)"]

    HASHSEEDS = ["0", "1", "2", "3", "random"]

    def __init__(self, tier, seed):
        super().__init__(tier, seed)
        self._tcache = {}
        self._pcache = {}
        self._ocache = {}
        self.stats = {"kinds": {"T": 0, "P": 0, "F": 0}, "t_rows_hist": {}, "t_platforms_hist": {}, "t_schedules_run": 0,
                      "p_schedules_run": 0, "p_files_hist": {}, "p_platforms_hist": {}, "float_values_compared_bit_exact": 0}
        self._pn = 0
        self._first_p = None

    # ---------------------------------------------------------------- generation
    def gen_table(self, big=False):
        r = self.rng
        np_ = r.choice([1, 2, 2, 3, 3, 3, 4, 4, 5, 6])
        plats = r.sample(NAMES, np_)
        fam = r.random()
        nrows = r.randint(1, 9)
        subsets = []
        for _ in range(nrows):
            k = r.choice([0, 1, 1, 1, 2, 2, 2, 3, np_])
            subsets.append(sorted(r.sample(plats, min(k, np_))))
        if fam < 0.45:
            # totals 8, 24, 40, 200: distances land on x.xx5 and per-row sums differ by order
            total = r.choice([8, 24, 40, 200, 24, 24])
            cuts = sorted(r.randint(0, total) for _ in range(nrows - 1))
            counts = [b - a for a, b in zip([0] + cuts, cuts + [total])]
        elif fam < 0.8:
            counts = [r.choice([0, 1, 1, 2, 3, 4, 5, 7, 15, 100]) for _ in range(nrows)]
        else:
            counts = [r.randint(0, 10 ** r.choice([3, 6, 12])) for _ in range(nrows)]
        contribs = [[s, c] for s, c in zip(subsets, counts)]
        n = len(contribs)
        perms = [list(reversed(range(n)))]
        for _ in range(2):
            p = list(range(n))
            r.shuffle(p)
            perms.append(p)
        present = sorted({p for s_, _ in contribs for p in s_})
        porders = []
        for _ in range(2):
            o = list(range(len(present)))
            r.shuffle(o)
            porders.append(o)
        return {"k": "T", "rows": contribs, "perms": perms, "porders": porders}

    def gen_lines(self, macros, depth=0):
        r = self.rng
        out = []
        for _ in range(r.randint(1, 3)):
            x = r.random()
            if x < 0.5 or depth >= 2:
                if r.random() < 0.35:
                    out.append(["B", r.randint(1, 2)])      # '! ...' : code for the C lexer, a comment in Fortran
                out.append(["C", r.randint(1, 3), r.randint(0, 1)])
                if r.random() < 0.2:
                    out.append(["B", 1])
            else:
                m = r.choice(macros)
                if r.random() < 0.25:
                    out.append(["Q", "MV", r.choice([1, 2])])          # #if MV == n
                else:
                    out.append([r.choice(["I", "I", "N"]), m])
                out += self.gen_lines(macros, depth + 1)
                if r.random() < 0.3:
                    out.append(["L", r.choice(macros)])
                    out += self.gen_lines(macros, depth + 1)
                if r.random() < 0.6:
                    out.append(["E"])
                    out += self.gen_lines(macros, depth + 1)
                out.append(["X"])
        return out

    def gen_codebase(self):
        r = self.rng
        macros = ["MX", "MY", "MZ"]
        dirs = [[], ["src"], ["src", "sub"], ["lib"], ["a-b"], ["a"]]
        nf = r.randint(2, 7)
        files, used = [], set()
        for i in range(nf):
            d = r.choice(dirs)
            ext = r.choice([".c", ".c", ".cpp", ".h", ".h", ".F90", ".f90", ".inc", ".S"])
            name = r.choice(["m", "n", "k", "Z", "a", "b"]) + str(r.randint(0, 2)) + ext
            p = d + [name]
            if pstr(p) in used:
                continue
            used.add(pstr(p))
            if files and r.random() < 0.25:
                lines = json.loads(json.dumps(r.choice(files)[1]))      # a duplicate
            else:
                lines = [["C", r.randint(1, 2), r.randint(0, 1)]] + self.gen_lines(macros)
            files.append([p, lines])
        # BIG files: one shared first line of 4.2 kB, then a class-specific tail; at least two content classes of
        # size >= 2 and a singleton, so that the classes collide under any digest of a prefix
        big = r.random() < 0.35
        if big:
            classes = [1, 1, 2, 2, 3] + [r.choice([1, 2, 3, 4]) for _ in range(r.randint(0, 2))]
            r.shuffle(classes)
            for n, cls in enumerate(classes):
                p = r.choice(dirs) + [f"big{n}" + r.choice([".c", ".cpp", ".h"])]
                used.add(pstr(p))
                files.append([p, [["C", 1, 0, "pad"], ["C", 1, cls], ["C", 1, cls + 1]] + ([["C", 1, 7]] if cls == 3 else [])])
        files = [f for f in files if not f[0][-1].endswith(".h")] + [f for f in files if f[0][-1].endswith(".h")]
        # #include lines: a file may include headers that come later in the list (no cycles)
        for i, (p, lines) in enumerate(files):
            later = [j for j in range(i + 1, len(files)) if files[j][0][-1].endswith(".h")]
            if later and r.random() < 0.75 and not p[-1].startswith("big"):
                for _ in range(r.randint(1, 2)):
                    j = r.choice(later)
                    rel = os.path.relpath(pstr(files[j][0]), os.path.dirname(pstr(p)) or ".")
                    pos = r.randint(0, len(lines))
                    lines.insert(pos, ["H", rel, j])
        srcs = [i for i, f in enumerate(files) if not f[0][-1].endswith(".h")]
        if not srcs:
            files.append([["main.c"], [["C", 1, 0]]])
            srcs = [len(files) - 1]
        npl = r.choice([1, 2, 2, 3, 3, 4])
        plats = []
        for name in r.sample(["cpu", "gpu", "GPU", "a", "Z", "b10", "b2"], npl):
            defs = [m for m in macros if r.random() < 0.5]
            comp = [i for i in srcs if r.random() < 0.7] or [r.choice(srcs)]
            plats.append([name, defs, comp])
        # several include directories holding headers of the SAME name with different effect; every platform
        # lists them in its own order; repeated -D of one macro, forced includes, compiler modes in flag order
        incdirs, opts = [], {}
        if r.random() < 0.65:
            incdirs = r.sample([["inc", "x"], ["inc", "y"], ["cfg"]], r.randint(2, 3))
            effects = [["MX", ""], ["MY", ""], ["MV", 1], ["MV", 2], ["MV", 1], ["MV", 2]]
            for d in incdirs:
                for hname in ["cfg.h", "opt.h"]:
                    if r.random() < 0.75:
                        m, v = r.choice(effects)
                        body = [["D", m, v]] + ([["C", 1, 0]] if r.random() < 0.5 else [])
                        if r.random() < 0.3:
                            m2, v2 = r.choice(effects)
                            body.append(["D", m2, v2])
                        files.append([d + [hname], body])
                        used.add(pstr(d + [hname]))
            for i in srcs:
                if files[i][0][-1].startswith("big"):
                    continue                      # keep the shared 4 kB beginning of the BIG files intact
                if lang_of(files[i][0]) != "asm" and r.random() < 0.7:
                    files[i][1].insert(r.choice([0, 0, 1]), ["H", r.choice(["cfg.h", "opt.h"]), None])
                if r.random() < 0.6:
                    # a block whose attribution depends on WHICH definition of MV came first
                    files[i][1] += [["Q", "MV", r.choice([1, 2])], ["C", r.randint(1, 2), 0], ["E"], ["C", r.randint(1, 3), 1], ["X"]]
            for pl in plats:
                o = {"I": r.sample(range(len(incdirs)), r.randint(2, len(incdirs)))}
                if r.random() < 0.4:
                    o["include"] = r.sample(["cfg.h", "opt.h"], r.choice([1, 2, 2]))
                if r.random() < 0.4:
                    dup = ["MV=1", "MV=2"]
                    r.shuffle(dup)
                    pl[1] = pl[1] + dup[:r.randint(1, 2)]
                if r.random() < 0.45:
                    o["modes"] = r.sample(list(MODES), r.randint(2, 3))
                opts[pl[0]] = o
        # a user compiler with flag-selected PASSES (and a mode) that each declare include directories holding a
        # header of the same name with a different effect; commands select several passes at once
        if r.random() < 0.5:
            effects = [["MV", 1], ["MV", 2], ["MX", ""], ["MY", ""], ["MV", 1], ["MV", 2]]
            for d in ARCH_DIRS:
                if pstr(d + ["arch.h"]) in used:
                    continue
                m, v = r.choice(effects)
                body = [["D", m, v]] + ([["C", r.randint(1, 2), 0]] if r.random() < 0.5 else [])
                if r.random() < 0.5:
                    body += [["I", r.choice(["PA", "PB"])], ["C", 1, 1], ["X"]]
                files.append([d + ["arch.h"], body])
                used.add(pstr(d + ["arch.h"]))
            for i in srcs:
                if files[i][0][-1].startswith("big"):
                    continue
                if lang_of(files[i][0]) != "asm" and r.random() < 0.8:
                    files[i][1].insert(0, ["H", "arch.h", None])
                    files[i][1] += [["Q", "MV", r.choice([1, 2])], ["C", r.randint(1, 2), 0], ["E"], ["C", r.randint(1, 3), 1], ["X"]]
            some = False
            for pl in plats:
                if r.random() < 0.7 or not some:
                    some = True
                    o = opts.setdefault(pl[0], {})
                    o["passes"] = r.sample(list(PASSES), r.randint(2, 3))
                    if r.random() < 0.4 and "modes" not in o:
                        o["modes"] = r.sample(list(MODES), r.randint(1, 3))
        # symbolic links whose name falls into ANOTHER language class than the file they point to, some of them
        # named by compile commands
        links = []
        other = {"c": [".F90", ".f90", ".S"], "fortran": [".inc", ".c", ".cpp", ".S"], "asm": [".c", ".F90"]}
        if r.random() < 0.6:
            for _ in range(r.randint(1, 2)):
                t = r.randrange(len(files))
                lp = r.choice(dirs) + [r.choice(["m", "lnk", "Z", "b"]) + str(r.randint(0, 2)) + r.choice(other[lang_of(files[t][0])])]
                if pstr(lp) in used:
                    continue
                used.add(pstr(lp))
                links.append([lp, t])
            for pl in plats:
                for k in range(len(links)):
                    if r.random() < 0.5:
                        pl[2].insert(r.randint(0, len(pl[2])), -(k + 1))
        sched = []
        for k in range(4):
            sched.append([self.HASHSEEDS[k] if k < 4 else "random", r.randint(0, 10 ** 6), r.randint(0, 10 ** 6), r.randint(0, 10 ** 6)])
        sched[3][0] = "random"
        proto = {"files": files, "links": links, "incdirs": incdirs, "opts": opts, "plats": plats}
        nev = n_events(proto)
        ncev = len(plats[0][2]) * len(command_entries(proto, plats[0][0], plats[0][1]))
        perms = []
        for _ in range(2):
            a, b, c = list(range(len(files) + len(links))), list(range(nev)), list(range(ncev))
            r.shuffle(a), r.shuffle(b), r.shuffle(c)
            perms.append([a, b, c])
        return {"k": "P", "files": files, "links": links, "incdirs": incdirs, "opts": opts, "plats": plats,
                "sched": sched, "perms": perms, "big": big}

    def generate(self):
        out = []
        quick = self.tier == "quick"
        # exhaustive small block: every table on {} {A} {B} {A,B} with counts in a small set,
        # and every 0/1 table on the 8 subsets of {A,B,C}
        vals = [0, 1, 3] if quick else [0, 1, 2, 5]
        subs2 = [[], ["A"], ["B"], ["A", "B"]]
        for counts in itertools.product(vals, repeat=4):
            rows = [[s, c] for s, c in zip(subs2, counts)]
            out.append({"k": "T", "rows": rows, "perms": [[3, 2, 1, 0], [1, 0, 3, 2]]})
        subs3 = [list(s) for k in range(4) for s in itertools.combinations("ABC", k)]
        rng = range(0, 256, 5) if quick else range(256)
        for bits in rng:
            rows = [[s, (bits >> i) & 1] for i, s in enumerate(subs3)]
            out.append({"k": "T", "rows": rows, "perms": [[7, 6, 5, 4, 3, 2, 1, 0], [2, 1, 3, 0, 6, 7, 5, 4]]})
        for _ in range(400 if quick else 10000):
            out.append(self.gen_table())
        # edge / malformed stream: empty table, all-zero tables, only the empty set, repeated names in a
        # row, repeated keys, names with punctuation, digits first, blanks and non-ASCII letters
        odd = ["x-y", "p.q", "1st", "a b", "\u00e9", "Z", "a", "_"]
        out.append({"k": "T", "rows": [], "perms": [[]]})
        out.append({"k": "T", "rows": [[[], 5]], "perms": [[0]]})
        out.append({"k": "T", "rows": [[["A"], 0], [["B"], 0]], "perms": [[1, 0]]})
        out.append({"k": "T", "rows": [[["A", "A", "B"], 2], [["B", "A"], 3], [["B"], 1]], "perms": [[2, 1, 0], [1, 2, 0]]})
        for _ in range(40 if quick else 600):
            n = self.rng.randint(1, 6)
            rows = []
            for _ in range(n):
                k = self.rng.randint(0, 3)
                rows.append([[self.rng.choice(odd) for _ in range(k)], self.rng.choice([0, 0, 1, 2, 3, 24])])
            perms = [list(reversed(range(n)))]
            p2 = list(range(n))
            self.rng.shuffle(p2)
            perms.append(p2)
            out.append({"k": "T", "rows": rows, "perms": perms})
        for _ in range(14 if quick else 260):
            out.append(self.gen_codebase())
        for _ in range(150 if quick else 2500):
            c = self.gen_codebase()
            nev = n_events(c)
            perms = []
            for _ in range(2):
                a, b = list(range(len(c["files"]) + len(c["links"]))), list(range(nev))
                self.rng.shuffle(a), self.rng.shuffle(b)
                perms.append([a, b])
            out.append({"k": "F", "files": c["files"], "links": c["links"], "incdirs": c["incdirs"], "opts": c["opts"],
                        "plats": c["plats"],
                        "runs": [[self.rng.randint(0, 10 ** 6), self.rng.randint(0, 10 ** 6)] for _ in range(3)], "perms": perms})
        return out

    # ---------------------------------------------------------------- encoding for the model
    def p_parts(self, case):
        """members (regular files, then links: name, real path, nodes of the real file) / events / coverage events."""
        files = [[f[0], f[0], nodes_of_file(f)] for f in case["files"]]
        for lp, t in case.get("links", []):
            files.append([lp, case["files"][t][0], nodes_of_file(case["files"][t])])
        events = []
        for name, defs, comp in case["plats"]:
            for c in comp:
                events += [[name, h] for h in entry_hits(case, name, defs, c)]
        name, defs, comp = case["plats"][0]
        cev = []
        for c in comp:
            cev += [["cli", h] for h in entry_hits(case, name, defs, c)]
        return files, events, cev

    def encode(self, case):
        if case["k"] == "T":
            return enc(["T", case["rows"], case["perms"], case.get("porders", [])])
        files, events, cev = self.p_parts(case)
        if case["k"] == "F":
            return enc(["F", files, events, case["perms"]])
        return enc(["P", files, events, cev, case["perms"]])

    # ---------------------------------------------------------------- I: table cases
    def run_tbatch(self, cases):
        """All T cases, one fresh interpreter per hash seed."""
        payload = []
        for c in cases:
            orders = [c["rows"]] + [[c["rows"][i] for i in ix] for ix in c["perms"]]
            payload.append({"orders": orders, "porders": c.get("porders", [])})
        data = json.dumps(payload)

        def go(hs):
            env = dict(os.environ)
            env["PYTHONPATH"] = str(common.REPO)
            env["PYTHONHASHSEED"] = hs
            p = subprocess.run([PY, "-W", "ignore", str(HERE / "c14_tbatch.py")], input=data, capture_output=True,
                               text=True, env=env, cwd=str(common.scratch()), timeout=3600)
            if p.returncode != 0:
                raise RuntimeError("c14_tbatch failed: " + p.stderr[-400:])
            return json.loads(p.stdout)
        with ThreadPoolExecutor(JOBS) as ex:
            res = list(ex.map(go, self.HASHSEEDS))
        for i, c in enumerate(cases):
            scheds = []
            for h in range(len(self.HASHSEEDS)):
                scheds += res[h][i]
            self._tcache[self.key(c)] = scheds
            self.stats["t_schedules_run"] += len(scheds)

    @staticmethod
    def t_view(o):
        """one schedule's raw result -> canonical, comparable with the model."""
        if isinstance(o["summary"], list):
            rows, lines = ("undef", "undef") if o["summary"][1] == "ZeroDivisionError" else (o["summary"], o["summary"])
        else:
            rows, lines = parse_summary(o["summary"])
            lines = ["undef" if (x == "nan" and i < 3) else x for i, x in enumerate(lines)]
        return {"rows": rows, "lines": lines, "plats": o["plats"],
                "matrix": [[fx_impl(v) for v in row] for row in o["matrix"]],
                "div": fx_impl(o["div"]), "cov": fx_impl(o["cov"]), "avg": fx_impl(o["avg"]),
                "avgp": [fx_impl(v) for v in o["avgp"]]}

    def impl_T(self, case):
        k = self.key(case)
        if k not in self._tcache:
            self.run_tbatch([case])
        views = [self.t_view(o) for o in self._tcache[k]]
        base = views[0]
        unstable = sorted({name for v in views[1:] for name in base if v[name] != base[name]})
        out = dict(base)
        # the same platforms in another order must give the same average coverage
        if any(v != base["avg"] for view in views for v in view["avgp"]):
            unstable = sorted(set(unstable) | {"avg-platform-order"})
        out["unstable"] = unstable
        return out

    # ---------------------------------------------------------------- I: process cases
    def materialise(self, case, root: Path, create_seed: int, plat_seed: int):
        import random
        if root.exists():
            shutil.rmtree(root)
        root.mkdir(parents=True)
        links = case.get("links", [])
        order = list(range(len(case["files"]) + len(links)))
        random.Random(create_seed).shuffle(order)
        for i in order:
            if i < len(case["files"]):
                p, lines = case["files"][i]
                fp = root.joinpath(*p)
                fp.parent.mkdir(parents=True, exist_ok=True)
                fp.write_text(render(lines)[0])
            else:
                lp, t = links[i - len(case["files"])]
                fp = root.joinpath(*lp)
                fp.parent.mkdir(parents=True, exist_ok=True)
                # a relative link; it may be created before its target exists
                os.symlink(os.path.relpath(pstr(case["files"][t][0]), os.path.dirname(pstr(lp)) or "."), fp)
        for d in case.get("incdirs", []):
            root.joinpath(*d).mkdir(parents=True, exist_ok=True)
        if any(o.get("modes") or o.get("passes") for o in case.get("opts", {}).values()):
            # a user-defined compiler: modes that define one macro differently / add an include directory, and
            # passes (selected together by --arch=a,b) that each add their own defines and include directories
            cfgtxt = ["[compiler.mycc]", ""]
            for flag, (mode, _, _) in MODES.items():
                cfgtxt += ["[[compiler.mycc.parser]]", f'flags = ["{flag}"]', 'action = "append_const"', 'dest = "modes"',
                           f'const = "{mode}"', ""]
            cfgtxt += ["[[compiler.mycc.parser]]", 'flags = ["--arch"]', 'action = "store_split"', 'sep = ","',
                       'format = "arch-$value"', 'dest = "passes"', ""]
            for flag, (mode, mdefs, mdirs) in MODES.items():
                cfgtxt += ["[[compiler.mycc.modes]]", f'name = "{mode}"', "defines = " + json.dumps(mdefs),
                           "include_paths = " + json.dumps([pstr(d) for d in mdirs]), ""]
            for letter, (pdefs, pdirs) in PASSES.items():
                cfgtxt += ["[[compiler.mycc.passes]]", f'name = "arch-{letter}"', "defines = " + json.dumps(pdefs),
                           "include_paths = " + json.dumps([pstr(d) for d in pdirs]), ""]
            (root / ".cbi").mkdir(exist_ok=True)
            (root / ".cbi" / "config").write_text("\n".join(cfgtxt))
        plats = list(case["plats"])
        random.Random(plat_seed).shuffle(plats)
        toml = []
        for name, defs, comp in plats:
            opts = case.get("opts", {}).get(name, {})
            words = [f"-D{d}" for d in defs] + [f"-I{pstr(case['incdirs'][i])}" for i in opts.get("I", [])]
            for h in opts.get("include", []):
                words += ["-include", h]
            words += list(opts.get("modes", []))
            if opts.get("passes"):
                words.append("--arch=" + ",".join(opts["passes"]))
            cc = "mycc" if (opts.get("modes") or opts.get("passes")) else "cc"
            db = []
            for c in comp:
                rel = pstr(comp_target(case, c)[1])
                db.append({"file": rel, "directory": str(root), "command": " ".join([cc] + words + ["-c", rel])})
            (root / f"db_{name}.json").write_text(json.dumps(db))
            toml.append(f'[platform.{name}]\ncommands = "db_{name}.json"\n')
        (root / "a.toml").write_text("\n".join(toml))
        return f"db_{case['plats'][0][0]}.json"

    def run_schedule(self, case, idx, tag):
        hs, cseed, sseed, pseed = case["sched"][idx]
        root = common.scratch() / "c14p" / tag / f"s{idx}"
        db = self.materialise(case, root, cseed if idx else 0, pseed if idx else 0)
        env = dict(os.environ)
        env["PYTHONPATH"] = f"{SITE}:{common.REPO}"
        env["PYTHONHASHSEED"] = hs
        if idx:
            env["C14_SHUFFLE"] = str(sseed)
        else:
            env.pop("C14_SHUFFLE", None)
        p = subprocess.run([PY, "-W", "ignore", str(HERE / "c14_prun.py"), "a.toml", db], cwd=str(root),
                           capture_output=True, text=True, env=env, timeout=300)
        res = {"rc": (root / "out_rc.txt").read_text() if (root / "out_rc.txt").exists() else f"runner rc={p.returncode} {p.stderr[-300:]}"}
        rs = str(root)
        for name, fn in (("main", "out_main.txt"), ("tree", "out_tree.txt"), ("covjson", "coverage.json")):
            f = root / fn
            res[name] = f.read_text().replace(rs, "<ROOT>") if f.exists() else None
        shutil.rmtree(root, ignore_errors=True)
        return res

    @staticmethod
    def parse_tree(text):
        rows = []
        stack = []
        for line in text.splitlines():
            m = re.match(r"^\[([A-Z-]*) \| +(\S+) \| +(\S+) \| +(\S+)\] (.*)$", line)
            if not m:
                continue
            letters, sloc, cc, ac, rest = m.groups()
            m2 = re.match(r"^((?:[| ] )*)([|\\])(-o|--) (.*)$", rest)
            if not m2:
                path = []            # the root line
                stack = []
            else:
                depth = len(m2.group(1)) // 2 + 1
                nm = m2.group(4).split(" -> ")[0].rstrip("/")
                stack = stack[:depth - 1] + [nm]
                path = list(stack)
            rows.append([path, [letters, int(sloc) if sloc.isdigit() else sloc, hundredths(cc), hundredths(ac)]])
        return sorted(rows, key=lambda r: r[0])

    def p_view(self, raw):
        """one schedule's raw outputs -> canonical content."""
        v = {"rc": raw["rc"]}
        main = raw["main"] or ""
        s = section(main, "Summary")
        v["rows"], v["lines"] = parse_summary(s) if s else ("missing", "missing")
        if isinstance(v["lines"], list):
            v["lines"] = ["undef" if (x == "nan" and i < 3) else x for i, x in enumerate(v["lines"])]
        c = section(main, "Clustering")
        if c and "Distance Matrix" in c:
            g = parse_grid(c)
            v["matrix"] = [g[0][1:]] + [[r[0]] + [hundredths(x) for x in r[1:]] for r in g[1:]]
        else:
            v["matrix"] = None
        d = section(main, "Duplicates") or ""
        groups, cur = [], None
        for line in d.splitlines():
            if line.startswith("Match "):
                cur = []
                groups.append(cur)
            elif line.startswith("- ") and cur is not None:
                cur.append(line[2:].replace("<ROOT>/", ""))
        v["dups"] = sorted(sorted(g) for g in groups)
        v["tree"] = self.parse_tree(raw["tree"] or "")
        try:
            recs = json.loads(raw["covjson"]) if raw["covjson"] else None
        except Exception:  # noqa
            recs = "unparsable"
        v["cov"] = sorted([r["file"], r["id"], r["used_lines"], r["unused_lines"]] for r in recs) if isinstance(recs, list) else recs
        return v

    def impl_P(self, case):
        k = self.key(case)
        if k in self._pcache:
            return self._pcache[k]
        self._pn += 1
        tag = f"c{self._pn}"
        if self._first_p is None:
            self._first_p = case
        with ThreadPoolExecutor(JOBS) as ex:
            raws = list(ex.map(lambda i: self.run_schedule(case, i, tag), range(len(case["sched"]))))
        self.stats["p_schedules_run"] += len(raws)
        views = [self.p_view(r) for r in raws]
        base = dict(views[0])
        unstable = set()
        for r, v in zip(raws[1:], views[1:]):
            for name in base:
                if v[name] != base[name]:
                    unstable.add(name)
            # raw text: order of rows, of printed paths, of JSON records
            for name, title in (("summary-text", "Summary"), ("clustering-text", "Clustering"), ("duplicates-text", "Duplicates")):
                a, b = section(raws[0]["main"] or "", title), section(r["main"] or "", title)
                if name == "clustering-text" and a and b:
                    a, b = re.sub(r"Dendrogram written to .*", "", a), re.sub(r"Dendrogram written to .*", "", b)
                if a != b:
                    unstable.add(name)
            if r["tree"] != raws[0]["tree"]:
                unstable.add("tree-text")
            if r["covjson"] != raws[0]["covjson"]:
                unstable.add("coverage-bytes")
        base["unstable"] = sorted(unstable)
        self._pcache[k] = base
        return base

    # ---------------------------------------------------------------- I: finder cases (in process)
    def impl_F(self, case):
        """finder.find + get_setmap in this process, three times: the configuration dict and its entry
        lists in permuted order, os.scandir/os.listdir shuffled.  Observed: the setmap WITH its insertion
        order, and for every member (in CodeBase order) every CodeNode's lines and platform set."""
        import logging
        import random
        import codebasin
        from codebasin import finder
        from codebasin.preprocessor import CodeNode
        logging.disable(logging.CRITICAL)
        root = common.scratch() / "c14f"
        self.materialise(case, root, 0, 0)
        views = []
        for k, (pseed, sseed) in enumerate([[0, None]] + case["runs"]):
            plats = list(case["plats"])
            prng = random.Random(pseed)
            if k:
                prng.shuffle(plats)
            cfg = {}
            for name, defs, comp in plats:
                comp = list(comp)
                if k:
                    prng.shuffle(comp)
                opts = case.get("opts", {}).get(name, {})
                cfg[name] = [{"file": str(root.joinpath(*comp_target(case, i)[1])),
                              "defines": list(edefs),
                              "include_paths": [str(root.joinpath(*d)) for d in esearch],
                              "include_files": list(opts.get("include", []))}
                             for i in comp for edefs, esearch in command_entries(case, name, defs)]
            with shuffled_fs(sseed):
                cb = codebasin.CodeBase(str(root))
                state = finder.find(str(root), cb, cfg)
                setmap = state.get_setmap(cb)
                members = list(cb)
                per = []
                for f in members:
                    assoc = state.get_map(f)
                    per.append([os.path.relpath(f, root).split(os.sep),
                                [[list(n.lines), sorted(assoc[n])] for n in state.get_tree(f).walk() if isinstance(n, CodeNode)]])
            views.append({"setmap": [[sorted(ks), v] for ks, v in setmap.items()], "files": per})
        shutil.rmtree(root, ignore_errors=True)
        base = dict(views[0])
        base["unstable"] = sorted({name for v in views[1:] for name in ("setmap", "files") if v[name] != base[name]})
        return base

    def impl(self, case):
        try:
            if case["k"] == "F":
                return self.impl_F(case)
            return self.impl_T(case) if case["k"] == "T" else self.impl_P(case)
        except Exception as e:  # noqa
            return ["Err", type(e).__name__, str(e)[:200]]

    # ---------------------------------------------------------------- run_check hook: batch the T cases first
    def corpus(self):
        cs = super().corpus()
        return cs

    def key(self, case):
        return hashlib.sha1(json.dumps(case, sort_keys=True).encode()).hexdigest()

    # ---------------------------------------------------------------- M
    @staticmethod
    def m_table(tab, flo):
        rows, total, plats, dist, cov, percov = tab
        pcts, matrix, div, covf, avg, avgrev = flo
        undefined_pair = any(x == "ZeroDivisionError" for row in matrix for x in row)
        summary_raises = any(x == "ZeroDivisionError" for x in pcts) or div == "ZeroDivisionError"
        fdiv, fcov, favg = fx_model(div), fx_model(covf), fx_model(avg)

        def h(x):
            return "undef" if x == "undef" else x[1]
        v = {"rows": "undef" if summary_raises else [[r[0], r[1], fx_model(p)[1]] for r, p in zip(rows, pcts)],
             "lines": "undef" if summary_raises else [h(fdiv), h(fcov), h(favg), total],
             "plats": plats,
             "matrix": [[fx_model(x) for x in row] for row in matrix],
             "div": fdiv, "cov": fcov, "avg": favg}
        return v, undefined_pair or summary_raises, avgrev

    def model_view(self, case, ans):
        if case["k"] == "T":
            base, inv, old, oldinv, avgp = ans
            v, outside, avgrev = self.m_table(*base)
            if outside:
                return None
            v["avgp"] = [fx_model(x) for x in avgp]
            v["unstable"] = [] if (inv == 1 and avgrev == 1 and all(x == v["avg"] for x in v["avgp"])) else ["model-order-dependent"]
            return v
        if case["k"] == "F":
            (setmap, files), inv = ans
            return {"setmap": setmap, "files": files, "unstable": [] if inv == 1 else ["model-order-dependent"]}
        base, inv = ans
        (tab, flo), export, tree = base
        v, outside, avgrev = self.m_table(tab, flo)
        if outside:
            return None
        plats = v["plats"]
        out = {"rows": v["rows"], "lines": v["lines"],
               "matrix": None if len(plats) < 2 else [plats] + [[p] + [x[1] for x in row] for p, row in zip(plats, v["matrix"])],
               "cov": sorted([pstr(p), None, u, n] for p, u, n in export),
               "unstable": [] if (inv == 1 and avgrev == 1) else ["model-order-dependent"]}
        dirs, files = tree
        trows = []
        for p, (mem, sloc, cc, ac) in list(dirs) + list(files):
            letters = "".join(chr(65 + i) if b else "-" for i, b in enumerate(mem))
            trows.append([p, [letters, sloc, cc, ac]])
        out["tree"] = sorted(trows, key=lambda r: r[0])
        return out

    def impl_view_for_model(self, case, ia):
        if isinstance(ia, list):
            return ia
        if case["k"] in ("T", "F"):
            return ia
        v = {k: ia[k] for k in ("rows", "lines", "matrix", "tree", "unstable")}
        v["cov"] = [[f, None, u, n] for f, _id, u, n in ia["cov"]] if isinstance(ia["cov"], list) else ia["cov"]
        if ia["rc"] != "0 0 0":
            v["rc"] = ia["rc"]
        return v

    # ---------------------------------------------------------------- S
    def contribs_of(self, case):
        """the table of a P case from the definitions: every physical code line (as the lexer of the REAL file
        name counts it) with the set of platforms using it; links are not counted a second time."""
        nodes_of = {pstr(f[0]): nodes_of_file(f) for f in case["files"]}
        sets = {f: [set() for _ in ns] for f, ns in nodes_of.items()}
        for name, defs, comp in case["plats"]:
            for c in comp:
                for p, n in [x for h in entry_hits(case, name, defs, c) for x in h]:
                    sets[pstr(p)][n].add(name)
        out, per_file = [], {}
        for p, _ in case["files"]:
            f = pstr(p)
            rows = [[sorted(s), len(n)] for s, n in zip(sets[f], nodes_of[f])]
            per_file[f] = rows
            out += rows
        return out, per_file

    def oracle(self, case):
        k = self.key(case)
        if k in self._ocache:
            return self._ocache[k]
        if case["k"] == "T":
            o = oracle_table(case["rows"])
        else:
            contribs, per_file = self.contribs_of(case)
            o = oracle_table(contribs)
            o["per_file"] = per_file
            links = case.get("links", [])
            o["links"] = {pstr(lp): pstr(case["files"][t][0]) for lp, t in links}
            members = [(f[0], f) for f in case["files"]] + [(lp, case["files"][t]) for lp, t in links]
            o["line_sets"] = sorted([pstr(name), ln, rows[i][0]] for name, f in members
                                    for rows in [per_file[pstr(f[0])]] for i, n in enumerate(nodes_of_file(f)) for ln in n)
            by = {}
            for p, lines in case["files"]:
                by.setdefault(render(lines)[0], []).append(pstr(p))
            o["dups"] = sorted(sorted(g) for g in by.values() if len(g) > 1)
            name, defs, comp = case["plats"][0]
            hits = {}
            for c in comp:
                for p, n in [x for h in entry_hits(case, name, defs, c) for x in h]:
                    hits.setdefault(pstr(p), set()).add(n)
            cov = []
            for mname, f in members:
                text, nodes = render(f[1], lang_of(f[0]))
                hit = hits.get(pstr(f[0]), set())
                used = [ln for i, n in enumerate(nodes) if i in hit for ln in n]
                unused = [ln for i, n in enumerate(nodes) if i not in hit for ln in n]
                cov.append([pstr(mname), hashlib.sha512(text.encode()).hexdigest(), used, unused])
            o["covrecs"] = sorted(cov)
        self._ocache[k] = o
        return o

    def spec(self, case, ans):
        o = self.oracle(case)
        if case["k"] == "F":
            # the table as a mapping (S says nothing about dict order beyond "the same in every run"),
            # and every code line of every member with its platform set
            return {"table": sorted(o["rows"]), "lines": o["line_sets"], "unstable": []}
        v = {"rows": "undef" if o["summary_raises"] else o["rows"], "total": o["total"], "plats": o["plats"],
             "numbers": "agree with the definitions", "unstable": []}
        if case["k"] == "P":
            v["dups"] = o["dups"]
            v["cov"] = o["covrecs"]
            v["tree"] = "agrees with the definitions"
            v["rc"] = "0 0 0"
        return v

    def impl_view_for_spec(self, case, ia):
        if isinstance(ia, list):
            return ia
        o = self.oracle(case)
        bad = []
        if case["k"] == "F":
            lines = sorted([pstr(p), ln, s] for p, nodes in ia["files"] for lns, s in nodes for ln in lns)
            return {"table": sorted(ia["setmap"]), "lines": lines, "unstable": ia["unstable"]}
        if case["k"] == "T":
            rows = ia["rows"] if ia["rows"] == "undef" else [[r[0], r[1]] for r in ia["rows"]]
            if ia["rows"] != "undef":
                for r, q in zip(ia["rows"], o["pct"]):
                    if not close_h(r[2], q):
                        bad.append(["pct", r])
                cd, cc, ac, total = ia["lines"]
                if not (close_h(cd, o["div"]) and close_h(cc, o["cov"]) and close_h(ac, o["avg"])):
                    bad.append(["lines", ia["lines"]])
            else:
                total = o["total"]
            for i, row in enumerate(ia["matrix"]):
                for j, x in enumerate(row):
                    if not close(x, o["matrix"][i][j] if i < len(o["matrix"]) and j < len(o["matrix"][i]) else Fraction(-1)):
                        bad.append(["distance", i, j, x])
            if not o["summary_raises"] and not close(ia["div"], o["div"]):
                bad.append(["divergence", ia["div"]])
            if not close(ia["cov"], o["cov"]):
                bad.append(["coverage", ia["cov"]])
            if not close(ia["avg"], o["avg"]):
                bad.append(["average coverage", ia["avg"]])
            return {"rows": rows, "total": total, "plats": ia["plats"],
                    "numbers": bad or "agree with the definitions", "unstable": ia["unstable"]}
        rows = ia["rows"] if not isinstance(ia["rows"], list) else [[r[0], r[1]] for r in ia["rows"]]
        total = None
        if isinstance(ia["rows"], list) and len(ia["rows"]) == len(o["pct"]):
            for r, q in zip(ia["rows"], o["pct"]):
                if not close_h(r[2], q):
                    bad.append(["pct", r])
            cd, cc, ac, total = ia["lines"]
            if not (close_h(cd, o["div"]) and close_h(cc, o["cov"]) and close_h(ac, o["avg"])):
                bad.append(["lines", ia["lines"]])
        plats = o["plats"]
        if ia["matrix"] is None:
            got_plats = plats if len(plats) < 2 else None
        else:
            got_plats = ia["matrix"][0]
            for i, row in enumerate(ia["matrix"][1:]):
                for j, x in enumerate(row[1:]):
                    if i >= len(plats) or j >= len(plats) or not close_h(x, o["matrix"][i][j]):
                        bad.append(["distance", i, j, x])
        # cbi-tree: letters and SLOC exactly, coverage columns against the definitions
        tbad = []
        want = {}
        for f, frows in o["per_file"].items():
            parts = f.split("/")
            for d in range(len(parts) + 1):
                key = "/".join(parts[:d]) if d < len(parts) else f
                want.setdefault(key, []).extend(frows)
        want[""] = [r for frows in o["per_file"].values() for r in frows]
        for lname, target in o["links"].items():
            parts = lname.split("/")
            for d in range(1, len(parts)):
                want.setdefault("/".join(parts[:d]), [])
            want[lname] = list(o["per_file"][target])
        got = {pstr(p): meta for p, meta in ia["tree"]}
        if sorted(got) != sorted(want):
            tbad.append(["tree paths", sorted(got), sorted(want)])
        else:
            for key, rws in want.items():
                letters, sloc, cc, ac = got[key]
                mine = {p for s, _ in rws for p in s}
                tot = sum(c for _, c in rws)
                exp_letters = "".join(chr(65 + i) if p in mine else "-" for i, p in enumerate(plats))
                cq = Fraction(100 * sum(c for s, c in rws if s), tot) if tot else None
                aq = (sum(Fraction(100 * sum(c for s, c in rws if p in s), tot) for p in plats) / len(plats)) if (tot and plats) else None
                if letters != exp_letters or sloc != tot or not close_h(cc, cq) or not close_h(ac, aq):
                    tbad.append([key, got[key], exp_letters, tot])
        return {"rows": rows, "total": total, "plats": got_plats, "numbers": bad or "agree with the definitions",
                "unstable": ia["unstable"], "dups": ia["dups"], "cov": ia["cov"],
                "tree": tbad or "agrees with the definitions", "rc": ia["rc"]}

    def in_domain(self, case, sa):
        o = self.oracle(case)
        if case["k"] == "F":
            return True
        return not (o["summary_raises"] or o["undefined_pair"])

    def nontrivial(self, case, ia):
        if isinstance(ia, list):
            return False
        o = self.oracle(case)
        sizes = [len(r[0]) for r in o["rows"]]
        if case["k"] == "T":
            return len(o["plats"]) >= 2 and len(sizes) != len(set(sizes))
        if case["k"] == "F":
            return len(o["plats"]) >= 2 and len(o["rows"]) >= 3 and len({tuple(p[:-1]) for p, _ in case["files"]}) > 1
        return len(o["plats"]) >= 2 and len(sizes) != len(set(sizes)) and len({tuple(p[:-1]) for p, _ in case["files"]}) > 1

    def classify(self, case, ia, sa):
        return None

    def shrink(self, case, still_fails):
        if case["k"] == "T":
            rows = case["rows"]

            def f(rs):
                n = len(rs)
                return still_fails({"k": "T", "rows": rs, "perms": [list(reversed(range(n))), list(range(1, n)) + [0] if n else []]})
            c0 = {"k": "T", "rows": rows, "perms": [list(reversed(range(len(rows)))), list(range(1, len(rows))) + [0]]}
            if not still_fails(c0):
                return case
            rs = common.shrink_list(rows, f, max_steps=60)
            n = len(rs)
            return {"k": "T", "rows": rs, "perms": [list(reversed(range(n))), list(range(1, n)) + [0] if n else []]}
        if case["k"] == "F":
            return self.shrink_F(case, still_fails)
        return self.shrink_P(case, still_fails)

    @staticmethod
    def p_fix(files, plats, sched, links=(), base=None):
        """a well-formed P case from edited parts (model-side permutations = reversals)."""
        c = {"k": "P", "files": files, "links": [list(l) for l in links], "plats": plats, "sched": sched,
             "incdirs": (base or {}).get("incdirs", []), "opts": (base or {}).get("opts", {})}
        rev = lambda n: list(reversed(range(n)))  # noqa: E731
        ncev = len(plats[0][2]) * len(command_entries(c, plats[0][0], plats[0][1]))
        c["perms"] = [[rev(len(files) + len(links)), rev(n_events(c)), rev(ncev)]]
        return c

    @staticmethod
    def p_drop_link(plats, links, k):
        """remove link k: compile commands through it go, later links are renumbered."""
        np_ = []
        for name, defs, comp in plats:
            c = [x if x >= 0 or -x - 1 < k else x + 1 for x in comp if x != -(k + 1)]
            if c:
                np_.append([name, defs, c])
        return np_, [l for i, l in enumerate(links) if i != k]

    @staticmethod
    def p_drop_file(files, plats, j, links=()):
        links = [list(l) for l in links]
        for k in range(len(links) - 1, -1, -1):
            if links[k][1] == j:
                plats, links = C14.p_drop_link(plats, links, k)
        links = [[lp, t - (1 if t > j else 0)] for lp, t in links]
        nf = []
        for i, (p, lines) in enumerate(files):
            if i == j:
                continue
            ls = []
            for l in lines:
                if l[0] == "H" and len(l) > 2 and l[2] is not None:
                    if l[2] == j:
                        continue
                    l = ["H", l[1], l[2] - (1 if l[2] > j else 0)]
                ls.append(l)
            nf.append([p, ls])
        np_ = []
        for name, defs, comp in plats:
            c = [(i - (1 if i > j else 0)) if i >= 0 else i for i in comp if i != j]
            if c:
                np_.append([name, defs, c])
        return nf, np_, links

    def shrink_F(self, case, still_fails, budget=60):
        def fix(files, plats, links):
            c = {"k": "F", "files": files, "links": [list(l) for l in links], "plats": plats, "runs": case["runs"],
                 "incdirs": case.get("incdirs", []), "opts": case.get("opts", {})}
            c["perms"] = [[list(reversed(range(len(files) + len(links)))), list(reversed(range(n_events(c))))]]
            return c
        if not still_fails(fix(case["files"], case["plats"], case.get("links", []))):
            return case
        return self.shrink_parts(case, fix, still_fails, budget)

    def shrink_parts(self, case, make, still_fails, budget):
        """drop platforms, links and files while the case still fails."""
        cur = make(case["files"], case["plats"], case.get("links", []))
        changed = True
        while changed and budget > 0:
            changed = False
            for i in range(len(cur["plats"]) - 1, -1, -1):
                if len(cur["plats"]) < 2 or budget <= 0:
                    break
                cand = make(cur["files"], cur["plats"][:i] + cur["plats"][i + 1:], cur["links"])
                budget -= 1
                if still_fails(cand):
                    cur, changed = cand, True
            for k in range(len(cur["links"]) - 1, -1, -1):
                if budget <= 0:
                    break
                np_, nl = self.p_drop_link(cur["plats"], cur["links"], k)
                if not np_:
                    continue
                cand = make(cur["files"], np_, nl)
                budget -= 1
                if still_fails(cand):
                    cur, changed = cand, True
            for j in range(len(cur["files"]) - 1, -1, -1):
                if len(cur["files"]) < 2 or budget <= 0:
                    break
                nf, np_, nl = self.p_drop_file(cur["files"], cur["plats"], j, cur["links"])
                if not np_:
                    continue
                cand = make(nf, np_, nl)
                budget -= 1
                if still_fails(cand):
                    cur, changed = cand, True
        return cur

    def shrink_P(self, case, still_fails, budget=28):
        sched = case["sched"]
        cur = self.p_fix(case["files"], case["plats"], sched, case.get("links", []), case)
        if not still_fails(cur):
            return case
        budget -= 1
        # one perturbed schedule next to the baseline is enough if it still fails
        for k in range(1, len(sched)):
            cand = self.p_fix(cur["files"], cur["plats"], [sched[0], sched[k]], cur["links"], case)
            budget -= 1
            if still_fails(cand):
                cur, sched = cand, [sched[0], sched[k]]
                break
        return self.shrink_parts(cur, lambda f, p, l: self.p_fix(f, p, sched, l, case), still_fails, budget)

    def self_tests(self):
        """The runner (three tools through runpy in one fresh interpreter) must print what the real
        command lines print: one P case, baseline schedule, `python -m codebasin ...` three times."""
        probs = []
        case = self._first_p
        if case is None:
            return probs
        try:
            via_runner = self.run_schedule(case, 0, "selftest-r")
            root = common.scratch() / "c14p" / "selftest-cli" / "s0"
            db = self.materialise(case, root, 0, 0)
            env = dict(os.environ)
            env["PYTHONPATH"] = f"{SITE}:{common.REPO}"
            env["PYTHONHASHSEED"] = case["sched"][0][0]
            env.pop("C14_SHUFFLE", None)
            outs = {}
            for name, args in (("main", ["-m", "codebasin", "a.toml"]), ("tree", ["-m", "codebasin.tree", "a.toml"]),
                               ("cov", ["-m", "codebasin.coverage", "compute", "-S", ".", "-o", "coverage.json", db])):
                p = subprocess.run([PY, "-W", "ignore"] + args, cwd=str(root), capture_output=True, text=True, env=env, timeout=300)
                outs[name] = p.stdout.replace(str(root), "<ROOT>")
            cov = (root / "coverage.json").read_text() if (root / "coverage.json").exists() else None
            shutil.rmtree(root, ignore_errors=True)
            if outs["main"] != via_runner["main"]:
                probs.append("runner and `python -m codebasin` print different text")
            if outs["tree"] != via_runner["tree"]:
                probs.append("runner and `python -m codebasin.tree` print different text")
            if cov != via_runner["covjson"]:
                probs.append("runner and `python -m codebasin.coverage` write different coverage.json")
            self.stats["runner_validated_against_real_cli"] = not probs
        except Exception as e:  # noqa
            probs.append(f"runner self-test could not run: {type(e).__name__} {e}")
        return probs

    def extra_coverage(self):
        return {"schedules": {"hash_seeds": self.HASHSEEDS, "per_P_case": 4,
                              "what_varies": "PYTHONHASHSEED, file creation order, os.scandir/os.listdir order (sitecustomize on PYTHONPATH), order of [platform.*] tables, dict insertion order of the table (T)"}}

    # the batch of T cases is run when the first T case is asked for
    def prepare(self, cases):
        ts = [c for c in cases if c["k"] == "T" and self.key(c) not in self._tcache]
        if ts:
            self.run_tbatch(ts)


class _C14(C14):
    """run_check calls corpus()+generate() and then impl() case by case; batch the T cases in between."""

    def generate(self):
        cases = super().generate()
        allc, seen = [], set()
        for c in self.corpus() + cases:
            if self.key(c) not in seen:
                seen.add(self.key(c))
                allc.append(c)
        for c in allc:
            self.stats["kinds"][c["k"]] += 1
            if c["k"] == "T":
                o = oracle_table(c["rows"])
                h = self.stats["t_rows_hist"]
                h[str(len(o["rows"]))] = h.get(str(len(o["rows"])), 0) + 1
                h = self.stats["t_platforms_hist"]
                h[str(len(o["plats"]))] = h.get(str(len(o["plats"])), 0) + 1
            elif c["k"] == "F":
                self.stats["f_runs"] = self.stats.get("f_runs", 0) + 1 + len(c["runs"])
                self.stats["f_cases_with_cross_language_links"] = self.stats.get("f_cases_with_cross_language_links", 0) + int(bool(c.get("links")))
                self.stats["f_cases_with_several_passes"] = self.stats.get("f_cases_with_several_passes", 0) + \
                    int(any(o.get("passes") for o in c.get("opts", {}).values()))
            else:
                h = self.stats["p_files_hist"]
                h[str(len(c["files"]))] = h.get(str(len(c["files"])), 0) + 1
                h = self.stats["p_platforms_hist"]
                h[str(len(c["plats"]))] = h.get(str(len(c["plats"])), 0) + 1
                self.stats["p_cases_with_cross_language_links"] = self.stats.get("p_cases_with_cross_language_links", 0) + int(bool(c.get("links")))
                self.stats["p_cases_with_command_through_link"] = self.stats.get("p_cases_with_command_through_link", 0) + \
                    int(any(x < 0 for pl in c["plats"] for x in pl[2]))
                for key, field in (("p_cases_with_user_compiler_passes", "passes"), ("p_cases_with_user_compiler_modes", "modes"),
                                   ("p_cases_with_clashing_I_directories", "I"), ("p_cases_with_forced_includes", "include")):
                    self.stats[key] = self.stats.get(key, 0) + int(any(o.get(field) for o in c.get("opts", {}).values()))
                self.stats["p_cases_with_big_files_sharing_4kB_prefix"] = self.stats.get("p_cases_with_big_files_sharing_4kB_prefix", 0) + \
                    int(sum(1 for _, ls in c["files"] if ls and len(ls[0]) > 3) >= 3)
                inc = sum(1 for _, ls in c["files"] for l in ls if l[0] == "H")
                per_file = self.oracle(c)["per_file"]
                used_hdr = any(f.endswith(".h") and any(s for s, _ in rows) for f, rows in per_file.items())
                self.stats["p_include_lines"] = self.stats.get("p_include_lines", 0) + inc
                self.stats["p_cases_with_header_reached_through_include"] = \
                    self.stats.get("p_cases_with_header_reached_through_include", 0) + int(used_hdr)
        self.prepare(allc)
        return cases


CHECK = _C14
