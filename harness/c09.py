"""C09 — code-base membership: extension, location, git-style exclude patterns.

I  = codebasin.CodeBase(...).__contains__ / __iter__ on a tree built in scratch
M  = Model/C09.v  (resolve, exists, not dir, generated extension list, first root,
     pathspec.GitIgnoreSpec as modelled) run through the extracted driver
S  = Spec/C09.v   (git's semantics incl. the parent-directory rule), same driver;
     validated against `git check-ignore --no-index --stdin` in self_tests.

case = [entries, cwd, dirs, lines, queries]
  entries : [[components...], kind]   kind = "F" | "D" | ["L", target]
  cwd     : components of the process directory (a real directory of the tree)
  dirs    : strings passed to CodeBase(...); absolute ones are relative to the scratch base
  lines   : exclude patterns
  queries : path strings asked with `in`
"""
from __future__ import annotations

import itertools
import json
import os
import re
import sys
import shutil
import subprocess
import warnings
from pathlib import Path

from . import common
from .common import Check, enc

warnings.filterwarnings("ignore")

SRC_EXT = [".c", ".h", ".cpp", ".f90", ".S", ".cu"]
# every extension of both tables (as of writing; the sweep below re-reads them from the source) except fixed-form
# Fortran, whose files the command-line tools cannot parse (DESIGN section 6 no. 32)
SRC_EXT_MORE = [".F90", ".c++", ".cxx", ".cc", ".hpp", ".hxx", ".h++", ".hh", ".inc", ".inl", ".tcc", ".icc", ".ipp",
                ".cuh", ".cl", ".s", ".asm"]
SRC_EXT_FIXED = [".f", ".ftn", ".fpp", ".F", ".FOR", ".FTN", ".FPP"]
NEAR_MISSES = ["", ".", ".C", ".H", ".Cpp", ".f95", ".for", ".cp", ".c+", ".c++x", ".hpp~", ".txt", ".o", ".c.bak", ".tar",
               ".ASM", ".Cu", ".f9", ".90"]


def table_extensions():
    """extensions named by source.is_source_file and by FileLanguage, read from the repo's current source"""
    try:
        import importlib.util
        sp = importlib.util.spec_from_file_location("c09_tables", common.VERIF / "tools" / "gen" / "c09_tables.py")
        mod = importlib.util.module_from_spec(sp)
        sp.loader.exec_module(mod)
        a = mod._source_extensions(common.REPO)
        _, table = mod._language_tables(common.REPO)
        return sorted(set(a) | {e for _, v in table for e in v})
    except Exception:  # noqa  (the translator's failure is reported by the build step)
        return sorted(set(SRC_EXT + SRC_EXT_MORE + SRC_EXT_FIXED))
OTHER_EXT = [".txt", ".o", "", ".C", "."]
DIR_NAMES = ["a", "b", "build", "d e", "x[1]", "s*r", "q?", ".g", "a.c"]
FILE_STEMS = ["x", "z", "m n", "a*b", "q?", "[k]", ".hid", "#h", "!e", "b\\s", "a", "xa", "."]


def is_src_name(name: str) -> bool:
    """the specification's notion: the extension FileLanguage computes belongs to a language"""
    return os.path.splitext(name)[1] in (
        ".f90 .F90 .f .ftn .fpp .F .FOR .FTN .FPP .c .h .c++ .cxx .cpp .cc .hpp .hxx .h++ .hh .inc .inl .tcc .icc "
        ".ipp .cu .cuh .cl .s .S .asm").split()


# --------------------------------------------------------------------------
# generators
# --------------------------------------------------------------------------
def gen_tree(rng, loops=False, fixed_fortran=True):
    """entries under the model root: r/ (the code base), o/ (outside), sometimes r2/"""
    entries = [[["r"], "D"], [["o"], "D"]]
    dirs = [["r"], ["o"]]
    files = []

    def fill(d, depth):
        names = set()
        for _ in range(rng.randint(1, 4)):
            r = rng.random()
            if r < 0.30 and depth < 3:
                n = rng.choice(DIR_NAMES)
                if n in names:
                    continue
                names.add(n)
                entries.append([d + [n], "D"])
                dirs.append(d + [n])
                fill(d + [n], depth + 1)
            else:
                n = rng.choice(FILE_STEMS) + rng.choice(SRC_EXT * 6 + OTHER_EXT * 2 + SRC_EXT_MORE
                                                        + (SRC_EXT_FIXED if fixed_fortran else []) + NEAR_MISSES[2:8])
                if n in names or n in (".", ".."):
                    continue
                names.add(n)
                entries.append([d + [n], "F"])
                files.append(d + [n])
    fill(["r"], 1)
    if rng.random() < 0.5:
        entries.append([["o", "o.c"], "F"])
        files.append(["o", "o.c"])
    if rng.random() < 0.25:
        entries.append([["r2"], "D"])
        dirs.append(["r2"])
        entries.append([["r2", "y.c"], "F"])
        files.append(["r2", "y.c"])
    # symbolic links
    taken = {tuple(e[0]) for e in entries}
    links = []
    for _ in range(rng.choice([0, 0, 1, 2, 3, 4])):
        parent = rng.choice(dirs)
        lname = rng.choice(["l", "lk.c", "ln.h", "l.txt", "dl"])
        p = parent + [lname]
        if tuple(p) in taken:
            continue
        r = rng.random()
        if r < 0.12 and links:
            tgt = rng.choice(links)                 # a chain: link to a link
        elif r < 0.45 and files:
            tgt = rng.choice(files)
            if links and rng.random() < 0.2:        # ... reached through an earlier link
                l0 = rng.choice(links)
                tgt = l0 + [tgt[-1]]
        elif r < 0.75:
            tgt = rng.choice(dirs)
        elif r < 0.9 or not loops:
            tgt = parent + ["nowhere.c"]           # dangling
        else:
            tgt = p if rng.random() < 0.5 else parent + ["l2"]   # loop / dangling second hop
        if rng.random() < 0.3:
            t = "/" + "/".join(tgt)
        else:
            t = os.path.relpath("/" + "/".join(tgt), "/" + "/".join(parent))
        if rng.random() < 0.15 and len(parent) >= 1:
            t = "../" + parent[-1] + "/" + t if not t.startswith("/") else t + "/."
        taken.add(tuple(p))
        links.append(p)
        entries.append([p, ["L", t]])
    return entries, dirs, files


def esc_lit(name: str) -> str:
    return "".join("\\" + c if c in "*?[]\\!# " else c for c in name)


def glob_of(rng, name: str) -> str:
    """a glob that (usually) matches name"""
    r = rng.random()
    if r < 0.35:
        return esc_lit(name)
    if r < 0.5 and "." in name[1:]:
        return "*" + esc_lit(name[name.rfind("."):])
    if r < 0.6:
        return "*"
    i = rng.randrange(len(name))
    c = name[i]
    if r < 0.7:
        return esc_lit(name[:i]) + "?" + esc_lit(name[i + 1:])
    if r < 0.8:
        j = rng.randrange(i, len(name) + 1)
        return esc_lit(name[:i]) + "*" + esc_lit(name[j:])
    if r < 0.92 and c.isalnum():
        lo = chr(max(ord(c) - rng.randint(0, 2), ord("0") if c.isdigit() else ord("A") if c.isupper() else ord("a")))
        hi = chr(min(ord(c) + rng.randint(0, 2), ord("9") if c.isdigit() else ord("Z") if c.isupper() else ord("z")))
        neg = rng.random() < 0.2
        cls = "[" + ("!" if neg and rng.random() < 0.5 else "^" if neg else "") + (f"{lo}-{hi}" if lo != hi else c + "_") + "]"
        return esc_lit(name[:i]) + cls + esc_lit(name[i + 1:])
    return esc_lit(name)


def gen_pattern(rng, dirs, files, root=("r",)):
    n = len(root)
    rel_files = [f[n:] for f in files if tuple(f[:n]) == tuple(root)] or [["x.c"]]
    rel_dirs = [d[n:] for d in dirs if tuple(d[:n]) == tuple(root) and len(d) > n] or [["a"]]
    r = rng.random()
    if r < 0.04:
        return rng.choice(["# comment", "", "#", "/"])
    target_dir = rng.random() < 0.4
    p = list(rng.choice(rel_dirs if target_dir else rel_files))
    if rng.random() < 0.25 and len(p) > 1:
        p = p[:rng.randint(1, len(p))]          # a parent directory of the target
        target_dir = True
    segs = [glob_of(rng, c) for c in p]
    form = rng.random()
    if form < 0.30:
        s = segs[-1]                                     # basename, matches at any depth
    elif form < 0.40:
        s = "/" + "/".join(segs)
    elif form < 0.60:
        s = "/".join(segs)
    elif form < 0.68:
        s = "**/" + "/".join(segs[-rng.randint(1, len(segs)):])
    elif form < 0.76:
        s = "/".join(segs[:rng.randint(1, len(segs))]) + "/**"
    elif form < 0.84 and len(segs) >= 2:
        k = rng.randint(1, len(segs) - 1)
        s = "/".join(segs[:k]) + "/**/" + "/".join(segs[k + rng.randint(0, len(segs) - k - 1):])
    elif form < 0.90 and len(segs) >= 2:
        s = "*/" + "/".join(segs[1:])
    elif form < 0.95:
        s = "/".join(segs[:-1] + ["*"])
    else:
        s = rng.choice(["**", "*", "**/", "*/", "*.c", "*.[ch]", "/*", "/*.c", "!*/", "*.*"])
    if target_dir and rng.random() < 0.6 and not s.endswith("/") and not s.endswith("**"):
        s += "/"
    elif s.endswith("/**") and rng.random() < 0.12:
        s += "/"                       # "x/**/": pathspec and git read it differently (known finding)
    if rng.random() < 0.05:
        s += " " * rng.randint(1, 2)
    return s


def gen_lines(rng, dirs, files):
    k = rng.choice([0, 1, 1, 2, 2, 3, 3, 4, 5])
    out = []
    for i in range(k):
        s = gen_pattern(rng, dirs, files)
        if i > 0 and rng.random() < 0.45 and not s.startswith(("#", "!")) and s:
            s = "!" + s
        elif i == 0 and rng.random() < 0.08 and s and not s.startswith(("#", "!")):
            s = "!" + s
        out.append(s)
    return out


def spellings(rng, p, cwd, link_dirs):
    """different texts naming the absolute path p (components)"""
    ab = "/" + "/".join(p)
    out = [ab]
    rel = os.path.relpath(ab, "/" + "/".join(cwd)) if cwd else "/".join(p)
    out.append(rel)
    if len(p) >= 2:
        out.append("/" + "/".join(p[:-1]) + "/../" + "/".join(p[-2:]))
        out.append("/" + "/".join(p[:-1]) + "/./" + p[-1])
    for (lp, tgt) in link_dirs:           # lp -> directory tgt
        if p[:len(tgt)] == tgt and len(p) > len(tgt):
            out.append("/" + "/".join(lp + p[len(tgt):]))
            out.append("/" + "/".join(lp) + "/../" + "/".join(lp[-1:] + p[len(tgt):]))
        if p[:-1] == tgt[:-1] and len(tgt) >= 1:      # through the link and back out: link/../name (physical parent of the target)
            out.append("/" + "/".join(lp) + "/../" + p[-1])
    return out


def link_dirs_of(entries):
    """[(link path, target dir path)] for links whose (one-hop) target is a real directory"""
    kinds = {tuple(e[0]): e[1] for e in entries}
    out = []
    for e in entries:
        if isinstance(e[1], list):
            t = e[1][1]
            ab = os.path.normpath(t if t.startswith("/") else "/" + "/".join(e[0][:-1]) + "/" + t)
            comps = [c for c in ab.split("/") if c]
            if kinds.get(tuple(comps)) == "D":
                out.append((e[0], comps))
    return out


def gen_case(rng, malformed=False, fixed_fortran=True):
    entries, dirs, files = gen_tree(rng, loops=malformed, fixed_fortran=fixed_fortran)
    real_dirs = [d for d in dirs]
    cwd = rng.choice([[], ["r"], ["r"]] + real_dirs)
    ldirs = link_dirs_of(entries)
    # code-base directories
    r = rng.random()
    root_sp = rng.choice(spellings(rng, ["r"], cwd, ldirs) + ["/r", "/r/"])
    roots = [root_sp]
    if any(e[0] == ["r2"] for e in entries) and r < 0.7:
        roots.append("/r2")
    elif r < 0.1:
        roots.append("/o")
    for (lp, tgt) in ldirs:
        if tgt == ["r"] and rng.random() < 0.5:
            roots = ["/" + "/".join(lp)]
    if malformed:
        m = rng.random()
        sub = [d for d in dirs if len(d) > 1 and d[0] == "r"]
        if m < 0.3 and sub:
            nested = "/" + "/".join(rng.choice(sub))          # a code-base directory inside another one
            roots.insert(rng.randint(0, len(roots)), nested)
        elif m < 0.4:
            roots.append(rng.choice(["/r", "r", "/nonexistent", "/r/../r"]))
        elif m < 0.48 and files:
            roots = ["/" + "/".join(rng.choice(files))]
        elif m < 0.52:
            roots = []
    lines = gen_lines(rng, dirs, files)
    if malformed:
        alphabet = "ab.c*?[]!-^\\/# x"
        for _ in range(rng.randint(1, 2)):
            m = rng.random()
            if m < 0.5:
                lines.insert(rng.randint(0, len(lines)), "".join(rng.choice(alphabet) for _ in range(rng.randint(1, 7))))
            elif lines:
                i = rng.randrange(len(lines))
                s = lines[i]
                j = rng.randint(0, len(s))
                lines[i] = s[:j] + rng.choice(["\\", "\\/", "[", "]", "***", "**", " ", "//", "!", "\t", "[a-", "[]"]) + s[j:]
    # queries: every entry, under several spellings
    queries = []
    paths = [e[0] for e in entries]
    rng.shuffle(paths)
    for p in paths[:10]:
        sp = spellings(rng, p, cwd, ldirs)
        queries.append(sp[0] if rng.random() < 0.5 else rng.choice(sp))
        if rng.random() < 0.35:
            queries.append(rng.choice(sp))
    queries.append(rng.choice(["/r/nonexistent.c", "nonexistent/../x.c", "/r/x.c/../x.c", "", ".", "/", "/r", "../r"]))
    seen = set()
    queries = [q for q in queries if not (q in seen or seen.add(q))]
    return [entries, cwd, roots, lines, queries]


TREE_LINE = re.compile(r"^\[[^\]]*\] ((?:[| ] )*)([|\\])(-o|--) (.*)$")


def parse_tree_listing(text: str, root_abs: str):
    """file paths (relative to the root, '/'-joined) listed by cbi-tree's plain output"""
    files = []
    stack = []
    seen_root = False
    for line in text.splitlines():
        if not seen_root:
            if re.match(r"^\[[^\]]*\] o ", line):
                seen_root = True
            continue
        m = TREE_LINE.match(line)
        if not m:
            continue
        depth = len(m.group(1)) // 2 + 1
        name = m.group(4)
        if " -> " in name:
            name = name.split(" -> ")[0]
        del stack[depth - 1:]
        if m.group(3) == "-o":
            stack.append(name[:-1] if name.endswith("/") else name)
        else:
            files.append("/".join(stack + [name]))
    return sorted(files)


FIXED_TREE = [[["r"], "D"], [["r", "x.c"], "F"], [["r", "z.h"], "F"], [["r", "a"], "D"], [["r", "a", "x.c"], "F"],
              [["r", "a", "b"], "D"], [["r", "a", "b", "x.c"], "F"], [["r", "a", "b", "z.c"], "F"],
              [["r", "build"], "D"], [["r", "build", "z.c"], "F"], [["r", "build", "a"], "D"],
              [["r", "build", "a", "x.c"], "F"], [["r", "lnk.c"], ["L", "a/x.c"]], [["r", "ld"], ["L", "a"]]]
ATOMS = ["x.c", "/x.c", "*.c", "a/", "/a", "a/b/", "b/", "build/", "build", "a/x.c", "a/b", "a/**", "**/x.c", "a/**/x.c",
         "*", "*/", "/*", "z.?", "[xz].c", "a/*", "*/x.c", "b/x.c", "**/b/", "/build/a", "a\\/x.c", "x.c ", "\\x.c", "**",
         "a/**/", "z.h\\"]


def fixed_queries():
    qs = ["/" + "/".join(e[0]) for e in FIXED_TREE if e[1] == "F"]
    return qs + ["/r/lnk.c", "/r/ld/x.c", "/r/ld/b/x.c", "/r/a/../x.c"]


class C09(Check):
    prop_id = "C09"
    rule = ("random trees below r/ (depth <= 3, names with blanks and glob metacharacters, hidden files, source and "
            "non-source extensions, file/directory/dangling links, an outside directory o/, sometimes a second code-base "
            "directory) x 0-5 gitignore lines built from the names in the tree (basename, anchored, directory-only, *, ?, "
            "[..], ** leading/inner/trailing, escapes, comments, negation, trailing blanks) x up to ~12 path spellings "
            "(absolute, relative to a random cwd, with '..' and '.', through directory links); an exhaustive block of all "
            "lists of <= 2 (quick) / <= 3 (thorough, subset) lines over 30 atoms with optional negation on a fixed 3-level tree; "
            "a malformed stream (random pattern text, stray backslashes/brackets, overlapping / missing / file code-base "
            "directories, link loops). Non-trivial = patterns present, at least one asked source file is a member and at "
            "least one source file below a code-base directory is not.")
    assumptions = [
        "pathspec 0.12.1 GitIgnoreSpec, pathlib.Path.resolve/rglob/is_relative_to and os.path.realpath are modelled, not verified",
        "pattern lines are inside the supported grammar (Lib/C09_glob.v: printable ASCII, no leading blank, no bracket "
        "expression beyond plain characters/ascending alphanumeric ranges, no two adjacent stars other than the segment '**', no "
        "tab or other control character); other lines are counted as unsupported",
        "code-base directories are existing directories, none inside another; the tree has no symbolic-link cycle "
        "(cases outside are compared I vs M only)",
        "the file system does not change between construction and queries",
    ]

    def __init__(self, tier, seed):
        super().__init__(tier, seed)
        self._tree_key = None
        self._base = None
        self.n_unsupported = 0
        self.n_ctor = 0
        self.hist = {"lines": {}, "links": {}, "kinds": {}, "depth": {}}
        self.q_total = 0
        self.q_member = 0
        self.q_excluded_by_pattern = 0
        self.q_link_spelled = 0
        self.q_link_member = 0
        self.guard_true = 0
        self.guard_true_differs = 0
        self.guard_false_differs = 0
        self.q_respelled = 0
        self.q_respelled_member = 0
        self.class_hits = {1: 0, 2: 0, 3: 0}
        self.cli_runs = 0
        self.cli_runs_cov = 0
        self.oracle_cases = 0
        self.oracle_files = 0
        self.oracle_bad = []
        self.oracle_ignored = 0

    # ---- generation ----
    def generate(self):
        quick = self.tier == "quick"
        out = []
        # exhaustive block: all lists of <= 2 atoms, second/third possibly negated, fixed tree
        qs = fixed_queries()
        lists = [[]] + [[a] for a in ATOMS]
        for a in ATOMS:
            for b in ATOMS:
                lists.append([a, "!" + b])
                if not quick or (ATOMS.index(a) + ATOMS.index(b)) % 3 == 0:
                    lists.append([a, b])
        if not quick:
            core = ["x.c", "*.c", "a/", "a/b/", "build/", "a/x.c", "a/**", "*", "*/", "**/x.c", "a/b"]
            for a, b, c in itertools.product(core, repeat=3):
                for signs in (("", "!", ""), ("", "", "!"), ("", "!", "!"), ("!", "", "!")):
                    lists.append([signs[0] + a, signs[1] + b, signs[2] + c])
        for ls in lists:
            out.append([FIXED_TREE, [], ["/r"], ls, qs])
        for a in ATOMS:                 # overlapping code-base directories (outside the quantifier: I vs M only)
            out.append([FIXED_TREE, [], ["/r", "/r/a"], [a], qs])
            out.append([FIXED_TREE, [], ["/r/a", "/r"], [a], qs])
        self.stats["exhaustive"] = {"cases": len(lists), "bound": "all lists of <= 2 lines over 30 atoms (second line plain or negated) "
                                    + ("and a third over 11 atoms with 4 sign patterns " if not quick else "(plain pairs: one third) ")
                                    + "on the fixed tree, 15 queries each"}
        # extension sweep: one file per extension of either table (re-read from the source) and per near miss,
        # as plain name, hidden name, dots-only stem and below a directory named like a source file
        exts = table_extensions() + NEAR_MISSES
        ext_tree = [[["r"], "D"], [["r", "d.c"], "D"]]
        for e in exts:
            for stem in ("f", ".h", ".", "a.b"):
                if stem + e not in (".", ".."):
                    ext_tree.append([["r", stem + e], "F"])
            ext_tree.append([["r", "d.c", "g" + e], "F"])
        seen_names = set()
        ext_tree = [e for e in ext_tree if not (tuple(e[0]) in seen_names or seen_names.add(tuple(e[0])))]
        ext_q = ["/" + "/".join(e[0]) for e in ext_tree]
        out.append([ext_tree, [], ["/r"], [], ext_q])
        out.append([ext_tree, ["r"], ["."], ["*.h", "!/f.h", "d.c/"], [q[3:] for q in ext_q if q.startswith("/r/")]])
        self.stats["extension_sweep"] = {"extensions": len(exts), "files": len(ext_tree) - 2}
        n_valid = 700 if quick else 12000
        n_bad = 200 if quick else 3000
        for _ in range(n_valid):
            out.append(gen_case(self.rng))
        for _ in range(n_bad):
            out.append(gen_case(self.rng, malformed=True))
        # the enumeration observed through the command line: cbi-tree run in r/ with the first k lines
        # given as -x options and the others in the analysis file's [codebase] exclude list
        n_cli = 6 if quick else 70
        for i in range(n_cli):
            c = gen_case(self.rng, malformed=(i % 7 == 6), fixed_fortran=False)
            c[1], c[2] = ["r"], ["."]
            k = self.rng.randint(0, len(c[3]))
            if i % 3 == 2 and not any(l.startswith("-") for l in c[3]):
                k = -1                                   # cbi-cov compute instead of cbi-tree
            c.append(k)
            out.append(c)
        self.stats["streams"] = {"exhaustive": len(lists), "valid_random": n_valid, "malformed_random": n_bad,
                                 "command_line": 6 if quick else 70}
        return out

    def encode(self, case):
        entries, cwd, dirs, lines, queries = case[:5]
        return enc([[[p, k] for (p, k) in entries], cwd, dirs, lines, queries])

    # ---- implementation ----
    def materialise(self, entries):
        key = repr(entries)
        if key == self._tree_key and self._base is not None and self._base.exists():
            return self._base
        base = common.scratch() / "c09" / "w"
        if base.parent.exists():
            shutil.rmtree(base.parent)
        base.mkdir(parents=True)
        for p, k in entries:
            q = base.joinpath(*p)
            if k == "D":
                q.mkdir(parents=True, exist_ok=True)
            elif k == "F":
                q.parent.mkdir(parents=True, exist_ok=True)
                q.write_bytes(b"")
            else:
                q.parent.mkdir(parents=True, exist_ok=True)
                t = k[1]
                os.symlink(str(base) + t if t.startswith("/") else t, q)
        self._tree_key = key
        self._base = base
        return base

    def impl(self, case):
        import codebasin
        from pathspec.patterns.gitwildmatch import GitWildMatchPatternError
        entries, cwd, dirs, lines, queries = case[:5]
        base = self.materialise(entries)
        sb = str(base)

        def ab(s):
            return sb + s if s.startswith("/") else s

        def kind_of(e):
            if isinstance(e, GitWildMatchPatternError):
                return "PatternError"
            if isinstance(e, RuntimeError) and "Symlink loop" in str(e):
                return "SymlinkLoop"
            return "EXC:" + type(e).__name__
        old = os.getcwd()
        os.chdir(base.joinpath(*cwd))
        try:
            try:
                cb = codebasin.CodeBase(*[ab(d) for d in dirs], exclude_patterns=list(lines))
            except Exception as e:  # noqa
                return ["ctor", kind_of(e)]
            cont = []
            for q in queries:
                try:
                    cont.append(1 if ab(q) in cb else 0)
                except Exception as e:  # noqa
                    cont.append(kind_of(e))
            try:
                if len(case) == 6:
                    got = self.cli_listing(case, base)
                else:
                    got = list(cb)
                it = sorted(p[len(sb):] if p.startswith(sb) else "?" + p for p in got)
                rl = sorted({os.path.realpath(p)[len(sb):] for p in got})
            except Exception as e:  # noqa
                it = "Err"
                rl = "Err"
            return ["ok", cont, it, rl]
        finally:
            os.chdir(old)

    def cli_listing(self, case, base):
        """run cbi-tree in base/r; returns the absolute paths of the files it lists (raises if it fails)"""
        lines, k = case[3], case[5]
        cfg = base.parent / "cfg"
        cfg.mkdir(exist_ok=True)
        (cfg / "cc.json").write_text("[]")
        env = dict(os.environ, PYTHONPATH=str(common.REPO), COLUMNS="500")
        root_abs = str(base / "r")
        if k == -1:
            # cbi-cov compute -S r -x line ... -o cov.json cc.json ; the "file" entries are the enumeration
            args = [sys.executable, "-W", "ignore", "-m", "codebasin.coverage", "compute", "-S", root_abs]
            for l in lines:
                args += ["-x", l]
            args += ["-o", str(cfg / "cov.json"), str(cfg / "cc.json")]
            (cfg / "cov.json").unlink(missing_ok=True)
            pr = subprocess.run(args, cwd=cfg, capture_output=True, text=True, env=env, timeout=120)
            if pr.returncode != 0:
                raise RuntimeError("cbi-cov failed: " + pr.stderr[-300:])
            self.cli_runs_cov += 1
            return [os.path.normpath(root_abs + "/" + e["file"]) for e in json.loads((cfg / "cov.json").read_text())]
        by_option = [l for l in lines[:k] if not l.startswith("-")]
        by_file = [l for l in lines[:k] if l.startswith("-")] + list(lines[k:])
        # (a line starting with '-' cannot be given to -x; it is moved to the file, which keeps the order
        #  only if no option follows it: such cases keep everything in the file)
        if any(l.startswith("-") for l in lines[:k]):
            by_option, by_file = [], list(lines)
        toml = "[codebase]\nexclude = [" + ", ".join(json.dumps(l) for l in by_file) + "]\n" \
               + "[platform.p]\ncommands = " + json.dumps(str(cfg / "cc.json")) + "\n"
        (cfg / "an.toml").write_text(toml)
        args = [sys.executable, "-W", "ignore", "-m", "codebasin.tree"]
        for l in by_option:
            args += ["-x", l] if not l.startswith("-") else []
        args.append(str(cfg / "an.toml"))
        pr = subprocess.run(args, cwd=base / "r", capture_output=True, text=True, env=env, timeout=120)
        (base / "r" / "cbi.log").unlink(missing_ok=True)
        if pr.returncode != 0:
            raise RuntimeError("cbi-tree failed: " + pr.stderr[-300:])
        self.cli_runs += 1
        return [root_abs + "/" + f for f in parse_tree_listing(pr.stdout, root_abs)]

    # ---- views ----
    @staticmethod
    def _paths(x):
        if isinstance(x, str):
            return "Err"
        return sorted("/" + "/".join(p) for p in x)

    def model_view(self, case, ans):
        if ans[0] == "unsupported":
            return None
        if ans[0] == "ctor":
            return ["ctor", ans[1]]
        return ["ok", ans[1], self._paths(ans[2])]

    def impl_view_for_model(self, case, ia):
        return ia[:3]

    def impl_view_for_spec(self, case, ia):
        if ia[0] != "ok":
            return ia
        return ["ok", ia[1], ia[3]]

    def in_domain(self, case, sa):
        return sa is not None and self._dom.get(self.key(case), False)

    # in_domain needs the driver's flags; run_check calls spec() first with the raw answer, so remember them there
    _dom: dict = {}
    _flags: dict = {}

    def _remember(self, case, ans):
        k = self.key(case)
        if ans is None or isinstance(ans, str):
            return
        if ans[0] == "unsupported":
            self.n_unsupported += 1
            self._dom[k] = False
            return
        if ans[0] == "ctor":
            self.n_ctor += 1
            self._dom[k] = False
            return
        loops = any(isinstance(x, str) for x in ans[3]) or isinstance(ans[4], str) \
            or any(isinstance(x, str) and x == "SymlinkLoop" for x in ans[1]) or (isinstance(ans[2], str) and ans[2] == "SymlinkLoop")
        # a pattern error in S cannot happen inside the grammar; a loop puts the case outside the quantifier
        self._dom[k] = bool(ans[5]) and not any(x == "SymlinkLoop" for x in ans[3] if isinstance(x, str)) \
            and not (isinstance(ans[4], str))
        if isinstance(ans[2], str) and ans[2] == "SymlinkLoop":
            self._dom[k] = False
        self._flags[k] = (ans[6], {"/" + "/".join(p): c for (p, c) in ans[7]}, bool(ans[8]))

    def nontrivial(self, case, ia):
        entries, cwd, dirs, lines, queries = case[:5]
        if ia[0] != "ok" or not lines or isinstance(ia[3], str):
            return False
        src_under = ["/" + "/".join(p) for (p, k) in entries if k == "F" and p[0] in ("r", "r2") and is_src_name(p[-1])]
        return any(x == 1 for x in ia[1]) and any(p not in ia[3] for p in src_under)

    def classify(self, case, ia, sa):
        k = self.key(case)
        if k not in self._flags or ia[0] != "ok" or sa is None:
            return None
        qcls, ecls, esc = self._flags[k]
        if esc:
            # pathspec rejects the list: every answer that reached the pattern stage is PatternError
            ok = all(i == s or i == "PatternError" for i, s in zip(ia[1], sa[1])) and \
                (ia[3] == sa[2] or ia[3] == "Err")
            return "escaped-slash-rejected" if ok else None
        classes = set()
        for i, s, c in zip(ia[1], sa[1], qcls):
            if i != s:
                if not ((i == 1 and s == 0 and c in (1, 2)) or (c == 3 and i in (0, 1) and s in (0, 1))):
                    return None
                classes.add(c)
        if ia[3] != sa[2]:
            if isinstance(ia[3], str) or isinstance(sa[2], str):
                return None
            for p in set(sa[2]) - set(ia[3]):
                if ecls.get(p) != 3:
                    return None                  # a member that is not enumerated: only the "/**/" class
                classes.add(3)
            for p in set(ia[3]) - set(sa[2]):
                if ecls.get(p) not in (1, 2, 3):
                    return None
                classes.add(ecls[p])
        if not classes:
            return None
        for c in classes:
            self.class_hits[c] += 1
        return "dstar-dir-tail" if 3 in classes else "parent-dir-reinclude" if 1 in classes else "parent-dir-renegated"

    def shrink(self, case, still_fails):
        if len(case) == 6:
            return case
        entries, cwd, dirs, lines, queries = case
        lines = common.shrink_list(lines, lambda l: still_fails([entries, cwd, dirs, l, queries]))
        queries = common.shrink_list(queries, lambda q: still_fails([entries, cwd, dirs, lines, q]))

        def wf(es):
            have = {tuple(e[0]) for e in es if e[1] == "D"} | {()}
            return [e for e in es if tuple(e[0][:-1]) in have]

        def try_entries(es):
            es = wf(es)
            if tuple(cwd) not in ({tuple(e[0]) for e in es if e[1] == "D"} | {()}):
                return False
            return still_fails([es, cwd, dirs, lines, queries])
        entries = wf(common.shrink_list(entries, try_entries))
        if len(dirs) > 1:
            dirs = common.shrink_list(dirs, lambda d: still_fails([entries, cwd, d, lines, queries]))
        return [entries, cwd, dirs, lines, queries]

    # run_check calls spec(c, mr) for every case before in_domain/classify: hook the bookkeeping there
    def spec(self, case, ans):
        self._remember(case, ans)
        if ans is None or isinstance(ans, str) or ans[0] != "ok":
            return None
        entries, cwd, dirs, lines, queries = case[:5]
        k = str(len(lines))
        self.hist["lines"][k] = self.hist["lines"].get(k, 0) + 1
        nl = str(sum(1 for e in entries if isinstance(e[1], list)))
        self.hist["links"][nl] = self.hist["links"].get(nl, 0) + 1
        dp = str(max(len(e[0]) for e in entries))
        self.hist["depth"][dp] = self.hist["depth"].get(dp, 0) + 1
        for l in lines:
            kd = ("comment/blank" if (not l.strip() or l.startswith("#")) else "negated" if l.startswith("!") else "plain")
            self.hist["kinds"][kd] = self.hist["kinds"].get(kd, 0) + 1
            for tag, cond in (("dironly", l.rstrip().endswith("/")), ("dstar", "**" in l), ("anchored", l.lstrip("!").startswith("/")),
                              ("class", "[" in l), ("escape", "\\" in l), ("qmark", "?" in l)):
                if cond:
                    self.hist["kinds"][tag] = self.hist["kinds"].get(tag, 0) + 1
        self.q_total += len(queries)
        self.q_member += sum(1 for x in ans[3] if x == 1)
        for m, x, c in zip(ans[1], ans[3], ans[6]):
            if c in (1, 2, 3):
                self.guard_true += 1
                self.guard_true_differs += m != x
            elif m != x and ans[8] == 0 and ans[5]:
                self.guard_false_differs += 1        # must stay 0: C09_parent_rule_partial
        plain_paths = {"/" + "/".join(e[0]) for e in entries if not isinstance(e[1], list)}
        link_paths = ["/" + "/".join(e[0]) for e in entries if isinstance(e[1], list)]
        for q, x in zip(queries, ans[3]):
            if q not in plain_paths:
                self.q_respelled += 1
                self.q_respelled_member += x == 1
            if any(q == l or q.startswith(l + "/") for l in link_paths):
                self.q_link_spelled += 1
                self.q_link_member += x == 1
        return ["ok", ans[3], self._paths(ans[4])]

    # ---- S versus git check-ignore ----
    def self_tests(self):
        if shutil.which("git") is None:
            return ["git not available: S not validated against git check-ignore"]
        n = 150 if self.tier == "quick" else 4000
        cases = []
        for a in ATOMS:                                   # every atom alone and after/before a negation
            cases.append([FIXED_TREE, [], ["/r"], [a], []])
            cases.append([FIXED_TREE, [], ["/r"], ["*.c", "!" + a], []])
            cases.append([FIXED_TREE, [], ["/r"], [a, "!x.c", "!*/"], []])
        while len(cases) < n + 3 * len(ATOMS):
            c = gen_case(self.rng)
            c[2] = ["/r"]
            c[1] = []
            cases.append(c)
        for c in cases:
            c[4] = ["/" + "/".join(p) for (p, k) in c[0] if k == "F" and p[0] == "r" and is_src_name(p[-1])]
        answers = common.run_model("C09", [self.encode(c) for c in cases])
        env = dict(os.environ, GIT_CONFIG_GLOBAL="/dev/null", GIT_CONFIG_NOSYSTEM="1", HOME=str(common.scratch()))
        problems = []
        for c, a in zip(cases, answers):
            if isinstance(a, str) or a[0] != "ok" or not c[4]:
                continue
            if any("\\/" in l for l in c[3]):
                pass                                         # git accepts it; S reads it as a separator
            base = self.materialise(c[0])
            root = base / "r"
            if not (root / ".git").exists():
                subprocess.run(["git", "init", "-q", str(root)], env=env, capture_output=True)
            (root / ".git" / "info").mkdir(exist_ok=True)
            (root / ".git" / "info" / "exclude").write_text("".join(l + "\n" for l in c[3]))
            rels = [q[len("/r/"):] for q in c[4]]
            pr = subprocess.run(["git", "-C", str(root), "check-ignore", "--no-index", "--stdin", "-z"],
                                input="\0".join(rels) + "\0", capture_output=True, text=True, env=env)
            if pr.returncode not in (0, 1):
                self.oracle_bad.append({"lines": c[3], "git_error": pr.stderr[:200]})
                continue
            ign = {x for x in pr.stdout.split("\0") if x}
            self.oracle_cases += 1
            for q, rel, s in zip(c[4], rels, a[3]):
                self.oracle_files += 1
                self.oracle_ignored += rel in ign
                if (s == 0) != (rel in ign):
                    self.oracle_bad.append({"lines": c[3], "file": rel, "git_ignores": rel in ign, "S_member": s})
        self._probe_unsupported(env)
        self._tree_key = None
        if self.oracle_bad:
            problems.append(f"S disagrees with git check-ignore on {len(self.oracle_bad)} files of {self.oracle_cases} "
                            f"trees: {self.oracle_bad[:3]}")
        return problems

    def _probe_unsupported(self, env):
        """Evidence only: what the implementation does, compared with git, on pattern lists OUTSIDE the
        supported grammar (not claimed, not a violation): how often it raises, drops a file git keeps,
        keeps a file git ignores."""
        n = 150 if self.tier == "quick" else 2500
        cases = []
        for _ in range(n):
            c = gen_case(self.rng, malformed=True)
            c[1], c[2] = [], ["/r"]
            c[4] = ["/" + "/".join(p) for (p, k) in c[0] if k == "F" and p[0] == "r" and is_src_name(p[-1])]
            if c[4] and not any("\n" in l or "\0" in l for l in c[3]):
                cases.append(c)
        answers = common.run_model("C09", [self.encode(c) for c in cases])
        probe = {"lists": 0, "raises": 0, "drops_a_file_git_keeps": 0, "keeps_a_file_git_ignores": 0, "agrees": 0, "examples": {}}
        for c, a in zip(cases, answers):
            if isinstance(a, str) or a[0] != "unsupported":
                continue
            ia = self.impl(c)
            base = self.materialise(c[0])
            root = base / "r"
            if not (root / ".git").exists():
                subprocess.run(["git", "init", "-q", str(root)], env=env, capture_output=True)
            (root / ".git" / "info").mkdir(exist_ok=True)
            (root / ".git" / "info" / "exclude").write_text("".join(l + "\n" for l in c[3]))
            rels = [q[len("/r/"):] for q in c[4]]
            pr = subprocess.run(["git", "-C", str(root), "check-ignore", "--no-index", "--stdin", "-z"],
                                input="\0".join(rels) + "\0", capture_output=True, text=True, env=env)
            if pr.returncode not in (0, 1) or ia[0] != "ok":
                continue
            ign = {x for x in pr.stdout.split("\0") if x}
            probe["lists"] += 1
            kinds = set()
            for rel, x in zip(rels, ia[1]):
                if isinstance(x, str):
                    kinds.add("raises")
                elif x == 0 and rel not in ign:
                    kinds.add("drops_a_file_git_keeps")
                elif x == 1 and rel in ign:
                    kinds.add("keeps_a_file_git_ignores")
            if not kinds:
                probe["agrees"] += 1
            for k in kinds:
                probe[k] += 1
                probe["examples"].setdefault(k, [])
                if len(probe["examples"][k]) < 4:
                    probe["examples"][k].append(c[3])
        self.probe = probe

    def extra_coverage(self):
        return {"command_line_runs_cbi_tree": self.cli_runs, "command_line_runs_cbi_cov": self.cli_runs_cov, "unsupported_pattern_cases": self.n_unsupported, "constructor_error_cases": self.n_ctor,
                "input_distribution": self.hist, "queries_total": self.q_total, "queries_member": self.q_member,
                "queries_not_the_real_path": self.q_respelled, "queries_not_the_real_path_members": self.q_respelled_member,
                "class_predicate_true_queries": self.guard_true, "class_predicate_true_and_M_differs_from_S": self.guard_true_differs,
                "class_predicate_false_and_M_differs_from_S": self.guard_false_differs,
                "queries_through_a_link": self.q_link_spelled, "queries_through_a_link_members": self.q_link_member,
                "known_class_hits": {"parent-dir-reinclude": self.class_hits[1], "parent-dir-renegated": self.class_hits[2],
                                     "dstar-dir-tail": self.class_hits[3]},
                "spec_oracle": "git check-ignore --no-index --stdin -z, patterns in .git/info/exclude",
                "spec_oracle_cases": self.oracle_cases, "spec_oracle_files": self.oracle_files,
                "spec_oracle_files_ignored": self.oracle_ignored,
                "spec_oracle_disagreements": len(self.oracle_bad),
                "unsupported_region_probe_impl_vs_git_NOT_CLAIMED": getattr(self, "probe", None)}


CHECK = C09
