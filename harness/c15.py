"""C15 — each physical file is parsed and counted once, however it is reached.

I  = finder.find + ParserState.get_setmap + list(CodeBase) + report.files on a code base
     decorated with file links, directory links, chains, './', 'x/../', 'dirlink/..' spellings
M  = extracted model (Model/C15fs.v, C15.v, C15i.v) on the same decorated tree
S  = the canonical code base (links removed, every alias replaced by the canonical path)
     under the reference preprocessor of Spec/C04.v, every member file counted once
"""
from __future__ import annotations

import io
import logging
import os
import re
import shutil
from pathlib import Path

from . import common
from .common import Check, enc
from .c01 import balanced, normalise, gen_cond
from .c04 import render_file, gen_body, gen_plain, pstr, FLAGS, VALS, PMACS

CB = ["cb"]
CDIRS = [["cb", "src"], ["cb", "inc1"], ["ext", "inc2"], ["cb", "src", "sub"]]
HDRS = ["h.h", "g.h", "k.h"]
NPLAT = 2
BOGUS = "zz"          # a name that never exists: 'zz/..' is lexically and physically neutral


# ---------------------------------------------------------------- a python file-system model (oracle for aliases)
def t_dir():
    return ["D", {}]


def t_put(tree, comps, node):
    cur = tree
    for c in comps[:-1]:
        cur = cur[1].setdefault(c, t_dir())
        assert cur[0] == "D"
    assert comps[-1] not in cur[1], comps
    cur[1][comps[-1]] = node


def t_mkdir(tree, comps):
    cur = tree
    for c in comps:
        cur = cur[1].setdefault(c, t_dir())
        assert cur[0] == "D"
    return cur


def t_at(tree, comps):
    cur = tree
    for c in comps:
        if cur[0] != "D" or c not in cur[1]:
            return None
        cur = cur[1][c]
    return cur


def py_realpath(tree, comps, depth=0, acc=None):
    """posixpath.realpath on the tree; None = symlink loop, or '..' above the root of the tree."""
    acc = list(acc or [])
    for c in comps:
        if c in ("", "."):
            continue
        if c == "..":
            if not acc:
                return None          # above the root of the modelled tree: not expressible, never generated
            acc = acc[:-1]
            continue
        n = t_at(tree, acc + [c])
        if n is not None and n[0] == "L":
            if depth > 40:
                return None
            acc = py_realpath(tree, n[2], depth + 1, [] if n[1] else acc)
            if acc is None:
                return None
        else:
            acc = acc + [c]
    return acc


def t_walk(tree, here):
    """Everything below `here`, not descending through links."""
    n = t_at(tree, here)
    out = []
    if n is None or n[0] != "D":
        return out
    for name, k in n[1].items():
        out.append(here + [name])
        if k[0] == "D":
            out += t_walk(tree, here + [name])
    return out


def relpath(frm, to):
    i = 0
    while i < len(frm) and i < len(to) and frm[i] == to[i]:
        i += 1
    return [".."] * (len(frm) - i) + to[i:]


# ---------------------------------------------------------------- generation
def ext_ok(name):
    return name.rsplit(".", 1)[-1] in ("c", "h") and "." in name


def gen_canonical(rng):
    """The canonical world: files (path, lines), entries, code-base root."""
    names = [[h] for h in rng.sample(HDRS, rng.randint(1, 3))]
    if rng.random() < 0.35:
        names.append(["sub", rng.choice(HDRS)])
    files = {}
    order = list(names)
    for idx, n in enumerate(order):
        later = order[idx + 1:] if rng.random() < 0.9 else order
        for d in rng.sample(CDIRS, rng.randint(1, 3)):
            p = d + n
            if pstr(p) in files:
                continue
            body = gen_body(rng, later, 0, 10)
            body.append(["Def", f"IN_{'_'.join(p).replace('.', '_')}", "E"])
            style = rng.random()
            if style < 0.3:
                g = f"G_{'_'.join(p).replace('.', '_')}"
                body = [["If", ["NDefd", g]], ["Def", g, "E"]] + body + [["Endif"]]
            elif style < 0.7:
                body = [["Once"]] + body
            files[pstr(p)] = [p, normalise(body)]
    mains = [["cb", "src", "a.c"]]
    if rng.random() < 0.6:
        mains.append(rng.choice([["cb", "src", "b.c"], ["cb", "src", "sub", "c.c"], ["ext", "x.c"]]))
    for main in mains:
        body = gen_body(rng, names, 0, 14)
        body = [["Inc", [rng.choice(["Q", "A"]), rng.choice(names)]]] + body
        if rng.random() < 0.5:
            body.append(["Inc", [rng.choice(["Q", "A"]), rng.choice(names)]])
        for m in FLAGS:
            body += [["If", ["Defd", m]], ["Code"], ["Endif"]]
        files[pstr(main)] = [main, normalise(body)]
    if rng.random() < 0.4:
        files["cb/src/notes.txt"] = [["cb", "src", "notes.txt"], [["Code"]]]      # not a source file
    entries = []
    for _ in range(rng.randint(1, 3)):
        main = rng.choice(mains)
        dirs = rng.sample(CDIRS, rng.randint(0, 3))
        defs = []
        for m in FLAGS:
            if rng.random() < 0.3:
                defs.append([m, rng.choice(["E", 1])])
        for m in VALS:
            if rng.random() < 0.5:
                defs.append([m, rng.choice([0, 1, 2])])
        if rng.random() < 0.2:
            defs.append([rng.choice(PMACS), ["P", rng.random() < 0.5, rng.choice(names)]])
        incs = [rng.choice(names) for _ in range(rng.choice([0, 0, 0, 1, 1, 2]))]
        if incs and rng.random() < 0.3:
            incs.append(incs[0])            # the same header forced twice (#pragma once must hold for -include too)
        entries.append([rng.randrange(NPLAT), [main, dirs, defs, incs]])
    entries.sort(key=lambda e: e[0])       # finder.find walks the configuration platform by platform
    return sorted(files.values(), key=lambda f: f[0]), entries


def build_tree(cfiles):
    tree = t_dir()
    for d in CDIRS + [["ext"], CB]:
        t_mkdir(tree, d)
    for p, _ in cfiles:
        t_mkdir(tree, p[:-1])
        t_put(tree, p, ["F", pstr(p)])
    return tree


def real_dirs(tree, here=None):
    here = here or []
    out = [here]
    n = t_at(tree, here)
    for name, k in n[1].items():
        if k[0] == "D":
            out += real_dirs(tree, here + [name])
    return out


COLLIDE_BODY = [["Code"], ["If", ["Defd", "F0"]], ["Code"], ["Else"], ["Code"], ["Endif"], ["Code"]]


def plan_collisions(rng, cfiles, centries):
    """'dirlink/../name' with a DIFFERENT file 'name' beside the link: for some entries the source file main = D/name
    is going to be spelled P/dl/../name where P/dl -> D/child (so that it denotes D/name physically, P/name
    textually), and a new, different source file P/name is added to the (canonical and decorated) world, inside the
    code base and half of the time compiled by one more entry.  Returns the new files, entries and the plan."""
    cfiles = [list(f) for f in cfiles]
    existing = {pstr(p) for p, _ in cfiles}
    dirs_with_kids = {}
    for d in CDIRS + [["ext"], CB]:
        if len(d) > 1:
            dirs_with_kids.setdefault(pstr(d[:-1]), []).append(d)
    for p, _ in cfiles:
        for i in range(2, len(p)):
            dirs_with_kids.setdefault(pstr(p[:i - 1]), [])
            if p[:i] not in dirs_with_kids[pstr(p[:i - 1])]:
                dirs_with_kids[pstr(p[:i - 1])].append(p[:i])
    tagged = [[pl, e, None] for pl, e in centries]
    extra = []
    for j, t in enumerate(tagged):
        main = t[1][0]
        if rng.random() >= 0.3:
            continue
        kids = dirs_with_kids.get(pstr(main[:-1]), [])
        places = [d for d in [CB, ["cb", "inc1"], ["cb", "src"], ["cb", "src", "sub"]]
                  if d != main[:-1] and pstr(d + main[-1:]) not in existing]
        if not kids or not places:
            continue
        target = rng.choice(kids)
        place = rng.choice(places)
        newf = place + main[-1:]
        existing.add(pstr(newf))
        cfiles.append([newf, normalise([list(l) for l in COLLIDE_BODY])])
        t[2] = (place, f"dl{j}", target, rng.random() < 0.4)
        if rng.random() < 0.5:
            extra.append([rng.randrange(NPLAT), [newf, [], [], []], None])
    tagged += extra
    tagged.sort(key=lambda t: t[0])
    return sorted(cfiles, key=lambda f: f[0]), [[pl, e] for pl, e, _ in tagged], [pln for _, _, pln in tagged]


def decorate(rng, cfiles, centries, level):
    """Add links and respell every path.  Returns the case."""
    plan = [None] * len(centries)
    if level >= 1:
        cfiles, centries, plan = plan_collisions(rng, cfiles, centries)
    tree = build_tree(cfiles)
    name_alias = {}          # component -> alias component (a link beside EVERY node with that name)
    nlinks = 0
    if level >= 1:
        # consistent aliases of header names and of the sub-directory name
        comps = sorted({p[-1] for p, _ in cfiles if p[-1].endswith(".h")} | {"sub"})
        for c in comps:
            if rng.random() < 0.5:
                continue
            alias = "l" + c if c != "sub" else "lsub"
            name_alias[c] = alias
            for d in real_dirs(tree):
                n = t_at(tree, d + [c])
                if n is None or n[0] == "L":
                    continue
                if (c == "sub") != (n[0] == "D"):
                    continue
                mode = rng.random()
                if mode < 0.5:
                    t_put(tree, d + [alias], ["L", 0, [c]])
                elif mode < 0.75:
                    t_put(tree, d + [alias], ["L", 1, d + [c]])
                else:                                   # a chain of two links
                    t_put(tree, d + [alias + "2"], ["L", 0, ["." , c]])
                    t_put(tree, d + [alias], ["L", 0, [alias + "2"]])
                    nlinks += 1
                nlinks += 1
        # free-form links: anywhere, to anything (file, directory, link, outside the code base)
        for i in range(rng.randint(0, 5)):
            where = rng.choice(real_dirs(tree))
            everything = [[]] + t_walk(tree, [])
            tgt = rng.choice(everything)
            tn = t_at(tree, tgt)
            is_file = tn[0] == "F" or (tn[0] == "L" and (lambda r: r is not None and (t_at(tree, r) or [""])[0] == "F")(py_realpath(tree, tgt)))
            if is_file:
                r = rng.random()
                nm = f"f{i}" + (".c" if r < 0.45 else ".h" if r < 0.8 else ".txt")
            else:
                nm = f"d{i}"
            if t_at(tree, where + [nm]) is not None:
                continue
            # never create a loop: a directory link must not point to an ancestor-or-self of its location
            # (rglob does not follow it, realpath resolves it fine, but keep the tree finite for S)
            if rng.random() < 0.6:
                target = relpath(where, tgt) or ["."]
                t_put(tree, where + [nm], ["L", 0, target])
            else:
                t_put(tree, where + [nm], ["L", 1, tgt])
            nlinks += 1

    links = [p for p in [[]] + t_walk_all(tree) if (t_at(tree, p) or [""])[0] == "L"]

    def respell(canon, kind):
        """A spelling whose realpath is `canon` (a list of components)."""
        if level == 0:
            return list(canon)
        sp = list(canon)
        for _ in range(rng.choice([0, 1, 1, 2, 3])):
            r = rng.random()
            cand = None
            if r < 0.35 and links:
                lp = rng.choice(links)
                t = py_realpath(tree, lp)
                if t is not None and canon[:len(t)] == t and (len(t) < len(canon) or kind != "keeplast"):
                    cand = lp + canon[len(t):]
                elif t is not None and len(t) >= 1 and canon[:len(t) - 1] == t[:-1] and (t_at(tree, t) or [""])[0] == "D":
                    cand = lp + [".."] + canon[len(t) - 1:]          # through a directory link and back up
            elif r < 0.55:
                i = rng.randrange(len(sp) + 1)
                cand = sp[:i] + ["."] + sp[i:]
            elif r < 0.8:
                i = rng.randrange(len(sp) + (0 if kind == "file" else 1))
                pre = py_realpath(tree, sp[:i])
                kids = []
                if pre is not None:
                    n = t_at(tree, pre)
                    if n is not None and n[0] == "D":
                        kids = [k for k, v in n[1].items() if v[0] != "F"]
                x = rng.choice(kids + [BOGUS]) if rng.random() < 0.8 else BOGUS
                cand = sp[:i] + [x, ".."] + sp[i:]
            else:
                i = rng.randrange(len(sp) + 1)
                cand = sp[:i] + [""] + sp[i:] if i not in (0,) else None      # 'a//b'
            if cand is not None and py_realpath(tree, cand) == list(canon):
                sp = cand
        return sp

    def alias_name(n):
        """Respell an include name so that it denotes the same file from EVERY directory."""
        if level == 0:
            return list(n)
        out = []
        for c in n:
            out.append(name_alias[c] if c in name_alias and rng.random() < 0.6 else c)
        r = rng.random()
        if r < 0.15:
            out = ["."] + out
        elif r < 0.3:
            out = [BOGUS, ".."] + out
        elif r < 0.4 and len(out) > 1:
            out = out[:-1] + ["."] + out[-1:]
        return out

    def alias_lines(ls):
        out = []
        for l in ls:
            if l[0] == "Inc" and l[1][0] in ("Q", "A"):
                out.append(["Inc", [l[1][0], alias_name(l[1][1])]])
            elif l[0] == "Def" and isinstance(l[2], list):
                out.append(["Def", l[1], ["P", l[2][1], alias_name(l[2][2])]])
            else:
                out.append(l)
        return out

    afiles = []
    cf = []
    for p, ls in cfiles:
        _, nl = render_file(ls, style=len(ls))
        ws = [len(x) for x in nl]
        cf.append([p, ls, ws])
        afiles.append([pstr(p), alias_lines(ls), ws])
    entries = []
    for j, (pl, (main, dirs, defs, incs)) in enumerate(centries):
        adefs = [[m, (["P", v[1], alias_name(v[2])] if isinstance(v, list) else v)] for m, v in defs]
        msp = respell(main, "file")
        if plan[j] is not None:
            place, dl, target, ab = plan[j]
            if t_at(tree, place + [dl]) is None:
                t_put(tree, place + [dl], ["L", 1, list(target)] if ab else ["L", 0, relpath(place, target)])
                nlinks += 1
                links.append(place + [dl])
            cand = place + [dl, "..", main[-1]]
            if py_realpath(tree, cand) == list(main):
                msp = cand
        elif level >= 1 and incs and rng.random() < 0.5:
            # a translation unit with forced includes named through a file link that lives in another directory
            where = rng.choice([d for d in real_dirs(tree) if d != main[:-1]])
            nm = f"m{j}.c"
            if t_at(tree, where + [nm]) is None:
                t_put(tree, where + [nm], ["L", 0, relpath(where, main)] if rng.random() < 0.6 else ["L", 1, list(main)])
                nlinks += 1
                links.append(where + [nm])
                msp = where + [nm]
        entries.append([pl, [msp, [respell(d, "dir") for d in dirs], adefs, [alias_name(n) for n in incs]]])
    r = rng.random()
    if level == 0 or r < 0.84:
        roots, croots = [respell(CB, "dir")], [CB]
    elif r < 0.93:
        roots, croots = [respell(CB, "dir"), respell(["ext"], "dir")], [CB, ["ext"]]
    else:                              # overlapping directories: the same one twice, or a directory and a sub-directory
        roots, croots = [respell(CB, "dir"), respell(rng.choice([CB, ["cb", "src"]]), "dir")], [CB]
        if rng.random() < 0.5:
            roots.reverse()
    srcs = sorted({p[-1] for p in [[]] + t_walk_all(tree) if p and ext_ok(p[-1])})
    return {"tree": tree, "afiles": afiles, "cfiles": cf, "roots": roots, "croots": croots, "srcs": srcs,
            "nplat": NPLAT, "entries": entries, "centries": centries, "nlinks": nlinks}


def t_walk_all(tree):
    return t_walk(tree, [])


def wellformed(case):
    """The decorated world denotes the canonical one: every spelling resolves to its canonical path and every
    respelled include name denotes the same file as the canonical name from every real directory."""
    tree = case["tree"]
    try:
        if len(case["entries"]) != len(case["centries"]):
            return False
        rr = [py_realpath(tree, a) for a in case["roots"]]
        cr = [list(c) for c in case["croots"]]
        if any(r is None or not any(r[:len(c)] == c for c in cr) for r in rr) or any(c not in rr for c in cr):
            return False
        if any(i != j and a[:len(b)] == b for i, a in enumerate(cr) for j, b in enumerate(cr)):
            return False
        pairs = []
        for (pla, ea), (plc, ec) in zip(case["entries"], case["centries"]):
            if pla != plc or len(ea[1]) != len(ec[1]) or len(ea[2]) != len(ec[2]) or len(ea[3]) != len(ec[3]):
                return False
            if py_realpath(tree, ea[0]) != list(ec[0]):
                return False
            for da, dc in zip(ea[1], ec[1]):
                if py_realpath(tree, da) != list(dc):
                    return False
            pairs += list(zip(ea[3], ec[3]))
            for (ma, va), (mc, vc) in zip(ea[2], ec[2]):
                if ma != mc or isinstance(va, list) != isinstance(vc, list):
                    return False
                if isinstance(va, list):
                    pairs.append((va[2], vc[2]))
                elif va != vc:
                    return False
        if len(case["afiles"]) != len(case["cfiles"]):
            return False
        for (ka, la, wa), (pc, lc, wc) in zip(case["afiles"], case["cfiles"]):
            if ka != pstr(pc) or wa != wc or len(la) != len(lc):
                return False
            n = t_at(tree, pc)
            if n is None or n[0] != "F" or n[1] != ka:
                return False
            for x, y in zip(la, lc):
                if x[0] == "Inc" and y[0] == "Inc" and x[1][0] == y[1][0] and x[1][0] in ("Q", "A"):
                    pairs.append((x[1][1], y[1][1]))
                elif (x[0] == "Def" and y[0] == "Def" and isinstance(x[2], list) and isinstance(y[2], list)
                      and x[1] == y[1] and x[2][1] == y[2][1]):
                    pairs.append((x[2][2], y[2][2]))
                elif x != y:
                    return False
        nfiles = sum(1 for p in t_walk(tree, []) if t_at(tree, p)[0] == "F")
        if nfiles != len(case["cfiles"]):
            return False
        dirs = real_dirs(tree)

        def res(p):
            r = py_realpath(tree, p)
            n = t_at(tree, r) if r is not None else None
            return r if n is not None and n[0] == "F" else None
        for a, c in {(tuple(a), tuple(c)) for a, c in pairs if list(a) != list(c)}:
            if ".." in c or "." in c or "" in c:
                return False
            for d in dirs:
                if res(d + list(a)) != res(d + list(c)):
                    return False
    except Exception:
        return False
    return True


def features(case):
    """Tags describing which kinds of aliasing a case exercises (for the evidence file)."""
    tree = case["tree"]
    tags = set()

    def islink(p):
        n = t_at(tree, p)
        return n is not None and n[0] == "L"

    def spelled(sp, what):
        # walk the spelling physically, remembering what kind of component was just crossed
        acc = []
        for i, c in enumerate(sp):
            if c in ("", "."):
                tags.add("dot_or_empty_segment")
                continue
            if c == "..":
                tags.add("dotdot_segment")
                acc = acc[:-1]
                continue
            if islink(acc + [c]):
                last = i == len(sp) - 1
                tags.add(f"{what}_via_{'final' if last else 'inner'}_link")
                if not last and sp[i + 1] == "..":
                    tags.add("dotdot_after_link")
                    lex = acc + sp[i + 2:]
                    phys = py_realpath(tree, sp)
                    n2 = t_at(tree, lex)
                    if what == "entry_file" and n2 is not None and n2[0] == "F" and phys is not None and phys != lex:
                        tags.add("dotdot_after_link_collides_with_other_file")
                acc = py_realpath(tree, acc + [c]) or acc + [c]
            else:
                acc = acc + [c]
    for (pl, e), (_, c) in zip(case["entries"], case["centries"]):
        spelled(e[0], "entry_file")
        for d in e[1]:
            spelled(d, "I_dir")
        if e[3]:
            tags.add("forced_include")
            if islink(py_realpath(tree, e[0][:-1]) + e[0][-1:] if py_realpath(tree, e[0][:-1]) is not None else e[0]):
                tags.add("forced_include_and_entry_is_file_link")
        if e[3] != c[3]:
            tags.add("forced_include_name_alias")
    for r in case["roots"]:
        spelled(r, "root")
    if len(case["roots"]) > 1:
        tags.add("two_roots")
        if len(case["croots"]) < len(case["roots"]):
            tags.add("overlapping_roots")
    for (k, la, _), (_, lc, _) in zip(case["afiles"], case["cfiles"]):
        if la != lc:
            tags.add("include_name_alias_in_file")
        if any(l[0] == "Once" for l in lc):
            tags.add("pragma_once_header")
    croots = [list(c) for c in case["croots"]]
    for p in t_walk(tree, []):
        n = t_at(tree, p)
        if n[0] != "L":
            continue
        t = py_realpath(tree, p)
        tn = t_at(tree, t) if t is not None else None
        inside = any(p[:len(c)] == c for c in croots)
        tin = t is not None and any(t[:len(c)] == c for c in croots)
        if tn is None:
            tags.add("dangling_link")
        elif tn[0] == "F":
            tags.add("file_link_" + ("in" if inside else "out") + "_to_" + ("in" if tin else "out"))
            if ext_ok(p[-1]) != ext_ok(t[-1]):
                tags.add("link_and_target_differ_in_sourceness")
        else:
            tags.add("dir_link_" + ("in" if inside else "out") + "_to_" + ("in" if tin else "out"))
        n2 = t_at(tree, ([] if n[1] else p[:-1]) + [c for c in n[2]]) if ".." not in n[2] and "." not in n[2] else None
        if n2 is not None and n2[0] == "L":
            tags.add("link_chain")
        tags.add("absolute_link" if n[1] else "relative_link")
    return tags


def enc_tree(n):
    if n[0] == "F":
        return ["F", n[1]]
    if n[0] == "L":
        return ["L", int(bool(n[1])), list(n[2])]
    return ["D", [[k, enc_tree(v)] for k, v in n[1].items()]]


# hand-written cases: the witnesses of the defects found
def _mk(cfiles, centries, extra_links, entries=None, roots=None, afiles=None):
    tree = build_tree([[p, ls] for p, ls in cfiles])
    for lp, ab, tgt in extra_links:
        t_put(tree, lp, ["L", ab, tgt])
    cf, af = [], []
    for p, ls in cfiles:
        _, nl = render_file(ls, style=len(ls))
        ws = [len(x) for x in nl]
        cf.append([p, ls, ws])
        af.append([pstr(p), (afiles or {}).get(pstr(p), ls), ws])
    srcs = sorted({p[-1] for p in [[]] + t_walk_all(tree) if p and ext_ok(p[-1])})
    return {"tree": tree, "afiles": af, "cfiles": cf, "roots": roots or [CB], "croots": [CB], "srcs": srcs,
            "nplat": NPLAT, "entries": entries or centries, "centries": centries, "nlinks": len(extra_links)}


_H = [["Once"], ["If", ["Defd", "X"]], ["Code"], ["Else"], ["Def", "X", "E"], ["Code"], ["Endif"]]
CORPUS_EXTRA = [
    # '#pragma once' header reached through a symlinked -I directory, included twice
    _mk([[["cb", "inc1", "h.h"], _H], [["cb", "src", "a.c"], [["Inc", ["A", ["h.h"]]], ["Inc", ["A", ["h.h"]]], ["Code"]]]],
        [[0, [["cb", "src", "a.c"], [["cb", "inc1"]], [], []]]],
        [(["cb", "li"], 0, ["inc1"])],
        entries=[[0, [["cb", "src", "a.c"], [["cb", "li"]], [], []]]]),
    # '..' in an include name, searched from a symlinked -I directory: the physical parent counts
    _mk([[["cb", "src", "sub", "k.h"], [["Code"]]], [["cb", "src", "h.h"], [["Def", "PHYS", "E"], ["Code"]]],
         [["cb", "h.h"], [["Def", "LEX", "E"], ["Code"]]],
         [["cb", "src", "a.c"], [["Inc", ["A", ["sub", "h2.h"]]], ["Code"]]], [["cb", "src", "sub", "h2.h"], [["Inc", ["Q", ["k.h"]]]]]],
        [[0, [["cb", "src", "a.c"], [["cb", "src"]], [], []]]],
        [(["cb", "dl"], 0, ["src", "sub"])],
        entries=[[0, [["cb", "src", "a.c"], [["cb", "dl", ".."]], [], []]]]),
    # -include searched from the directory of the REAL source file when the entry names a link to it
    _mk([[["cb", "src", "sub", "c.c"], [["If", ["Defd", "P"]], ["Code"], ["Endif"]]], [["cb", "src", "sub", "h.h"], [["Def", "P", "E"], ["Code"]]],
         [["cb", "src", "h.h"], [["Code"]]]],
        [[1, [["cb", "src", "sub", "c.c"], [], [], [["h.h"]]]]],
        [(["cb", "src", "lc.c"], 0, ["sub", "c.c"])],
        entries=[[1, [["cb", "src", "lc.c"], [], [], [["h.h"]]]]]),
    # a RELATIVE link target located in a sub-directory (inc1/lu.h -> ../src/h.h), analysis run from elsewhere:
    # the target must be resolved from the link's directory (Path.resolve), not read literally (readlink)
    _mk([[["cb", "src", "h.h"], [["Code"], ["Def", "H", "E"]]], [["cb", "src", "a.c"], [["Inc", ["Q", ["h.h"]]], ["Code"]]]],
        [[0, [["cb", "src", "a.c"], [], [], []]]],
        [(["cb", "inc1", "lu.h"], 0, ["..", "src", "h.h"]), (["cb", "inc1", "lsrc"], 0, ["..", "src"])],
        entries=[[0, [["cb", "inc1", "lsrc", "a.c"], [], [], []]]]),
    # the same '#pragma once' header forced twice, the second time through a link alias, and included once more by the file
    _mk([[["cb", "inc1", "h.h"], _H], [["cb", "src", "a.c"], [["Inc", ["A", ["h.h"]]], ["Code"]]]],
        [[0, [["cb", "src", "a.c"], [["cb", "inc1"]], [], [["h.h"], ["h.h"]]]]],
        [(["cb", "inc1", "lh.h"], 0, ["h.h"]), (["cb", "li"], 0, ["inc1"])],
        entries=[[0, [["cb", "src", "a.c"], [["cb", "li"]], [], [["h.h"], ["lh.h"]]]]]),
    # 'dirlink/../a.c' where a DIFFERENT a.c sits beside the link: the textual collapse names the wrong file
    _mk([[["cb", "src", "a.c"], [["Code"], ["If", ["Defd", "F0"]], ["Code"], ["Endif"]]],
         [["cb", "inc1", "a.c"], [["Code"], ["Def", "OTHER", "E"], ["Code"], ["Undef", "OTHER"], ["Code"]]]],
        [[0, [["cb", "src", "a.c"], [], [["F0", "E"]], []]], [1, [["cb", "inc1", "a.c"], [], [], []]]],
        [(["cb", "inc1", "dl"], 0, ["..", "src", "sub"])],
        entries=[[0, [["cb", "inc1", "dl", "..", "a.c"], [], [["F0", "E"]], []]], [1, [["cb", "inc1", "a.c"], [], [], []]]]),
    # one file compiled through a link and through its real path, a link to a file outside, a link with a non-source name
    _mk([[["cb", "src", "a.c"], [["Code"], ["If", ["Defd", "F0"]], ["Code"], ["Endif"]]], [["ext", "x.c"], [["Code"]]]],
        [[0, [["cb", "src", "a.c"], [], [], []]], [1, [["cb", "src", "a.c"], [], [["F0", "E"]], []]], [1, [["ext", "x.c"], [], [], []]]],
        [(["cb", "la.c"], 0, ["src", "a.c"]), (["cb", "src", "lx.c"], 1, ["ext", "x.c"]), (["cb", "src", "n.txt"], 0, ["a.c"]),
         (["cb", "dsrc"], 0, ["src"])],
        entries=[[0, [["cb", "la.c"], [], [], []]], [1, [["cb", "dsrc", ".", "a.c"], [], [["F0", "E"]], []]], [1, [["cb", "src", "lx.c"], [], [], []]]]),
]


class C15(Check):
    prop_id = "C15"
    rule = ("a canonical world (1-2 translation units, 1-4 header names each placed in 1-3 of cb/src, cb/inc1, cb/src/sub, ext/inc2 (outside the "
            "code base); guarded / #pragma once / bare headers; 1-3 entries on 2 platforms with -I, -D, -include) is decorated: consistent link "
            "aliases of header names and of 'sub' beside every such node (relative, absolute, chained), 0-5 free links anywhere to any file, "
            "directory or link (also out of / into the code base, source-named links to non-sources and vice versa); every entry file, -I "
            "directory and the code-base root is respelled through links, './', 'x/../', 'dirlink/..', '//' (each spelling validated by an "
            "independent python realpath), every include name through the consistent aliases, './' and 'zz/../'.  An exhaustive block applies "
            "every single decoration of a small fixed world.  Non-trivial = at least one link in the tree or one respelled path, at least two "
            "files attributed, and at least one link among the members or one entry/-I spelled through a link")
    assumptions = ["CPython os.path.realpath / Path.resolve / Path.rglob (no descent through directory links) behave as modelled (sampled by the correspondence)",
                   "no symbolic-link loops; no exclude patterns (C09); one code-base directory (as the command-line tools construct it)",
                   "include names are respelled only through aliases that exist beside every node of that name (so that the canonical name is well defined)"]

    # ------------------------------------------------------------ generation
    def generate(self):
        out = self._generate()
        hist = {}
        for c in out:
            for t in features(c):
                hist[t] = hist.get(t, 0) + 1
        self.stats["input_distribution"] = dict(sorted(hist.items()))
        self.stats["links_per_case_histogram"] = {str(k): sum(1 for c in out if min(c["nlinks"], 8) == k) for k in range(9)}
        return out

    def _generate(self):
        out = list(CORPUS_EXTRA)
        out += self.small_block()
        n = 150 if self.tier == "quick" else 8000
        for i in range(n):
            cfiles, centries = gen_canonical(self.rng)
            level = 0 if self.rng.random() < 0.05 else 1
            out.append(decorate(self.rng, cfiles, centries, level))
        # malformed stream: entries naming missing files, dangling links, unbalanced files
        m = 15 if self.tier == "quick" else 400
        for i in range(m):
            cfiles, centries = gen_canonical(self.rng)
            c = decorate(self.rng, cfiles, centries, 1)
            r = self.rng.random()
            if r < 0.4:
                t_put(c["tree"], ["cb", "src", f"dang{i}.c"], ["L", 0, ["nowhere.c"]])
                c["nlinks"] += 1
            elif r < 0.7:
                c["entries"][0][1][0] = ["cb", "src", "missing.c"]
                c["centries"] = [list(e) for e in c["centries"]]
                c["centries"][0] = [c["centries"][0][0], [["cb", "src", "missing.c"]] + c["centries"][0][1][1:]]
            else:
                c["afiles"][0][1] = c["afiles"][0][1] + [["Endif"]]
                c["cfiles"][0][1] = c["cfiles"][0][1] + [["Endif"]]
                c["afiles"][0][2] = c["afiles"][0][2] + [1]
                c["cfiles"][0][2] = c["cfiles"][0][2] + [1]
            out.append(c)
        return out

    def small_block(self):
        """Exhaustive: a fixed two-header world; every spelling of the entry file x every spelling of the -I directory."""
        cfiles = [[["cb", "inc1", "h.h"], _H],
                  [["cb", "inc1", "g.h"], [["Once"], ["Inc", ["Q", ["h.h"]]], ["Code"]]],
                  [["cb", "src", "a.c"], [["Inc", ["A", ["g.h"]]], ["Inc", ["A", ["h.h"]]], ["Inc", ["A", ["inc1", "g.h"]]], ["Code"]]]]
        links = [(["cb", "li"], 0, ["inc1"]), (["cb", "src", "lup"], 0, [".."]), (["cb", "la.c"], 0, ["src", "a.c"]),
                 (["lcb"], 1, ["cb"]), (["cb", "inc1", "lh.h"], 0, ["h.h"]), (["cb", "inc1", "lg.h"], 1, ["cb", "inc1", "g.h"])]
        files_sp = [["cb", "src", "a.c"], ["cb", "la.c"], ["lcb", "src", "a.c"], ["cb", "src", "lup", "src", ".", "a.c"],
                    ["cb", "li", "..", "src", "a.c"], ["cb", "src", "zz", "..", "a.c"], ["lcb", "la.c"]]
        inc_sp = [["cb", "inc1"], ["cb", "li"], ["lcb", "li"], ["cb", "src", "lup", "inc1"], ["cb", "src", "..", "inc1"],
                  ["cb", "li", ".", ""], ["cb", "src", "lup", "li"]]
        cb_sp = [["cb"], ["lcb"], ["cb", "src", "lup"], ["cb", "li", ".."]]
        names = {"h.h": [["h.h"], ["lh.h"], [".", "h.h"]], "g.h": [["g.h"], ["lg.h"], ["zz", "..", "g.h"]]}
        out = []
        k = 0
        for fs in files_sp:
            for isp in inc_sp:
                for csp in cb_sp:
                    k += 1
                    if self.tier == "quick" and k % 3:
                        continue
                    hn = names["h.h"][k % 3]
                    gn = names["g.h"][(k // 3) % 3]
                    af = {"cb/src/a.c": [["Inc", ["A", gn]], ["Inc", ["A", hn]], ["Inc", ["A", ["inc1"] + gn]], ["Code"]],
                          "cb/inc1/g.h": [["Once"], ["Inc", ["Q", hn]], ["Code"]]}
                    cent = [[0, [["cb", "src", "a.c"], [["cb", "inc1"], ["cb"]], [], []]], [1, [["cb", "src", "a.c"], [["cb"], ["cb", "inc1"]], [["X", "E"]], [["g.h"]]]]]
                    ent = [[0, [fs, [isp, csp], [], []]], [1, [fs, [csp, isp], [["X", "E"]], [gn]]]]
                    out.append(_mk(cfiles, cent, links, entries=ent, roots=[csp], afiles=af))
        return out

    def key(self, case):
        import hashlib
        import json
        return hashlib.sha1(json.dumps(self._payload(case), sort_keys=False, default=str).encode()).hexdigest()

    def _payload(self, c):
        return [enc_tree(c["tree"]), c["afiles"], c["cfiles"], c["roots"], c["croots"], c["srcs"], c["nplat"], c["entries"], c["centries"]]

    def encode(self, case):
        return enc(self._payload(case))

    # ------------------------------------------------------------ implementation
    def materialise(self, case, root):
        if root.exists():
            shutil.rmtree(root)
        root.mkdir(parents=True)
        content = {k: (ls, ws) for k, ls, ws in case["afiles"]}
        shapes = {}

        def go(n, here):
            if n[0] == "D":
                here.mkdir(exist_ok=True)
                for name, k in n[1].items():
                    go(k, here / name)
            elif n[0] == "F":
                ls, ws = content[n[1]]
                text, nl = render_file(ls, style=len(ls))
                here.write_text(text)
                shapes[n[1]] = nl
            else:
                tgt = "/".join(n[2]) if n[2] else "."
                os.symlink(str(root) + ("/" + tgt if n[2] else "") if n[1] else tgt, here)
        go(case["tree"], root)
        return shapes

    def impl(self, case):
        logging.disable(logging.CRITICAL)
        import codebasin
        from codebasin import finder, preprocessor, report
        root = common.scratch() / "c15"
        try:
            shapes = self.materialise(case, root)
        except Exception as e:  # noqa
            return ["Err", "Materialise" + type(e).__name__]
        sroot = str(root)

        def sp(comps):
            return sroot + "".join("/" + c for c in comps)

        def rel(p):
            r = os.path.relpath(p, sroot)
            return "" if r == "." else r

        cfg = {}
        for pl, (main, dirs, defs, incs) in case["entries"]:
            defines = []
            for m, v in defs:
                if v == "E":
                    defines.append(f"{m}=")
                elif isinstance(v, list):
                    defines.append(f"{m}=<{pstr(v[2])}>" if v[1] else f'{m}="{pstr(v[2])}"')
                else:
                    defines.append(f"{m}={v}")
            cfg.setdefault(f"P{pl}", []).append({"file": sp(main), "defines": defines,
                                                 "include_paths": [sp(d) for d in dirs],
                                                 "include_files": [pstr(n) for n in incs]})
        cfg = {k: cfg[k] for k in sorted(cfg)}
        try:
            cb = codebasin.CodeBase(*[sp(r) for r in case["roots"]])
            state = finder.find(sp(case["roots"][0]), cb, cfg)
            marks = []
            weights = {}
            for fn in state.get_filenames():
                key = rel(fn)
                tree = state.get_tree(fn)
                amap = state.get_map(fn)
                nodes = [n for n in tree.walk() if isinstance(n, preprocessor.CodeNode)]
                if key not in shapes or [n.lines for n in nodes] != shapes[key]:
                    return ["Err", "NodeShapeMismatch", key]
                for i, n in enumerate(nodes):
                    pls = sorted(int(x[1:]) for x in amap[n])
                    if pls:
                        marks.append([key, i, pls])
            setmap = sorted([sorted(int(x[1:]) for x in k), v] for k, v in state.get_setmap(cb).items())
            members, links = [], []
            for f in cb:
                if Path(f).is_symlink():
                    links.append([rel(f), rel(os.path.realpath(f))])
                else:
                    members.append(rel(f))
            rows = None
            if len(case["roots"]) == 1:
                buf = io.StringIO()
                report.files(cb, state, stream=buf)
                rows = self.parse_tree(buf.getvalue())
        except RecursionError:
            return ["Err", "RecursionError"]
        except Exception as e:  # noqa
            return ["Err", type(e).__name__]
        return ["Ok", sorted(marks), setmap, sorted(members), sorted(links), rows]

    @staticmethod
    def parse_tree(text):
        """Rows of the cbi-tree report: the root's SLOC total and, per link row, (name, target, platform letters, SLOC)."""
        lines = text.split("\n")
        i = lines.index("[Platforms | SLOC | Coverage (%) | Avg. Coverage (%)]")
        rows = [l for l in lines[i + 2:] if l.startswith("[")]
        out_links = []
        total = None
        for k, l in enumerate(rows):
            m = re.match(r"\[([A-Z-]*) \| *(\S+) \| *\S+ \| *\S+\] (.*)$", l)
            if not m:
                return ["Unparsed", l]
            if k == 0:
                total = m.group(2)
            name = m.group(3)
            if " -> " in name:
                nm, tgt = name.split(" -> ", 1)
                nm = re.sub(r"^[|\\ -]*", "", nm)
                out_links.append([nm.strip(), os.path.basename(tgt), m.group(1), m.group(2)])
        return [total, sorted(out_links)]

    # ------------------------------------------------------------ views
    def _rows(self, case, marks, setmap, links, weights_of):
        """What the tree report must show, computed from an answer: root total; each link row shows its target's own numbers."""
        if len(case["roots"]) != 1:
            return None
        allp = sorted({pl for k, _ in setmap for pl in k})
        letters = {pl: "ABCDEFGH"[i] for i, pl in enumerate(allp)}
        total = sum(v for _, v in setmap)
        per_file = {}
        for f, i, pls in marks:
            per_file.setdefault(f, set()).update(pls)
        rows = []
        for lp, tgt in links:
            used = per_file.get(tgt, set())
            s = "".join(letters[pl] if pl in used else "-" for pl in allp)
            rows.append([os.path.basename(lp), os.path.basename(tgt), s, str(sum(weights_of(tgt)))])
        return [str(total), sorted(rows)]

    def _marks_view(self, ms):
        d = {}
        for pl, f, i in ms:
            d.setdefault((pstr(f), i), set()).add(pl)
        return sorted([f, i, sorted(p)] for (f, i), p in d.items())

    def model_view(self, case, ans):
        a = ans[0]
        if a[0] != "Ok":
            kind = a[1].split(":")[0]
            return ["Err", "RecursionError" if kind == "OutOfFuel" else kind]
        marks = self._marks_view(a[1])
        setmap = sorted([list(k), v] for k, v in a[2])
        members = sorted(pstr(p) for p, l, r in a[3] if not l)
        links = sorted([pstr(p), pstr(r)] for p, l, r in a[3] if l)
        w = {k: ws for k, ls, ws in case["afiles"]}
        return ["Ok", marks, setmap, members, links, self._rows(case, marks, setmap, links, lambda t: w.get(t, []))]

    def spec(self, case, ans):
        if ans is None or isinstance(ans, str):
            return None
        a = ans[1]
        if a[0] != "Ok":
            kind = a[1].split(":")[0]
            return ["Err", "RecursionError" if kind == "OutOfFuel" else kind]
        marks = self._marks_view(a[1])
        setmap = sorted([list(k), v] for k, v in a[2])
        members = sorted(pstr(p) for p in a[3])
        # the links the code base must list: link nodes below the root (not through links) whose target is a member
        tree = case["tree"]
        links = []
        mem = set(members)
        for r in case["croots"]:
            for p in t_walk(tree, r):
                if t_at(tree, p)[0] == "L":
                    t = py_realpath(tree, p)
                    if t is not None and pstr(t) in mem:
                        links.append([pstr(p), pstr(t)])
        links.sort()
        w = {pstr(p): ws for p, ls, ws in case["cfiles"]}
        return ["Ok", marks, setmap, members, links, self._rows(case, marks, setmap, links, lambda t: w.get(t, []))]

    def impl_view_for_model(self, case, ia):
        return ia[:2] if ia[0] == "Err" else ia

    impl_view_for_spec = impl_view_for_model

    def in_domain(self, case, sa):
        if sa is None or sa[0] != "Ok":
            return False
        if not all(balanced(ls) for _, ls, _ in case["cfiles"]):
            return False
        return wellformed(case)

    def classify(self, case, ia, sa):
        """overlapping-roots: a code base given two directories one of which contains (or is) the other;
        the only accepted symptom is the double enumeration (marks are as specified)."""
        tree = case["tree"]
        rr = [py_realpath(tree, a) for a in case["roots"]]
        overlap = any(i != j and a is not None and b is not None and a[:len(b)] == b
                      for i, a in enumerate(rr) for j, b in enumerate(rr))
        if overlap and ia[0] == "Ok" and sa[0] == "Ok" and ia[1] == sa[1] and set(ia[3]) == set(sa[3]):
            return "overlapping-roots"
        return None

    def nontrivial(self, case, ia):
        if ia[0] != "Ok":
            return False
        respelled = any(e[1][0] != c[1][0] or e[1][1] != c[1][1] for e, c in zip(case["entries"], case["centries"]))
        if not (case["nlinks"] or respelled):
            return False
        attributed = {f for f, _, _ in ia[1]}
        tree = case["tree"]

        def via_link(sp):
            return any((t_at(tree, sp[:i]) or [""])[0] == "L" for i in range(1, len(sp) + 1))
        through = any(via_link(e[1][0]) or any(via_link(d) for d in e[1][1]) for e in case["entries"])
        return len(attributed) >= 2 and (bool(ia[4]) or through)

    def shrink(self, case, still_fails):
        import copy
        c = copy.deepcopy(case)

        def attempt(mut):
            nonlocal c
            t = copy.deepcopy(c)
            try:
                mut(t)
            except Exception:
                return False
            if wellformed(t) and still_fails(t):
                c = t
                return True
            return False
        # drop entries
        i = 0
        while len(c["entries"]) > 1 and i < len(c["entries"]):
            def m(t, i=i):
                del t["entries"][i]
                del t["centries"][i]
            if not attempt(m):
                i += 1
        # drop links
        def all_links(t):
            return [p for p in t_walk(t["tree"], []) if t_at(t["tree"], p)[0] == "L"]
        for lp in all_links(c):
            def m(t, lp=lp):
                del t_at(t["tree"], lp[:-1])[1][lp[-1]]
            attempt(m)
        # canonicalise spellings one by one
        for i in range(len(c["entries"])):
            def m(t, i=i):
                t["entries"][i][1][0] = t["centries"][i][1][0]
            attempt(m)
            for j in range(len(c["entries"][i][1][1])):
                def m(t, i=i, j=j):
                    t["entries"][i][1][1][j] = t["centries"][i][1][1][j]
                attempt(m)
            def m(t, i=i):
                t["entries"][i][1][3] = t["centries"][i][1][3]
            attempt(m)
        def m(t):
            t["roots"] = t["croots"]
        attempt(m)
        # canonicalise file contents, then shorten them (same edit on both worlds)
        for k in range(len(c["afiles"])):
            def m(t, k=k):
                t["afiles"][k][1] = t["cfiles"][k][1]
            attempt(m)
        for k in range(len(c["afiles"])):
            j = 0
            while j < len(c["afiles"][k][1]):
                def m(t, k=k, j=j):
                    for key in ("afiles", "cfiles"):
                        ls = t[key][k][1][:j] + t[key][k][1][j + 1:]
                        if not balanced(ls):
                            raise ValueError
                        ls2 = normalise(ls)
                        if len(ls2) != len(ls):
                            raise ValueError
                        _, nl = render_file(ls, style=len(ls))
                        t[key][k][1] = ls
                        t[key][k][2] = [len(x) for x in nl]
                if not attempt(m):
                    j += 1
        return c

    def extra_coverage(self):
        return dict(self.stats)


CHECK = C15
