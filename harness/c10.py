"""C10 — excluding files removes their lines from the counts and changes nothing else.

I  = finder.find + get_setmap with CodeBase(root, exclude_patterns) (in process), and the CLIs
     (codebasin -R summary, codebasin.tree, codebasin.coverage compute) with the patterns given by -x,
     by [codebase] exclude, or split between the two;
M  = extracted `analyse` of Model/C10.v (find_cb + setmap_M with member_of), also without exclusion and
     in the variant that skips non-members (used to measure how many cases can tell "not counted" from
     "not processed");
S  = the attribution of Spec/C08.v (independent of the code base) and, computed by the harness from it,
     the setmap restricted to the files that an independent Python reading of the patterns keeps."""
from __future__ import annotations

import itertools
import json
import random

from . import common
from .common import Check, enc
from .c01 import balanced, normalise, parse_items, unparse_items, shrink_candidates
from .c04 import pstr
from . import c08_util as U

ROOT = ["r"]
OUT = ["x"]
EXTRA_DIRS = [ROOT + d for d in U.DIRS] + [OUT + ["inc1"], OUT + ["ext"]]


def under_root(p):
    return p[:1] == ROOT and len(p) > 1


MICRO_FILES = [
    [["r", "src", "a.c"], [["Inc", ["Q", ["h.h"]]], ["If", ["Defd", "F0"]], ["Code"], ["Else"], ["Code"], ["Endif"], ["Inc", ["A", ["g.h"]]],
                          ["If", ["Defd", "F1"]], ["Code"], ["Endif"]]],
    [["r", "src", "b.c"], [["If", ["Defd", "F0"]], ["Code"], ["Endif"], ["Code"]]],
    [["r", "src", "h.h"], [["Once"], ["Undef", "F0"], ["Def", "F0", "E"], ["Code"]]],
    [["x", "inc1", "g.h"], [["If", ["NDefd", "G"]], ["Def", "G", "E"], ["Def", "F1", "E"], ["Code"], ["Endif"]]],
]
MICRO_CFGS = [
    [["P0", [[["r", "src", "a.c"], [["x", "inc1"]], [], []]]]],
    [["P0", [[["r", "src", "a.c"], [["x", "inc1"]], [], []], [["r", "src", "b.c"], [], [], []]]],
     ["P1", [[["r", "src", "b.c"], [], [["F0", 1]], [["h.h"]]]]]],
]


# the witness of C10_skip_nonmembers_refuted: a.c includes the excluded h.h (defines F0) and the out-of-tree
# g.h (defines F1) and tests both
_W_FILES = [[["r", "src", "a.c"], [["Inc", ["Q", ["h.h"]]], ["If", ["Defd", "F0"]], ["Code"], ["Endif"],
                                  ["Inc", ["A", ["g.h"]]], ["If", ["Defd", "F1"]], ["Code"], ["Endif"]]],
            [["r", "src", "h.h"], [["Def", "F0", "E"], ["Code"]]],
            [["x", "inc1", "g.h"], [["Def", "F1", "E"], ["Code"]]]]
_W_CFG = [["P0", [[["r", "src", "a.c"], [["x", "inc1"]], [], []]]]]
CORPUS_EXTRA = [
    ["lib", _W_FILES, _W_CFG, 1, [["Base", "h.h"]], []],
    ["cli", _W_FILES, _W_CFG, 2, [["Base", "h.h"]], []],
    ["cli", _W_FILES, _W_CFG, 3, [], [["Exact", ["src", "h.h"], False]]],
    # an excluded COMPILED file that defines nothing, next to a kept one
    ["lib", _W_FILES + [[["r", "src", "b.c"], [["Code"]]]], [["P0", _W_CFG[0][1] + [[["r", "src", "b.c"], [], [], []]]]], 4,
     [["Exact", ["src", "b.c"], True]], [["Ext", "h"]]],
]


def micro_cases():
    out = []
    inroot = [f[0] for f in MICRO_FILES if under_root(f[0])]
    for cfg in MICRO_CFGS:
        for k in range(len(inroot) + 1):
            for sub in itertools.combinations(inroot, k):
                pats = [["Exact", p[1:], True] for p in sub]
                for split in range(len(pats) + 1) if len(pats) <= 1 else (0, len(pats)):
                    out.append(["lib", MICRO_FILES, cfg, len(out), pats[:split], pats[split:]])
        for extra in ([["Dir", "src"]], [["Ext", "h"]], [["Base", "h.h"]], [["Ext", "c"]], [["Dir", "inc1"]]):
            out.append(["lib", MICRO_FILES, cfg, len(out), extra, []])
            out.append(["cli", MICRO_FILES, cfg, len(out), [], extra])
    return out


class C10(Check):
    prop_id = "C10"
    rule = ("code bases under r/ (2-4 compiled files, 1-4 header names in 1-3 directories) plus header copies and sometimes a compiled file "
            "outside the root (x/), headers defining the macros other files test; 1-3 platforms x 1-4 commands; exclude lists = exact paths of a "
            "random subset of the files, directory / extension / base-name patterns, in 45 % of the cases also dir/*.ext, **/name, a/**/name, dir/**, /dir/ and negated lines (!name, !/path, !*.ext), split at random between -x and [codebase] exclude; each case "
            "analysed with and without the exclusion (lib: finder.find + get_setmap; cli: summary with -x / toml / mixed, tree, tree --prune, coverage compute); "
            "exhaustive block: every subset of the in-root files of a micro code base x 2 configurations; malformed stream. "
            "non-trivial = some file is excluded or outside the root AND the model variant that skips non-members gives a different setmap "
            "(the case can tell 'not counted' from 'not processed')")
    assumptions = ["exclude lines: the four basic shapes (anchored path, dir/, *.ext, base name) and, in 45 % of the cases, globs inside a directory, **, anchored / directory-only forms and NEGATED lines; lists on which git's parent-directory rule and last-match-wins disagree (C09's known findings parent-dir-reinclude / parent-dir-renegated / dstar-dir-tail) are not generated; membership semantics itself is C09's subject",
                   "every generated file has a recognised source extension (.c/.h); symbolic links are C15's subject"]

    def __init__(self, tier, seed):
        super().__init__(tier, seed)
        self.sensitive = {}
        self.dist = {"lib": 0, "cli": 0, "excluded_files": {}, "outside_files_attributed": 0, "excluded_compiled": 0,
                     "skip_variant_differs": 0, "extended_lists": 0, "lists_with_negation": 0, "negations_dropped": 0, "reinclude_below_dstar": 0, "reincluded_files": 0, "impl_find_calls": 0, "cli_inproc_calls": 0, "exhaustive_block": 0, "malformed": 0}

    # ---- generation ----
    def gen_case(self, kind, wild=False):
        rng = self.rng
        files, mains, names = U.gen_files(rng, wild, prefix=ROOT, outside=OUT)
        cfg = U.gen_cfg(rng, mains, names, prefix=ROOT, outside=OUT, max_plat=3)
        pats = []
        for p, _ in files:
            if under_root(p) and rng.random() < 0.3:
                pats.append(["Exact", p[1:], rng.random() < 0.5])
        r = rng.random()
        if r < 0.25:
            pats.append(["Dir", rng.choice(["inc1", "inc2", "sub", "src"])])
        elif r < 0.35:
            pats.append(["Ext", rng.choice(["h", "c"])])
        elif r < 0.55:
            pats.append(["Base", rng.choice(U.HDRS + ["sub"])])
        rng.shuffle(pats)
        if rng.random() < 0.45:
            pats = self.extend_patterns(pats, files)
        k = rng.randint(0, len(pats))
        if wild and rng.random() < 0.4:
            f = rng.choice(files)
            idx = [i for i, l in enumerate(f[1]) if l[0] in ("Endif", "If")]
            if idx:
                del f[1][rng.choice(idx)]
                f[1][:] = normalise(f[1])     # adjacent code lines are one node
        return [kind, files, cfg, rng.randrange(1 << 30), pats[:k], pats[k:]]

    def extend_patterns(self, pats, files):
        """Add gitignore lines beyond the four shapes: globs inside a directory, `**`, anchored and
        directory-only forms, and NEGATED lines (re-inclusion).  Lists on which git's parent-directory
        rule and plain last-match-wins disagree (C09's known classes) are not generated: the negated
        lines are dropped from such a list."""
        rng = self.rng
        inroot = [p[1:] for p, _ in files if under_root(p)]
        dirs = sorted({tuple(r[:i]) for r in inroot for i in range(1, len(r))})
        out = list(pats)
        for _ in range(rng.randint(1, 3)):
            r = rng.random()
            f = rng.choice(inroot)
            if r < 0.15:
                out.append(["Glob", False, rng.random() < 0.5, False, f[:-1] + ["*." + f[-1].rsplit(".", 1)[1]]])
            elif r < 0.28:
                out.append(["Glob", False, False, False, ["**", f[-1]]])
            elif r < 0.38 and len(f) >= 2:
                out.append(["Glob", False, rng.random() < 0.5, False, [f[0], "**", f[-1]]])
            elif r < 0.48 and dirs:
                out.append(["Glob", False, rng.random() < 0.3, False, list(rng.choice(dirs)) + ["**"]])
            elif r < 0.58 and dirs:
                out.append(["Glob", False, True, True, list(rng.choice(dirs))])
            elif r < 0.66:
                out.append(["Glob", False, False, False, [f[-1][0] + "*"]])
            elif r < 0.80:
                out.append(["Glob", True, False, False, [f[-1]]])                 # !h.h
            elif r < 0.92:
                out.append(["Glob", True, True, False, f])                        # !/src/h.h
            else:
                out.append(["Glob", True, False, False, ["*." + rng.choice(["c", "h"])]])
        if rng.random() < 0.5:
            rng.shuffle(out)
        deep = [f for f in inroot if len(f) >= 2]
        if deep and rng.random() < 0.3:
            # everything below a directory excluded (dir/**, which does not match the directory itself),
            # then one file below it re-included, in this order: git and last-match-wins agree that the
            # file is a member, and an enumeration that stops at "excluded" directories loses it
            f = rng.choice(deep)
            out.append(["Glob", False, rng.random() < 0.5, False, f[:-1] + ["**"]])
            out.append(["Glob", True, True, False, f])
            self.dist["reinclude_below_dstar"] += 1
        if not U.readings_agree(out, inroot):
            self.dist["negations_dropped"] += 1
            out = [p for p in out if not U.pat_negated(p)]
        self.dist["extended_lists"] += 1
        self.dist["lists_with_negation"] += int(any(U.pat_negated(p) for p in out))
        return out

    def generate(self):
        micro = micro_cases()
        self.dist["exhaustive_block"] = len(micro)
        out = list(CORPUS_EXTRA) + list(micro)
        n_lib, n_cli, n_bad = (140, 45, 20) if self.tier == "quick" else (3000, 700, 300)
        out += [self.gen_case("lib") for _ in range(n_lib)]
        out += [self.gen_case("cli") for _ in range(n_cli)]
        out += [self.gen_case(self.rng.choice(["lib", "lib", "cli"]), wild=True) for _ in range(n_bad)]
        self.dist["malformed"] = n_bad
        return out

    def encode(self, case):
        kind, files, cfg, seed, xs, ts = case
        shapes = all(U.is_shape(p) for p in xs + ts)
        strip = lambda pt: pt[:2]
        return enc([[[p, ls] for p, ls in files], U.weights_of(files), cfg, ROOT,
                    [U.render_pat(p) for p in xs], [U.render_pat(p) for p in ts], shapes,
                    [strip(p) for p in xs] if shapes else [], [strip(p) for p in ts] if shapes else []])

    # ---- implementation ----
    def impl(self, case):
        kind, files, cfg, seed, xs, ts = case
        self.dist[kind] += 1
        mem = U.member_py(ROOT, xs + ts)
        nex = sum(1 for p, _ in files if under_root(p) and not mem(p))
        self.dist["excluded_files"][nex] = self.dist["excluded_files"].get(nex, 0) + 1
        if any(not mem(e[0]) for _, es in cfg for e in es):
            self.dist["excluded_compiled"] += 1
        if any(U.pat_negated(p) for p in xs + ts):
            pos = U.member_py(ROOT, [p for p in xs + ts if not U.pat_negated(p)])
            self.dist["reincluded_files"] += int(any(under_root(p) and mem(p) and not pos(p) for p, _ in files))
        if kind == "lib":
            return self.impl_lib(files, cfg, seed, xs, ts)
        return self.impl_cli(files, cfg, seed, xs, ts)

    def impl_lib(self, files, cfg, seed, xs, ts):
        base = common.scratch() / "c10"
        U.materialise(files, base, EXTRA_DIRS)
        shapes = U.node_lines_of(files)
        root = base / "r"
        pats = [U.render_pat(p) for p in xs + ts]

        def find(ex):
            self.dist["impl_find_calls"] += 1
            return U.run_find(base, root, cfg, files, shapes, exclude=ex)
        a = find(pats)
        if a[0] != "Ok":
            return a[:2]
        if any(t[1].startswith("x/") for t in a[1]):
            self.dist["outside_files_attributed"] += 1
        b = find([])
        meta = []
        if b[0] != "Ok":
            return ["Ok", a[1], a[2], b[:2], meta]
        if a[1] != b[1]:
            meta.append(["attribution-changed-by-exclusion"])
        mem = U.member_py(ROOT, xs + ts)
        if a[2] != U.setmap_from_triples(b[1], files, mem):
            meta.append(["setmap-is-not-the-unexcluded-setmap-minus-the-excluded-files"])
        # the same patterns in the opposite order and duplicated: membership is a property of the pattern set
        if not any(U.pat_negated(p) for p in xs + ts):
            c = find(list(reversed(pats)) + pats[:1])
            if c[0] != "Ok" or c[1:] != a[1:]:
                meta.append(["pattern-order-matters"])
        return ["Ok", a[1], a[2], b[2], meta]

    def impl_cli(self, files, cfg, seed, xs, ts):
        base = common.scratch() / "c10cli"
        U.materialise(files, base, EXTRA_DIRS)
        root = base / "r"
        rx = [U.render_pat(p) for p in xs]
        rt = [U.render_pat(p) for p in ts]
        U.write_cli_inputs(root, cfg, seed, toml_exclude=None, rel_root=base, toml_name="a.toml")
        U.write_cli_inputs(root, cfg, seed, toml_exclude=rx + rt, rel_root=base, toml_name="b.toml")
        U.write_cli_inputs(root, cfg, seed, toml_exclude=rt, rel_root=base, toml_name="c.toml")

        def xflags(l):
            out = []
            for p in l:
                out += ["-x", p]
            return out

        def summary(argv):
            self.dist["cli_inproc_calls"] += 1
            code, out = U.cli_inproc("main", ["-R", "summary"] + argv, root)
            return U.parse_summary(out) if code == 0 else ["exit", code]
        rows_a = summary(xflags(rx + rt) + ["a.toml"])       # everything on the command line
        rows_b = summary(["b.toml"])                          # everything in the analysis file
        rows_c = summary(xflags(rx) + ["c.toml"])             # split as generated
        rows_0 = summary(["a.toml"])                          # no exclusion
        self.dist["cli_inproc_calls"] += 2
        code, out = U.cli_inproc("tree", xflags(rx) + ["c.toml"], root)
        tree = [list(kv) for kv in sorted(U.parse_tree(out).items())] if code == 0 else ["exit", code]
        # the pruned tree: the same report restricted to files some platform uses
        self.dist["cli_inproc_calls"] += 1
        code, out = U.cli_inproc("tree", ["--prune"] + xflags(rx) + ["c.toml"], root)
        pruned = [list(kv) for kv in sorted(U.parse_tree(out).items())] if code == 0 else ["exit", code]
        p0 = cfg[0][0]
        cov_out = root / "cov.json"
        code, out = U.cli_inproc("cov", ["compute", "-S", str(root)] + xflags(rx + rt) + ["-o", str(cov_out), str(root / f"db_{p0}.json")], root)
        if code == 0 and cov_out.exists():
            cov = sorted([d["file"], sorted(d["used_lines"]), sorted(d["unused_lines"])] for d in json.loads(cov_out.read_text()))
        else:
            cov = ["exit", code]
        return ["Cli", rows_a, rows_b, rows_c, rows_0, tree, cov, pruned]

    # ---- views ----
    def predict(self, case, triples):
        kind, files, cfg, seed, xs, ts = case
        triples = [list(t) for t in sorted({tuple(t) for t in triples})]
        mem = U.member_py(ROOT, xs + ts)
        sm = U.setmap_from_triples(triples, files, mem)
        sm0 = U.setmap_from_triples(triples, files, under_root)
        if kind == "lib":
            return ["Ok", triples, sm, sm0, []]
        names = [p for p, _ in cfg]
        tree = [list(kv) for kv in sorted(U.tree_prediction(triples, files, mem, names, strip=1).items())]
        cov = U.coverage_prediction(triples, files, mem, cfg[0][0], strip=1)
        pruned = [kv for kv in tree if kv[1][0]]
        return ["Cli", sm, sm, sm, sm0, tree, cov, pruned]

    @staticmethod
    def triples_of(tr):
        return [[n, pstr(f), i] for n, f, i in tr]

    @staticmethod
    def err_of(ans):
        kind = ans[1].split(":")[0]
        return ["Err", "RecursionError" if kind == "OutOfFuel" else kind]

    def model_view(self, case, ans):
        mx, m0, s, skip, members, mshape = ans
        if mshape[0] != "none" and mshape != mx:
            return ["MODEL-MATCHERS-DIFFER", mshape]       # C09's gitignore matcher vs the four-shape matcher
        if mx[0] == "Err" and mx[1].startswith("Unsupported"):
            return None
        key = self.key(case)
        kind, files, cfg, seed, xs, ts = case
        # the model's membership against the independent Python reading of the patterns
        mem = U.member_py(ROOT, xs + ts)
        if sorted(pstr(p) for p in members) != sorted(pstr(p) for p, _ in files if mem(p)):
            return ["MODEL-MEMBERSHIP-DIFFERS", members]
        sens = False
        if mx[0] == "Ok":
            sens = (skip[0] != "Ok") or U.canon_rows(skip[2]) != U.canon_rows(mx[2])
        if key not in self.sensitive:
            self.dist["skip_variant_differs"] += int(sens)
        self.sensitive[key] = sens
        if mx[0] != "Ok":
            return self.err_of(mx) if kind == "lib" else None
        v = self.predict(case, self.triples_of(mx[1]))
        if kind == "lib":
            v[2] = U.canon_rows(mx[2])
            v[3] = U.canon_rows(m0[2]) if m0[0] == "Ok" else self.err_of(m0)
        else:
            v[1] = v[2] = v[3] = U.canon_rows(mx[2])
            if m0[0] != "Ok":
                return None
            v[4] = U.canon_rows(m0[2])
        return v

    def spec(self, case, ans):
        if ans is None or isinstance(ans, str):
            return None
        s = ans[2]
        if s[0] != "Ok":
            return ["Err", s[1].split(":")[0]]
        return self.predict(case, self.triples_of(s[1]))

    def impl_view_for_model(self, case, ia):
        return ia[:2] if ia[0] == "Err" else ia

    impl_view_for_spec = impl_view_for_model

    def in_domain(self, case, sa):
        if sa is None or sa[0] not in ("Ok", "Cli"):
            return False
        return all(balanced(ls) for _, ls in case[1])

    def nontrivial(self, case, ia):
        return ia[0] in ("Ok", "Cli") and self.sensitive.get(self.key(case), False)

    # ---- shrinking ----
    def shrink(self, case, still_fails):
        kind, files, cfg, seed, xs, ts = case

        def ok(fs, c, x=None, t=None):
            need = {pstr(e[0]) for _, es in c for e in es}
            return need <= {pstr(p) for p, _ in fs} and still_fails([kind, fs, c, seed, xs if x is None else x, ts if t is None else t])
        cfg = common.shrink_list(cfg, lambda c: len(c) >= 1 and ok(files, c), max_steps=30)
        for i in range(len(cfg)):
            p, es = cfg[i]
            es = common.shrink_list(es, lambda x: len(x) >= 1 and ok(files, cfg[:i] + [[p, x]] + cfg[i + 1:]), max_steps=30)
            cfg = cfg[:i] + [[p, es]] + cfg[i + 1:]
        xs = common.shrink_list(xs, lambda x: ok(files, cfg, x=x), max_steps=20)
        ts = common.shrink_list(ts, lambda t: ok(files, cfg, t=t), max_steps=20)
        files = common.shrink_list(files, lambda fs: ok(fs, cfg), max_steps=60)
        for idx in range(len(files)):
            p, ls = files[idx]
            items = parse_items(ls)
            if items is None:
                continue
            progress, steps = True, 0
            while progress and steps < 120:
                progress = False
                for cand in shrink_candidates(items):
                    steps += 1
                    if steps >= 120:
                        break
                    cl = normalise(unparse_items(cand))
                    trial = files[:idx] + [[p, cl]] + files[idx + 1:]
                    if ok(trial, cfg):
                        items, files, progress = cand, trial, True
                        break
        return [kind, files, cfg, seed, xs, ts]

    # ---- S's reading of the patterns versus git check-ignore ----
    def self_tests(self):
        import shutil
        import subprocess
        if shutil.which("git") is None:
            return []
        n = 40 if self.tier == "quick" else 400
        bad = []
        self.oracle_cases = 0
        base = common.scratch() / "c10git"
        for _ in range(n):
            case = self.gen_case("lib")
            kind, files, cfg, seed, xs, ts = case
            inroot = [p for p, _ in files if under_root(p)]
            if not inroot:
                continue
            if base.exists():
                shutil.rmtree(base)
            root = base / "r"
            U.materialise(files, base, EXTRA_DIRS)
            env = {"PATH": "/usr/bin:/bin:/usr/local/bin", "HOME": str(base), "GIT_CONFIG_NOSYSTEM": "1"}
            subprocess.run(["git", "init", "-q", str(root)], env=env, capture_output=True)
            (root / ".git" / "info").mkdir(parents=True, exist_ok=True)
            (root / ".git" / "info" / "exclude").write_text("\n".join(U.render_pat(p) for p in xs + ts) + "\n")
            rels = ["/".join(p[1:]) for p in inroot]
            pr = subprocess.run(["git", "-C", str(root), "check-ignore", "--no-index", "--stdin"], input="\n".join(rels) + "\n",
                                env=env, capture_output=True, text=True)
            if pr.returncode not in (0, 1):
                continue
            ignored = set(pr.stdout.split())
            mem = U.member_py(ROOT, xs + ts)
            self.oracle_cases += 1
            for p, rel in zip(inroot, rels):
                if mem(p) != (rel not in ignored):
                    bad.append({"patterns": [U.render_pat(q) for q in xs + ts], "file": rel, "git_ignores": rel in ignored})
        self.oracle_bad = len(bad)
        if bad:
            return [f"S's reading of the exclude patterns disagrees with git check-ignore on {len(bad)} files: {bad[0]}"]
        return []

    def extra_coverage(self):
        return {"input_distribution": self.dist, "spec_oracle_cases": getattr(self, "oracle_cases", 0),
                "spec_oracle_disagreements": getattr(self, "oracle_bad", 0)}


CHECK = C10
