"""C17 — free-form Fortran sources: FileParser.parse_file / finder.find on .f90/.F90 files
vs the model M (Model/C17.v, extracted) vs the reference scanner S (Spec/C17.v, extracted)
and, for conditional selection, gfortran -cpp -E.

case   = [text, defsets]        defsets = [] (parse only) or a list of define lists, one platform each
impl   = ["Ok", [[isdir, [line...]]...], [[selected code line...] per platform]] | ["Err", ExceptionName]
"""
from __future__ import annotations

import itertools
import logging
import os
import shutil
import subprocess
from pathlib import Path

from . import common
from .common import Check, enc
from . import c17_gen as G

_setup_done = False


def _setup():
    global _setup_done
    if not _setup_done:
        logging.disable(logging.CRITICAL)
        _setup_done = True


ALPHABET = "a !&'\"#$\n"
ALPHABET_DIR = "#a /*\\\"'\n"        # second exhaustive block: texts that begin with # (directive-line scanning)


def tok(n):
    return f"t{n}q"


class C17(Check):
    prop_id = "C17"
    rule = ("(1) exhaustive: every newline-terminated text of <= 6 (quick) / 7 (thorough) characters over "
            "{a, blank, !, &, ', \", #, $, newline}, and every such text beginning with # over {#, a, blank, /, *, backslash, \", ', newline}, "
            "as a .f90 file through FileParser.parse_file; (2) grammar-based "
            "free-form programs: statements with 0-3 continuation lines (with and without leading &, comment / blank / "
            "directive lines interleaved), character literals with doubled quotes and embedded ! & // #, split literals, "
            "trailing and full-line comments, !$omp / !dir$ sentinels, nested #if/#ifdef/#ifndef/#elif/#else/#endif, "
            "#define/#undef/#include-less; every statement line carries a unique token; observed through parse_file AND "
            "finder.find for 2-3 define sets, selection compared with gfortran -cpp -E; (3) malformed stream: the same "
            "programs with random character edits (backslash, /, *, tab, unbalanced quotes, lone &, missing final newline); "
            "(4) compilable programs (print/write statements with literals, split literals, directives) with define sets, "
            "a sample of which gfortran -cpp -fsyntax-only must accept whenever S calls them well formed. "
            "Non-trivial = at least one counted and one uncounted line AND (a continuation or a literal containing ! or & "
            "or a sentinel or a conditional whose branches differ in selection)")
    assumptions = [
        "ASCII texts without carriage returns (text-mode universal newlines and errors='replace' decoding are not modelled)",
        "directive recognition inside a # line (Lexer/DirectiveParser) and tree building/visiting are C01-C05's subject; "
        "M stops at (is-directive, node.lines) per node",
        "gfortran -cpp -E is the oracle for which statement lines a define set selects; directive-line attribution has no gfortran observable",
    ]

    def __init__(self, tier, seed):
        super().__init__(tier, seed)
        self.hist = {"exhaustive": 0, "grammar": 0, "grammar_with_defs": 0, "malformed": 0, "corpus": 0,
                     "tree_errors_skipped": 0, "out_of_domain": 0, "impl_errors": 0,
                     "lines_hist": {}, "features": {}}
        self.oracle_cases = 0
        self.oracle_dropped = 0
        self.oracle_bad = []
        self._treeerr = set()
        self._hdr_cache = {}
        self.compiler_runs = 0
        self.compiler_bad = []
        self._wfx_only = set()
        self._oracle_cache = {}
        self._n = 0

    # ------------------------------------------------------------------ generation
    def generate(self):
        out = []
        # (1) exhaustive block
        bound = 5 if self.tier == "quick" else 6
        for k in range(0, bound + 1):
            for t in itertools.product(ALPHABET, repeat=k):
                out.append(["".join(t) + "\n", []])
        out.append(["", []])
        # (1b) directive lines: # followed by every body of <= bound-1 characters over {# a blank / * \ " newline}
        for k in range(0, bound):
            for t in itertools.product(ALPHABET_DIR, repeat=k):
                out.append(["#" + "".join(t) + "\n", []])
        self.hist["exhaustive"] = len(out)
        # (2) grammar-based programs
        n = 500 if self.tier == "quick" else 12000
        for i in range(n):
            with_defs = (i % 2 == 0)
            prog = G.gen_program(self.rng, col1=with_defs)
            text = G.render(prog)
            defs = G.gen_defsets(self.rng) if with_defs else []
            out.append([text, defs])
            self.hist["grammar"] += 1
            self.hist["grammar_with_defs"] += 1 if with_defs else 0
            for f in G.features(text):
                self.hist["features"][f] = self.hist["features"].get(f, 0) + 1
            b = str(min(60, 10 * (text.count("\n") // 10)))
            self.hist["lines_hist"][b] = self.hist["lines_hist"].get(b, 0) + 1
        # (2b) compilable programs (print/write statements, split literals, directives), all with define sets
        nv = 150 if self.tier == "quick" else 3000
        for i in range(nv):
            text = G.render(G.gen_valid_program(self.rng))
            out.append([text, G.gen_defsets(self.rng)])
            self.hist["compilable"] = self.hist.get("compilable", 0) + 1
            for f in G.features(text):
                self.hist["features"][f] = self.hist["features"].get(f, 0) + 1
        # (2c) include chains: Fortran source -> headers with C-family extensions in a directory OUTSIDE the code-base
        # root, 2-3 levels deep; the language must be inherited along the whole chain (observed through finder.find)
        ni = 120 if self.tier == "quick" else 2000
        for i in range(ni):
            text, hdrs = G.gen_include_case(self.rng)
            out.append([text, G.gen_defsets(self.rng), hdrs])
            self.hist["include_chains"] = self.hist.get("include_chains", 0) + 1
        # (3) malformed stream
        m = 400 if self.tier == "quick" else 8000
        for i in range(m):
            prog = G.gen_program(self.rng, small=True)
            text = G.mutate(self.rng, G.render(prog))
            out.append([text, []])
            self.hist["malformed"] += 1
        return out

    def corpus(self):
        c = super().corpus()
        self.hist["corpus"] = len(c)
        return c

    def encode(self, case):
        # always hex: common.enc would emit "a\n" as a bare word (its regex's $ matches before a final newline)
        return "#" + case[0].encode("latin-1", errors="replace").hex()

    # ------------------------------------------------------------------ implementation
    def impl(self, case):
        _setup()
        from codebasin import preprocessor
        from codebasin.file_parser import FileParser
        if len(case) == 3:
            return self._impl_inc(case)
        text, defsets = case
        self._n += 1
        root = common.scratch() / "c17"
        root.mkdir(parents=True, exist_ok=True)
        f = root / ("main.f90" if self._n % 2 else "main.F90")
        other = root / ("main.F90" if self._n % 2 else "main.f90")
        if other.exists():
            other.unlink()      # finder.find parses every file of the code base
        with open(f, "w", newline="") as fh:
            fh.write(text)
        try:
            tree = FileParser(str(f)).parse_file()
        except AttributeError:
            # SourceTree.insert on an unbalanced #else/#endif: C01's subject, not observable here
            self._treeerr.add(self.key(case))
            self.hist["tree_errors_skipped"] += 1
            return ["TreeErr"]
        except (preprocessor.ParseError, preprocessor.TokenError):
            # Lexer/DirectiveParser rejecting the text of a # line (e.g. "##"): C03/C05's subject
            self._treeerr.add(self.key(case))
            self.hist["directive_parser_errors_skipped"] = self.hist.get("directive_parser_errors_skipped", 0) + 1
            return ["DirErr"]
        except Exception as e:  # noqa
            self.hist["impl_errors"] += 1
            return ["Err", type(e).__name__]
        nodes = []
        for n in tree.walk():
            if isinstance(n, preprocessor.CodeNode):
                nodes.append([0 if type(n) is preprocessor.CodeNode else 1, list(n.lines)])
        sel = []
        if defsets:
            import codebasin
            from codebasin import finder
            cfg = {f"P{i}": [{"file": str(f), "defines": list(d), "include_paths": [], "include_files": []}]
                   for i, d in enumerate(defsets)}
            try:
                cb = codebasin.CodeBase(root)
                state = finder.find(str(root), cb, cfg)
            except Exception as e:  # noqa
                self.hist["impl_errors"] += 1
                return ["Err", type(e).__name__]
            t2 = state.get_tree(str(f))
            amap = state.get_map(str(f))
            for i in range(len(defsets)):
                s = []
                for n in t2.walk():
                    if type(n) is preprocessor.CodeNode and f"P{i}" in amap[n]:
                        s += list(n.lines)
                sel.append(sorted(s))
        return ["Ok", nodes, sel]

    # ------------------------------------------------------------------ include chains
    @staticmethod
    def _nodes_of(tree):
        from codebasin import preprocessor
        return [[0 if type(n) is preprocessor.CodeNode else 1, list(n.lines)]
                for n in tree.walk() if isinstance(n, preprocessor.CodeNode)]

    def _impl_inc(self, case):
        """["Ok", nodes(main), sel(main), [[name, nodes or None, sel], ...]] through finder.find only."""
        _setup()
        import codebasin
        from codebasin import finder, preprocessor
        text, defsets, hdrs = case
        self._n += 1
        root = common.scratch() / "c17"
        inc = common.scratch() / "c17inc"          # NOT under the code-base root
        root.mkdir(parents=True, exist_ok=True)
        if inc.exists():
            shutil.rmtree(inc)
        inc.mkdir(parents=True)
        f = root / ("main.f90" if self._n % 2 else "main.F90")
        other = root / ("main.F90" if self._n % 2 else "main.f90")
        if other.exists():
            other.unlink()
        with open(f, "w", newline="") as fh:
            fh.write(text)
        for name, t in hdrs:
            with open(inc / name, "w", newline="") as fh:
                fh.write(t)
        cfg = {f"P{i}": [{"file": str(f), "defines": list(d), "include_paths": [str(inc)], "include_files": []}]
               for i, d in enumerate(defsets)}
        try:
            cb = codebasin.CodeBase(root)
            state = finder.find(str(root), cb, cfg)
        except (AttributeError, IndexError, preprocessor.ParseError, preprocessor.TokenError):
            # unbalanced conditionals / directive text the Lexer rejects: C01-C05's subject
            self._treeerr.add(self.key(case))
            self.hist["tree_errors_skipped"] += 1
            return ["TreeErr"]
        except Exception as e:  # noqa
            self.hist["impl_errors"] += 1
            return ["Err", type(e).__name__]

        def sel_of(path):
            tree = state.get_tree(path)
            amap = state.get_map(path)
            out = []
            for i in range(len(defsets)):
                s = []
                for n in tree.walk():
                    if type(n) is preprocessor.CodeNode and f"P{i}" in amap[n]:
                        s += list(n.lines)
                out.append(sorted(s))
            return out
        parsed = set(state.get_filenames())
        res = []
        for name, t in hdrs:
            hp = os.path.realpath(inc / name)
            if hp in parsed:
                res.append([name, self._nodes_of(state.get_tree(hp)), sel_of(hp)])
            else:
                res.append([name, None, [[] for _ in defsets]])
        return ["Ok", self._nodes_of(state.get_tree(str(f))), sel_of(str(f)), res]

    def _hdr_answer(self, text):
        """Driver answer (M, S) for a header text, cached."""
        if text not in self._hdr_cache:
            self._hdr_cache[text] = common.run_model("C17", ["#" + text.encode("latin-1", errors="replace").hex()])[0]
        return self._hdr_cache[text]

    def _m_nodes(self, ans):
        m = ans[0]
        return ["Err", "RuntimeError"] if m[0] == "Err" else [[d, list(ls)] for d, ls in m[1]]

    # ------------------------------------------------------------------ views
    def model_view(self, case, ans):
        if len(case) == 3:
            if self.key(case) in self._treeerr:
                return None
            ms = [self._m_nodes(ans)] + [self._m_nodes(self._hdr_answer(t)) for _, t in case[2]]
            if any(m and m[0] == "Err" for m in ms):
                # a file of the chain is rejected by the cleaner: whether finder.find raises depends on whether a
                # platform reaches it; such chains are outside wf and are not compared
                return None
            return ["Ok", ms[0], [[name, m] for (name, _), m in zip(case[2], ms[1:])]]
        if self.key(case) in self._treeerr:
            return None
        m = ans[0]
        if m[0] == "Err":
            return ["Err", "RuntimeError"]
        return ["Ok", [[d, list(ls)] for d, ls in m[1]]]

    def impl_view_for_model(self, case, ia):
        if ia[0] == "Ok" and len(case) == 3:
            # a header no platform reaches is never parsed: nothing to compare there
            return ["Ok", ia[1], [[name, nodes if nodes is not None else self._m_nodes(self._hdr_answer(t))]
                                  for (name, nodes, _), (_, t) in zip(ia[3], case[2])]]
        if ia[0] == "Ok":
            return ["Ok", ia[1]]
        return ia

    def impl_view_for_spec(self, case, ia):
        if ia[0] != "Ok":
            return ia
        tagged = [[n, d] for d, ls in ia[1] for n in ls]      # in node order: the theorem states list equality
        if len(case) == 3:
            hs = []
            for (name, nodes, sel), (_, t) in zip(ia[3], case[2]):
                if nodes is None:
                    tg = [[n, d] for n, d in self._hdr_answer(t)[1][1]]
                else:
                    tg = [[n, d] for d, ls in nodes for n in ls]
                hs.append([name, tg, sel])
            return ["Ok", tagged, ia[2], hs]
        return ["Ok", tagged, ia[2]]

    def spec(self, case, ans):
        if ans is None or isinstance(ans, str):
            return None
        wf, lines, wfx = ans[1]
        tagged = [[n, d] for n, d in lines]                    # in physical line order
        if len(case) == 3:
            return self._spec_inc(case, wf, tagged)
        if not wf and wfx:
            # well formed except for backslashes inside character literals: the class of the known finding
            self._wfx_only.add(self.key(case))
            self.hist["backslash_in_literal_cases"] = len(self._wfx_only)
        elif not wf:
            return ["NotWF", tagged]
        sel = []
        if case[1]:
            sel = self.oracle(case, tagged)
            if sel is None:
                return ["OracleDiagnosed", tagged]
        return ["Ok", tagged, sel]

    def _spec_inc(self, case, wf, tagged):
        """The free-form scanner applied to EVERY file of the chain + gfortran's selection for every file."""
        hs = []
        for name, t in case[2]:
            a = self._hdr_answer(t)
            if isinstance(a, str) or not a[1][0]:
                wf = False
            else:
                hs.append([name, [[n, d] for n, d in a[1][1]]])
        if not wf:
            return ["NotWF", tagged]
        sel = self.oracle_inc(case, tagged, hs)
        if sel is None:
            return ["OracleDiagnosed", tagged]
        return ["Ok", tagged, sel[0], [[name, tg, s] for (name, tg), s in zip(hs, sel[1])]]

    def oracle_inc(self, case, tagged, hs):
        k = self.key(case)
        if k in self._oracle_cache:
            return self._oracle_cache[k]
        text, defsets, hdrs = case
        d = common.scratch() / "gfi"
        if d.exists():
            shutil.rmtree(d)
        (d / "inc").mkdir(parents=True)
        (d / "o.F90").write_text(text)
        for name, t in hdrs:
            (d / "inc" / name).write_text(t)
        files = [(text, tagged)] + [(t, tg) for (_, t), (_, tg) in zip(hdrs, hs)]
        per_file = [[] for _ in files]
        res = (None,)
        for defs in defsets:
            args = ["gfortran", "-cpp", "-E", "-P", "-undef", "-nostdinc", "-Iinc"] + [f"-D{x}" for x in defs] + ["o.F90"]
            p = subprocess.run(args, cwd=d, capture_output=True, text=True)
            self.oracle_cases += 1
            if p.returncode != 0 or p.stderr.strip():
                self.oracle_dropped += 1
                per_file = None
                break
            for fi, (t, tg) in enumerate(files):
                phys = t.split("\n")
                s = []
                for n, isdir in tg:
                    if isdir:
                        continue
                    toks = G.tokens_of(phys[n - 1])
                    if not toks:
                        per_file = None
                        break
                    if toks[0] in p.stdout:
                        s.append(n)
                if per_file is None:
                    break
                per_file[fi].append(s)
            if per_file is None:
                break
        out = None if per_file is None else (per_file[0], per_file[1:])
        self._oracle_cache[k] = out
        return out

    def in_domain(self, case, sa):
        ok = sa is not None and sa[0] == "Ok" and self.key(case) not in self._treeerr
        if not ok:
            self.hist["out_of_domain"] += 1
        return ok

    # ------------------------------------------------------------------ gfortran oracle
    def oracle(self, case, tagged):
        """Statement lines selected per define set according to gfortran -cpp -E; None if it diagnoses."""
        k = self.key(case)
        if k in self._oracle_cache:
            return self._oracle_cache[k]
        text, defsets = case
        d = common.scratch() / "gf"
        d.mkdir(parents=True, exist_ok=True)
        (d / "o.F90").write_text(text)
        code_lines = [n for n, isdir in tagged if not isdir]
        phys = text.split("\n")
        res = []
        for defs in defsets:
            args = ["gfortran", "-cpp", "-E", "-P", "-undef", "-nostdinc"] + [f"-D{x}" for x in defs] + ["o.F90"]
            p = subprocess.run(args, cwd=d, capture_output=True, text=True)
            self.oracle_cases += 1
            if p.returncode != 0 or p.stderr.strip():
                self.oracle_dropped += 1
                res = None
                break
            outp = p.stdout
            s = []
            for n in code_lines:
                toks = G.tokens_of(phys[n - 1])
                if not toks:
                    res = None       # a counted line without a token cannot be observed
                    break
                if toks[0] in outp:
                    s.append(n)
            if res is None:
                break
            res.append(s)
        self._oracle_cache[k] = res
        return res

    # ------------------------------------------------------------------ statistics / classes
    def nontrivial(self, case, ia):
        if ia[0] != "Ok":
            return False
        if len(case) == 3:
            # at least two headers parsed, one of them holding an uncounted (comment/blank) line
            parsed = [(nodes, t) for (_, nodes, _), (_, t) in zip(ia[3], case[2]) if nodes is not None]
            return len(parsed) >= 2 and any(len({n for _, ls in nodes for n in ls}) < t.count("\n") for nodes, t in parsed)
        text, defsets = case
        nlines = text.count("\n") + (0 if text.endswith("\n") or not text else 1)
        counted = {n for _, ls in ia[1] for n in ls}
        if not counted or len(counted) >= nlines:
            return False
        feats = G.features(text)
        if defsets and len({tuple(s) for s in ia[2]}) > 1:
            return True
        return bool(feats & {"continuation", "literal_special", "sentinel"})

    def classify(self, case, ia, sa):
        # narrow: the text violates Spec/C17.v [wf] ONLY by backslashes inside character literals
        if self.key(case) in self._wfx_only:
            return "backslash-in-literal"
        return None

    def shrink(self, case, still_fails):
        if len(case) == 3:
            text, defsets, hdrs = case
            # shrink the innermost header's lines (keeping the chain), then the define sets
            for hi in range(len(hdrs) - 1, -1, -1):
                keep = lambda ls, hi=hi: still_fails([text, defsets, hdrs[:hi] + [[hdrs[hi][0], "\n".join(ls)]] + hdrs[hi + 1:]])
                ls2 = common.shrink_list(hdrs[hi][1].split("\n"), keep, max_steps=120)
                hdrs = hdrs[:hi] + [[hdrs[hi][0], "\n".join(ls2)]] + hdrs[hi + 1:]
            ls2 = common.shrink_list(text.split("\n"), lambda ls: still_fails(["\n".join(ls), defsets, hdrs]), max_steps=120)
            return ["\n".join(ls2), defsets, hdrs]
        text, defsets = case
        lines = text.split("\n")
        lines2 = common.shrink_list(lines, lambda ls: still_fails(["\n".join(ls), defsets]))
        text2 = "\n".join(lines2)
        chars = common.shrink_list(list(text2), lambda cs: still_fails(["".join(cs), defsets]), max_steps=300)
        text3 = "".join(chars)
        ds = common.shrink_list(defsets, lambda d: still_fails([text3, d])) if defsets else defsets
        return [text3, ds]

    def self_tests(self):
        """S reads a backslash in a literal as an ordinary character: validate against gfortran."""
        if shutil.which("gfortran") is None:
            return []
        d = common.scratch() / "gfs"
        d.mkdir(parents=True, exist_ok=True)
        src = "program p\n  print *, 'a\\'\n  print *, 'b' ! c\nend program p\n"
        (d / "s.f90").write_text(src)
        p1 = subprocess.run(["gfortran", "-fsyntax-only", "s.f90"], cwd=d, capture_output=True, text=True)
        p2 = subprocess.run(["gfortran", "-cpp", "-fsyntax-only", "s.f90"], cwd=d, capture_output=True, text=True)
        out = []
        if p1.returncode != 0 or p2.returncode != 0:
            out.append("gfortran rejects a literal ending in a backslash: S's reading of backslashes is not gfortran's default")
        # S versus the compiler: every compilable program must be well formed for S, and gfortran must
        # accept it for every define set (S's reading of literals / continuations / comments = the compiler's)
        n = 60 if self.tier == "quick" else 800
        progs = [G.render(G.gen_valid_program(self.rng)) for _ in range(n)]
        answers = common.run_model("C17", ["#" + t.encode("latin-1").hex() for t in progs])
        for t, a in zip(progs, answers):
            wf = bool(a[1][0]) if not isinstance(a, str) else False
            ok = True
            for defs in ([], ["-DF0", "-DV0=1"], ["-DF1", "-DV1=2", "-DV0=0"]):
                (d / "v.F90").write_text(t)
                p = subprocess.run(["gfortran", "-cpp", "-fsyntax-only"] + defs + ["v.F90"], cwd=d, capture_output=True, text=True)
                self.compiler_runs += 1
                if p.returncode != 0 or p.stderr.strip():
                    ok = False
                    break
            if wf != ok:
                self.compiler_bad.append({"text": t, "S_wf": wf, "gfortran_accepts": ok})
                continue
            # S's "not counted" versus the compiler: blanking every Fortran comment line that S does not count
            # (also inside continued statements and continued literals) must leave a program that gfortran still
            # accepts and whose preprocessed token set is unchanged.  (Lines that merely close a directive's
            # block comment or hold a lone & are not counted either, but are not removable.)
            counted = {n for n, _ in a[1][1]}
            ls = t.split("\n")
            blanked = "\n".join("" if (i + 1) not in counted and l.strip().startswith("!") else l for i, l in enumerate(ls))
            if blanked != t:
                for defs in ([], ["-DF0", "-DV0=1"], ["-DF1", "-DV1=2", "-DV0=0"]):
                    (d / "v.F90").write_text(t)
                    p0 = subprocess.run(["gfortran", "-cpp", "-E", "-P"] + defs + ["v.F90"], cwd=d, capture_output=True, text=True)
                    (d / "w.F90").write_text(blanked)
                    p1 = subprocess.run(["gfortran", "-cpp", "-fsyntax-only"] + defs + ["w.F90"], cwd=d, capture_output=True, text=True)
                    p2 = subprocess.run(["gfortran", "-cpp", "-E", "-P"] + defs + ["w.F90"], cwd=d, capture_output=True, text=True)
                    self.compiler_runs += 3
                    if p1.returncode != 0 or p1.stderr.strip() or \
                            sorted(set(G.tokens_of(p0.stdout))) != sorted(set(G.tokens_of(p2.stdout))):
                        self.compiler_bad.append({"text": t, "blanked_uncounted_lines": blanked, "defs": defs,
                                                  "gfortran": p1.stderr[:200]})
                        break
        if self.compiler_bad:
            out.append(f"S and gfortran disagree on the well-formedness of {len(self.compiler_bad)} compilable programs: {self.compiler_bad[0]}")
        return out

    def extra_coverage(self):
        return {"input_distribution": self.hist,
                "exhaustive": {"alphabet": ALPHABET, "directive_alphabet": "#" + ALPHABET_DIR,
                               "max_body_length": 5 if self.tier == "quick" else 6},
                "spec_oracle": "gfortran -cpp -E -P" if shutil.which("gfortran") else "absent",
                "spec_oracle_cases": self.oracle_cases, "spec_oracle_dropped_diagnosed": self.oracle_dropped,
                "spec_oracle_disagreements": len(self.oracle_bad),
                "spec_vs_compiler_runs": self.compiler_runs, "spec_vs_compiler_disagreements": len(self.compiler_bad)}


CHECK = C17
