"""C05 — a physical line is counted iff it holds code outside comments.

I  = codebasin.file_source.c_file_source and codebasin.file_parser.FileParser.parse_file
M  = Model/C05.v (c_cleaner / one_space_line / line_info / c_file_source / LineGroup / parse_file)
S  = Spec/C05.v  (reference phase-2/3 scanner with physical line numbers), taken from the driver.
"""
from __future__ import annotations

import io
import itertools
import logging
import os
import re
import subprocess
import zlib
from pathlib import Path

from . import common, c05_ref
from .common import Check, enc

ALPHA = ["a", " ", "/", "*", '"', "'", "\\", "\n", "#"]
_setup_done = False


def _setup():
    global _setup_done
    if not _setup_done:
        logging.disable(logging.CRITICAL)
        _setup_done = True


# ------------------------------------------------------------------ generators
IDENTS = ["x", "foo", "a1", "i", "int", "return", "y_2", "N"]
OPS = ["+", "-", "=", ";", "(", ")", "{", "}", "/", "*", "<", ",", "%", "/ ", " / ", "*/"[:1]]
STR_BITS = ["a", "b c", "//", "/*", "*/", "\\\"", "\\\\", "'", " ", "  ", "\t", "#", "\\n", "/", "*", "x y", "\\'"]
CHR_BITS = ["a", "\\'", "\\\\", "\"", "/", "*", "/*", "//", "\\n", "#", " "]
COM_BITS = ["c", " ", "\"", "'", "*", "/", "//", "/*", "#", "\\", "* /", "**", "it's", "\"q", "x y", "\t"]
DIRECTIVES = ["#define X 1", "# define Y(a) a", "#pragma once", "#undef X", "#include \"h.h\"", "#", "# ",
              "#define S \"a//b\"", "#define C '/'", "#error don't", "#line 3", "#define Z /* c */ 2",
              "#define W 1 // c", "  #  pragma omp parallel", "#define V(a,b) a ## b", "#define Q #"]


def gen_string(rng):
    return '"' + "".join(rng.choice(STR_BITS) for _ in range(rng.randint(0, 4))) + '"'


def gen_char(rng):
    return "'" + "".join(rng.choice(CHR_BITS) for _ in range(rng.randint(1, 2))) + "'"


def gen_block(rng):
    n = rng.randint(0, 6)
    bits = []
    for _ in range(n):
        r = rng.random()
        bits.append("\n" if r < 0.25 else rng.choice(COM_BITS))
    body = "".join(bits).replace("*/", "* /")
    if body.endswith("*") and rng.random() < 0.5:
        pass
    return "/*" + body + "*/"


def gen_line_comment(rng):
    body = "".join(rng.choice(COM_BITS) for _ in range(rng.randint(0, 4)))
    while body.endswith("\\"):
        body = body[:-1]
    return "//" + body


def splice(rng, s, p):
    """Insert backslash-newline at random positions (anywhere: inside tokens, comments, literals)."""
    out = []
    for ch in s:
        if ch != "\n" and rng.random() < p:
            out.append("\\\n")
            if rng.random() < 0.3:
                out.append(rng.choice(["", " ", "  ", "\t", "\\\n", " \\\n", "  \\\n"]))
        out.append(ch)
    return "".join(out)


def gen_text(rng, max_lines=40, directives=True):
    lines = []
    depth = 0
    n = rng.randint(1, max_lines)
    while len(lines) < n:
        r = rng.random()
        if r < 0.12:
            lines.append(rng.choice(["", " ", "\t", "  "]))
            continue
        if r < 0.27 and directives:
            d = rng.choice(DIRECTIVES)
            r2 = rng.random()
            if r2 < 0.15:
                d = "#if X"
                depth += 1
            elif r2 < 0.3 and depth:
                d = "#endif"
                depth -= 1
            elif r2 < 0.4:
                d = gen_block(rng) + " " + d
            if rng.random() < 0.3:
                d += " " + rng.choice([gen_block(rng), gen_line_comment(rng), gen_string(rng)])
            lines.append(d)
            continue
        toks = []
        for _ in range(rng.randint(1, 6)):
            k = rng.random()
            if k < 0.30:
                toks.append(rng.choice(IDENTS))
            elif k < 0.50:
                toks.append(rng.choice(OPS))
            elif k < 0.62:
                toks.append(gen_string(rng))
            elif k < 0.70:
                toks.append(gen_char(rng))
            elif k < 0.85:
                toks.append(gen_block(rng))
            elif k < 0.90:
                toks.append(rng.choice([" ", "  ", "\t"]))
            else:
                toks.append(gen_line_comment(rng))
                break
        sep = rng.choice(["", " ", " "])
        lines.append(rng.choice(["", "", " ", "\t"]) + sep.join(toks))
    lines += ["#endif"] * depth
    text = "\n".join(lines) + "\n"
    p = rng.choice([0.0, 0.0, 0.02, 0.05, 0.15])
    if p:
        text = splice(rng, text, p)
    if rng.random() < 0.05:
        text = text[:-1]
    return text


MAL_ALPHA = list("ab1 /*\"'\\\n#\t") + ["\n", "\\\n", "/*", "*/", "//", " ", "\x0b", "\x0c", "?", "\x1c"]


def gen_malformed(rng):
    r = rng.random()
    if r < 0.5:
        return "".join(rng.choice(MAL_ALPHA) for _ in range(rng.randint(0, 30)))
    t = list(gen_text(rng, 8))
    for _ in range(rng.randint(1, 4)):
        if not t:
            break
        i = rng.randrange(len(t))
        k = rng.random()
        if k < 0.4:
            del t[i]
        elif k < 0.8:
            t.insert(i, rng.choice(MAL_ALPHA))
        else:
            t[i] = rng.choice(MAL_ALPHA)
    return "".join(t)


def exhaustive(maxlen):
    """every newline-terminated text of length <= maxlen over ALPHA"""
    for n in range(0, maxlen):
        for tup in itertools.product(ALPHA, repeat=n):
            yield "".join(tup) + "\n"


# ------------------------------------------------------------------ implementation runners
def run_file_source(text):
    from codebasin.file_source import c_file_source
    out = []
    try:
        g = c_file_source(io.StringIO(text))
        while True:
            try:
                l = next(g)
            except StopIteration as stop:
                total, nphys = stop.value
                break
            (s, e), sloc, flushed, cat = l.logical_result()
            out.append([s, e, list(l.lines), sloc, cat, flushed])
    except RuntimeError:
        return "Err"
    return [out, total, nphys]


def run_parse_file(text, path="/nonexistent/c05.cpp", crlf_file=None):
    """parse_file on the text.  Default route: file_parser.open replaced by a StringIO factory.
    crlf_file: write the text to that path with every newline encoded as CR LF and let the REAL open() read it
    (the same text in its other on-disk encoding; universal newlines must make no difference)."""
    from codebasin import file_parser, preprocessor
    if crlf_file is not None:
        Path(crlf_file).write_bytes(text.replace("\n", "\r\n").encode("utf-8"))
        path = str(crlf_file)
    else:
        file_parser.open = lambda fn, errors=None, **kw: io.StringIO(text)
    try:
        tree = file_parser.FileParser(path).parse_file()
    except RuntimeError:
        return "Err"
    except Exception as e:  # noqa
        return ["EXC", type(e).__name__]
    finally:
        if crlf_file is None:
            del file_parser.open
    nodes = []
    for n in tree.walk():
        if n is tree.root:
            continue
        kind = "Code" if type(n) is preprocessor.CodeNode else "Dir"
        nodes.append([kind, n.start_line, n.end_line, n.num_lines, list(n.lines)])
    return [nodes, tree.root.num_lines, tree.root.total_sloc]


class C05(Check):
    prop_id = "C05"
    rule = ("texts: corpus (defect witnesses, tests/comments fixture); every newline-terminated text of length <= 6 "
            "(quick) / <= 7 (thorough) over {a,space,/,*,\",',\\,newline,#}; token-level random texts (identifiers, "
            "operators, string/char literals holding comment markers and escapes, // and multi-line /* */ comments "
            "holding quotes, directives, blank lines, backslash-newline spliced in at random positions) up to 40 "
            "lines; malformed stream (random characters, mutated texts).  A case is non-trivial if it is well-formed, "
            "at least one line is counted and at least one physical line is NOT counted or a logical line spans "
            "several physical lines")
    assumptions = [
        "ASCII text without carriage returns (open() would translate them); str.isspace on ASCII = 9-13, 28-32",
        "the file object yields the text split after each newline (StringIO stands in for open() on 3/4 of the cases; every corpus case and 1/4 of the generated ones are written to a real file with CR LF line ends and read by the real open(): same text, other on-disk encoding of newline)",
        "DirectiveParser/SourceTree.insert accept the directive line (C01/C03 own their behaviour); nodes are read back in pre-order",
    ]

    def __init__(self, tier, seed):
        super().__init__(tier, seed)
        _setup()
        self._flags = {}
        self._exc = {}
        self._ref_n = 0
        self._ref_bad = []
        self._raw_n = 0
        self._raw_bad = []
        self._iso_n = 0
        self._iso_bad = []
        self._stream = {}
        self._seen_dom = set()
        self._crlf_all = True        # until generate() has run (replay mode never calls it)
        self._corpus_set = None
        self.stats = {"input_distribution": {}}

    # ---- cases
    def generate(self):
        quick = self.tier == "quick"
        out = []
        ex = list(exhaustive(6 if quick else 7))
        out += ex
        n_rand = 2500 if quick else 60000
        n_mal = 1500 if quick else 30000
        rnd = [gen_text(self.rng) for _ in range(n_rand)]
        # short random texts over the small alphabet, lengths beyond the exhaustive bound
        lo, hi = (7, 14) if quick else (9, 18)
        small = ["".join(self.rng.choice(ALPHA) for _ in range(self.rng.randint(lo, hi))) + "\n"
                 for _ in range(20000 if quick else 400000)]
        mal = [gen_malformed(self.rng) for _ in range(n_mal)]
        out += rnd + small + mal
        for name, lst in (("exhaustive", ex), ("grammar", rnd), ("small_alphabet", small), ("malformed", mal)):
            for t in lst:
                self._stream.setdefault(t, name)
        d = self.stats["input_distribution"]
        d["exhaustive_texts"] = len(ex)
        d["random_grammar_texts"] = len(rnd)
        d["random_small_alphabet_texts"] = len(small)
        d["malformed_texts"] = len(mal)
        ln = [t.count("\n") for t in rnd]
        d["grammar_lines_hist"] = {f"{a}-{a+9}": sum(1 for x in ln if a <= x < a + 10) for a in range(0, 80, 10)}
        d["grammar_with_splice"] = sum(1 for t in rnd if "\\\n" in t)
        d["grammar_with_block_comment"] = sum(1 for t in rnd if "/*" in t)
        d["grammar_with_multiline_comment"] = sum(1 for t in rnd if any("\n" in c.split("*/")[0] for c in t.split("/*")[1:]))
        d["grammar_with_literal"] = sum(1 for t in rnd if '"' in t or "'" in t)
        d["grammar_with_directive"] = sum(1 for t in rnd if "#" in t)
        self._crlf_all = False
        return out

    def key(self, case):
        return case

    def encode(self, case):
        # always hex: common.enc would pass "a\n" through as a bare word (its regex `$` accepts a trailing newline)
        return "#" + case.encode("latin-1", errors="replace").hex()

    # ---- I
    def crlf_selected(self, case):
        """Every corpus case, a quarter of the generated cases (a pure function of the text, so that a replay takes
        the same route) and every case met while shrinking or replaying goes through a real CR LF file."""
        if self._crlf_all or zlib.crc32(case.encode("utf-8", "replace")) % 4 == 0:
            return True
        if self._corpus_set is None:
            self._corpus_set = set(super().corpus())
        return case in self._corpus_set

    def impl(self, case):
        if self.crlf_selected(case):
            d = common.scratch() / "c05crlf"
            d.mkdir(exist_ok=True)
            tree = run_parse_file(case, crlf_file=d / "t.cpp")
            dist = self.stats["input_distribution"]
            dist["crlf_real_file_cases"] = dist.get("crlf_real_file_cases", 0) + 1
        else:
            tree = run_parse_file(case)
        if isinstance(tree, list) and tree and tree[0] == "EXC" and tree[1] in ("ParseError", "AttributeError"):
            # DirectiveParser / SourceTree.insert rejected a directive line (C01/C03 territory):
            # only the c_file_source observation is compared for this case
            self._exc[case] = tree
            d = self.stats.setdefault("directive_parser_rejections", {})
            d[tree[1]] = d.get(tree[1], 0) + 1
        return [run_file_source(case), tree]

    # ---- M
    def model_view(self, case, ans):
        fs, tree = ans[0], ans[1]
        if case in self._exc:
            tree = self._exc[case]
        return [fs, tree]

    # ---- S
    def spec(self, case, ans):
        if ans is None or isinstance(ans, str):
            return None
        sp = ans[2]
        if sp == "NoLines":
            self._flags[case] = (False, False, False)
            return ["ill-formed"]
        logical, nodes, wf, c20, c22 = sp
        self._flags[case] = (bool(wf), bool(c20), bool(c22))
        # S computed from the raw characters (Spec/C05f.v) must agree with S on physical lines
        # (a theorem for newline-terminated texts; checked here for every text)
        rl, rwf, r20, r22, rnl, il, iwf = ans[3]
        # the literal ISO look-ahead reading (Spec/C05i.v): wf always equal, logical lines unless the text ends in a splice
        self._iso_n += 1
        if iwf != wf or (not case.endswith("\\\n") and il != logical):
            self._iso_bad.append(case)
        self._raw_n += 1
        if [rl, rwf, r20, r22] != [logical, wf, c20, c22] and (rnl or case == ""):
            self._raw_bad.append(case)
        # cross-check the Coq specification against the independent look-ahead reference (c05_ref)
        ref = c05_ref.scan(case)
        self._ref_n += 1
        if ref is None or ref["wf"] != bool(wf) or (wf and ref["logical"] != [[ls, d] for ls, d in logical]):
            self._ref_bad.append(case)
        if case in self._exc:
            return [[[ls, d] for ls, d in logical], "EXC", "EXC"]
        return [[[ls, d] for ls, d in logical], [[k, ls] for k, ls in nodes],
                sum(len(ls) for ls, _ in logical)]

    def impl_view_for_spec(self, case, ia):
        fs, tree = ia
        if fs == "Err" or tree == "Err":
            return ["Err", fs if isinstance(fs, str) else "ok", tree if isinstance(tree, str) else "ok"]
        logical = [[l[2], 1 if l[4] == "CPP_DIRECTIVE" else 0] for l in fs[0]]
        if case in self._exc:
            return [logical, "EXC", "EXC"]
        nodes = [[n[0], n[4]] for n in tree[0]]
        return [logical, nodes, tree[2]]

    def in_domain(self, case, sa):
        wf, c20, c22 = self._flags.get(case, (False, False, False))
        if case not in self._seen_dom:
            self._seen_dom.add(case)
            d = self.stats.setdefault("well_formed_by_stream", {})
            e = d.setdefault(self._stream.get(case, "corpus"), {"cases": 0, "well_formed": 0, "in_known_class": 0})
            e["cases"] += 1
            e["well_formed"] += 1 if wf else 0
            e["in_known_class"] += 1 if (wf and (c20 or c22)) else 0
        return wf

    def classify(self, case, ia, sa):
        wf, c20, c22 = self._flags.get(case, (False, False, False))
        if c20:
            return "slash-before-splice"
        if c22:
            return "blank-line-in-literal"
        return None

    def nontrivial(self, case, ia):
        fs, tree = ia
        if not isinstance(fs, list):
            return False
        counted = sum(len(l[2]) for l in fs[0])
        multi = any(l[1] - l[0] > 1 for l in fs[0])
        return counted >= 1 and (counted < fs[2] or multi)

    def shrink(self, case, still_fails):
        self._crlf_all = True        # every candidate (and a later replay of the result) takes both encodings' strictest route
        return "".join(common.shrink_list(list(case), lambda cs: still_fails("".join(cs))))

    # ---- framework self tests
    def gcc_oracle(self, n):
        """S's reference (c05_ref) against gcc -E -P: diagnostics <-> wf, surviving text after comment removal."""
        import shutil as _sh
        res = {"cases": 0, "gcc_silent": 0, "compared_text": 0, "disagreements": []}
        if not _sh.which("gcc"):
            res["skipped"] = "gcc not found"
            return res
        rng = self.rng
        for i in range(n):
            t = (gen_text(rng, 10, directives=False) if i % 4 else gen_malformed(rng)).replace("#", "+").replace("?", "a")
            if any(ord(ch) > 126 or (ord(ch) < 32 and ch not in "\n\t") for ch in t):
                continue
            ref = c05_ref.scan(t)
            if ref is None:
                continue
            if re.search(r"\\[ \t]+(\n|$)", t):
                continue          # gcc extension: backslash, blanks, newline also splices (not ISO C)
            p = subprocess.run(["gcc", "-E", "-P", "-undef", "-nostdinc", "-x", "c", "-"], input=t, capture_output=True,
                               text=True, timeout=30)
            res["cases"] += 1
            silent = p.returncode == 0 and not p.stderr.strip()
            if silent:
                res["gcc_silent"] += 1
            stray = "\\" in c05_ref.strip_ws(ref["surviving"]) and not ref["wf"]
            if ref["wf"] and not silent and t.endswith("\n"):
                res["disagreements"].append(["ref-wf-but-gcc-diagnoses", t, p.stderr[:200]])
            elif silent and not ref["wf"] and not stray:
                res["disagreements"].append(["gcc-silent-but-ref-ill-formed", t])
            if silent and ref["wf"]:
                res["compared_text"] += 1
                if c05_ref.strip_ws(p.stdout) != c05_ref.strip_ws(ref["surviving"]):
                    res["disagreements"].append(["surviving-text", t, p.stdout, ref["surviving"]])
        return res

    def self_tests(self):
        problems = []
        if self._ref_bad:
            problems.append(f"Coq specification and independent reference disagree on {len(self._ref_bad)} of "
                            f"{self._ref_n} cases, first: {self._ref_bad[0]!r}")
        if self._raw_bad:
            problems.append(f"S on raw text and S on physical lines disagree on {len(self._raw_bad)} of {self._raw_n} "
                            f"cases, first: {self._raw_bad[0]!r}")
        if self._iso_bad:
            problems.append(f"ISO look-ahead spec and pending-state spec disagree on {len(self._iso_bad)} of {self._iso_n} "
                            f"cases, first: {self._iso_bad[0]!r}")
        self.stats["spec_iso_vs_scanner"] = {"cases": self._iso_n, "disagreements": len(self._iso_bad)}
        self.stats["spec_raw_vs_lines"] = {"cases": self._raw_n, "disagreements": len(self._raw_bad)}
        g = self.gcc_oracle(300 if self.tier == "quick" else 4000)
        self.stats["spec_oracle_gcc"] = {k: (v if k != "disagreements" else len(v)) for k, v in g.items()}
        self.stats["spec_vs_reference"] = {"cases": self._ref_n, "disagreements": len(self._ref_bad)}
        if g["disagreements"]:
            problems.append(f"reference vs gcc -E: {len(g['disagreements'])} disagreements, first: {g['disagreements'][0]!r}")
        # a sample through real files and the real open(): must agree with the StringIO route
        d = common.scratch() / "c05files"
        d.mkdir(exist_ok=True)
        from codebasin import file_parser, preprocessor
        rng = self.rng
        for i in range(40 if self.tier == "quick" else 400):
            t = gen_text(rng, 12)
            p = d / f"f{i}.cpp"
            p.write_text(t)
            via_io = run_parse_file(t)
            try:
                tree = file_parser.FileParser(str(p)).parse_file()
                nodes = [["Code" if type(n) is preprocessor.CodeNode else "Dir", n.start_line, n.end_line,
                          n.num_lines, list(n.lines)] for n in tree.walk() if n is not tree.root]
                real = [nodes, tree.root.num_lines, tree.root.total_sloc]
            except RuntimeError:
                real = "Err"
            except Exception as e:  # noqa
                real = ["EXC", type(e).__name__]
            if real != via_io:
                problems.append(f"real file and StringIO routes disagree on {t!r}")
                break
        return problems


CHECK = C05
