"""C11 — -D/-I/-isystem/-include extracted from any command line.

I  = config.ArgumentParser(cc).parse_args(argv)  (default pass; warnings of the codebasin.config logger),
     CompileCommand(command=shlex.join(argv)).arguments, config.load_database on a two-entry database
     (`arguments` form and `command` form)
M  = Model/C11.v (argparse.parse_known_args over the generated option table) + Model/C11sh.v (shlex)
S  = Spec/C11.v (the scanner the property describes), also re-implemented below in Python so that the
     search for a failing input keeps working when Coq does not build.
"""
from __future__ import annotations

import argparse
import contextlib
import io
import itertools
import json
import logging
import os
import shlex

from . import common
from .common import Check, enc
from .c11_catalogue import CATALOGUE

CC = "cbi-c11-cc"          # not a known compiler: only the options common to all compilers are registered

FLAGS = {"D": "-D", "I": "-I", "S": "-isystem", "F": "-include"}
VALUES = {
    "D": ["X", "FOO=1", "A=b=c", 'S="a b"', "N=-1", "_OPENMP", "V='q'", "E=", "F(x)=x+1", "a b", "x\\y",
          "-X", "-DX", "=X", "--", "-", "-1", "$HOME", "Z=`id`", "W=a;b", "T=\ttab"],
    "I": ["inc", "/usr/include", "../x y", ".", "a=b", "d'q", 'd"q', "-d", "-Iinc", "=sys", "--", "-", "a/b/../c"],
    "S": ["sys", "/opt/sys inc", "s=t", "-s", "=sysroot/inc", "/d", "--"],
    "F": ["f.h", "pre fix.h", "x=y.h", "-f.h", "=f.h", "cfg/auto'conf.h", "--"],
}
# reduced pools for the exhaustive block
SMALL_ITEMS = [
    ["-DX"], ["-D", "Y=1"], ["-Iinc"], ["-I", "d 2"], ["-isystem", "sys"], ["-include", "f.h"],
    ["-g3"], ["-O2"], ["-ccbin", "g++"], ["-MF", "x.d"], ["a.c"], ["-Wall"], ["-c"], ["-o", "a.o"],
    ["-std=c++17"], ["-O"],
]
SMALL_FINDING_ITEMS = [["-isystem/d"], ["-includef.h"], ["-I", "-d"], ["-I=d"], ["-D--"], ["-i"], ["-is", "d"]]

REAL_CCS = ["gcc", "g++", "clang", "clang++", "icx", "icpx", "nvcc"]


def _compiler_tables():
    """per built-in compiler, read from the TOML files with tomllib (not through CBI):
    (flags with a zero-argument action, all registered flags, implicit options)"""
    import tomllib
    out, alias = {}, {}
    for f in sorted((common.REPO / "codebasin" / "compilers").glob("*.toml")):
        for name, d in tomllib.loads(f.read_text())["compiler"].items():
            if "alias_of" in d:
                alias[name] = d["alias_of"]
                continue
            const = [fl for o in d.get("parser", []) if o["action"] in ("append_const", "store_const", "store_true", "store_false")
                     for fl in o["flags"]]
            flags = [fl for o in d.get("parser", []) for fl in o["flags"]]
            out[name] = (const, flags, list(d.get("options", [])))
    for a, t in alias.items():
        while t in alias:
            t = alias[t]
        out[a] = out[t]
    return out


LONG = ("-isystem", "-include")
BARE_VALUE_FLAGS = ("-D", "-I", "-isystem", "-include", "-o")


def flatten(items):
    return [t for it in items for t in it]


# ------------------------------------------------------------------ S in Python (independent of Coq)
def recognise(t):
    for flag, k in (("-D", 0), ("-I", 1), ("-isystem", 2), ("-include", 3)):
        if t.startswith(flag):
            return k, t[len(flag):]
    return None


def scan_py(argv):
    """[defines, -I directories followed by -isystem directories, forced includes], each in command-line order"""
    out = ([], [], [], [])
    pend = None
    for t in argv:
        if pend is not None:
            out[pend].append(t)
            pend = None
            continue
        r = recognise(t)
        if r is None:
            continue
        k, v = r
        if v == "":
            pend = k
        else:
            out[k].append(v)
    return [list(out[0]), list(out[1]) + list(out[2]), list(out[3])]


# ------------------------------------------------------------------ POSIX-shell renderings (Spec/C11sh.v, in Python)
WS = " \t\r\n"


def render_seg(sg):
    k, x = sg
    if k == "P":
        return x
    if k == "E":
        return "\\" + x
    if k == "S":
        return "'" + x + "'"
    return '"' + "".join(c if kk == "P" else "\\" + c for kk, c in x) + '"'


def value_seg(sg):
    k, x = sg
    if k in ("P", "E", "S"):
        return x
    return "".join(c if kk in ("P", "E") else "\\" + c for kk, c in x)


def render_cmd(case):
    return case["lead"] + "".join("".join(render_seg(sg) for sg in w) + sep for w, sep in case["words"])


# ------------------------------------------------------------------ finding classes (narrow, on tokens)
def is_negnum(t):
    import re
    return re.match(r"^-\d+$|^-\d*\.\d+$", t) is not None


def _dashy(t):
    """argparse reads t as an option ('O') or as the '--' marker, so it cannot be the separate value of a flag."""
    if not t.startswith("-") or t == "-" or is_negnum(t):
        return False
    if " " in t and not t.startswith(("-D", "-I", "-O", "-o", "-g", "-c")) and "=" not in t:
        return False
    return True


def class_instances(argv, const_flags=()):
    """[(class id, position)] for every token that is spelled in a way a known finding covers
    (left-to-right walk; the token after a bare value-taking flag is that flag's value)."""
    out = []
    pend = False
    for i, t in enumerate(argv):
        if pend:
            pend = False
            if _dashy(t):
                out.append(("dash-value", i))
            continue
        if t in BARE_VALUE_FLAGS:
            pend = True
        elif t in ("-D--", "-I--"):
            out.append(("dashdash-value", i))
        elif t.startswith(("-D=", "-I=")):
            out.append(("eq-value", i))
        elif t.startswith(LONG):
            out.append(("attached-long", i))
        elif len(t) >= 2 and any(f.startswith(t) for f in LONG):
            out.append(("abbrev", i))
        elif "=" in t and t.split("=", 1)[0] in const_flags:
            out.append(("const-flag-eq", i))
        elif len(t) >= 2 and not t.startswith("--") and any(f.startswith(t) and f != t for f in const_flags):
            out.append(("abbrev-of-compiler-flag", i))
    return out


def neutralise(argv, const_flags=()):
    """Re-spell every class instance in an equivalent (or neutral) way the findings do not cover."""
    argv = list(argv)
    inst = class_instances(argv, const_flags)
    for cls, i in sorted(inst, key=lambda x: -x[1]):
        t = argv[i]
        if cls == "dash-value":
            argv[i] = "x" + t[1:]
        elif cls == "dashdash-value":
            argv[i] = t[:2] + "x-"
        elif cls == "eq-value":
            argv[i] = t[:2] + "x" + t[2:]
        elif cls == "attached-long":
            rest = t[8:]
            argv[i:i + 1] = [t[:8], ("x" + rest[1:]) if rest.startswith("-") else rest]
        elif cls in ("abbrev", "const-flag-eq", "abbrev-of-compiler-flag"):
            argv[i] = "-zz"
    return argv


class C11(Check):
    prop_id = "C11"
    rule = ("argv = interleavings of recognised options (-D/-I/-isystem/-include, attached and separate spelling, values with "
            "'=', quotes, blanks, leading dashes, shell metacharacters) with entries of a catalogue of 172 real gcc/clang/icx/"
            "nvcc/gfortran options CBI does not model; all vectors of <= 3 (quick) / 4 (thorough) items over a 16-item pool "
            "exhaustively, plus known-finding spellings at every position of short vectors, random vectors of 4-30 items, a "
            "malformed stream (abbreviations, '--', missing values, clusters, random punctuation, every '-'-token of <= 4/5 letters "
            "over a 12-letter alphabet) that is compared with M only, the same grammar under the seven built-in compiler names "
            "(I vs S only), "
            "and raw strings for shlex.split (exhaustive over a 7-letter alphabet up to length 4/6 + random).  Every vector is "
            "also rendered with shlex.join and read back through CompileCommand(command=...) and config.load_database.  "
            "HISTORY: databases of 2-4 entries for one load_database call that share the compiler and the option names but differ "
            "in option values (spelling and arguments/command form per entry): every entry must get what it gets alone.  "
            "POSIX-shell renderings of random vectors (plain, backslash-escaped, single- and double-quoted segments, any white "
            "space) must be split back into the vector.  "
            "Non-trivial = at least one recognised option AND at least one other argument (renderings: two or more words and a "
            "quoted or escaped segment)")
    assumptions = [
        "CPython 3.12.1 argparse.parse_known_args and shlex.split/quote behave as modelled (sampled by the correspondence, not proved)",
        "the compiler has no parser options of its own (an unrecognised compiler name): compiler-specific options, modes and passes are C12",
        "tokens are byte strings (the harness generates ASCII); non-ASCII digits for argparse's negative-number test are not modelled",
    ]

    def __init__(self, tier, seed):
        super().__init__(tier, seed)
        self._root = None
        self._hist = {"kind": {}, "argv_len": {}, "outcome": {}, "outcome_malformed": {}, "classes": {}, "split_outcome": {}, "render_outcome": {},
                      "real_compiler": {}, "outcome_real_compiler": {}, "db_entries": {}, "db_outcome": {}}
        self._seen = set()
        self._in_safe = {}
        self._safe_count = {True: 0, False: 0}
        self._cct = _compiler_tables()
        self._py_coq_spec_mismatch = []

    # ------------------------------------------------------------ generation
    def rec_item(self, kind=None, attached=None, safe_only=False):
        rng = self.rng
        kind = kind or rng.choice("DDDIISF")
        vals = VALUES[kind]
        if safe_only:
            vals = [v for v in vals if not v.startswith(("-", "="))]
        v = rng.choice(vals)
        if attached is None:
            attached = rng.random() < 0.5
        if attached:
            return [FLAGS[kind] + v]
        return [FLAGS[kind], v]

    def random_vector(self, n, p_rec=0.45, safe_only=False):
        items = []
        for _ in range(n):
            if self.rng.random() < p_rec:
                k = self.rng.choice("DDDIISF")
                att = (self.rng.random() < 0.5) if k in "DI" else (self.rng.random() < (0.0 if safe_only else 0.12))
                items.append(self.rec_item(k, att, safe_only or self.rng.random() < 0.8))
            else:
                items.append(list(self.rng.choice(CATALOGUE)))
        return items

    def db_case(self, cc=CC):
        rng = self.rng
        slots = []
        for _ in range(rng.randint(1, 8)):
            if rng.random() < 0.55:
                slots.append(("rec", rng.choice("DDIISF")))
            else:
                slots.append(("cat", list(rng.choice(CATALOGUE))))
        n = rng.randint(2, 4)
        shared_spelling = rng.random() < 0.6
        spell0 = [rng.random() < 0.5 for _ in slots]
        entries = []
        first_vals = None
        for e in range(n):
            items, vals = [], []
            for j, (kind, x) in enumerate(slots):
                if kind == "cat":
                    items.append(list(x))
                    vals.append(None)
                    continue
                pool = [v for v in VALUES[x] if not v.startswith(("-", "="))]
                v = first_vals[j] if (first_vals is not None and rng.random() < 0.25) else rng.choice(pool)
                vals.append(v)
                attached = (spell0[j] if shared_spelling else rng.random() < 0.5) and x in "DI"
                items.append([FLAGS[x] + v] if attached else [FLAGS[x], v])
            if first_vals is None:
                first_vals = vals
            entries.append({"items": items, "form": rng.choice(["arguments", "command"])})
        return {"kind": "db", "cc": cc, "entries": entries, "dom": True}

    def malformed_vector(self):
        rng = self.rng
        toks = []
        alphabet = "-=DIiOogcns x.1'\"\\\n"
        specials = ["--", "-i", "-is", "-isys", "-in", "-inc", "-includ", "-D", "-I", "-isystem", "-include", "-o", "-O", "-g",
                    "-c", "", " ", "-", "-1.5", "-.5", "-1\n", "-1\n\n", "-gc", "-cg", "-cD", "-gDX", "-Oo", "-I-", "-D--", "-I--",
                    "-g=", "-o=x", "-O=", "-D=", "-I=d", "-include=f", "-isystem=d", "-isystem/d", "-includef", "-a b",
                    "-D x", "-isystem x", "--include", "--D", "-=", "-i=3", "-ix", "a.c", "-DX", "-Iy", "-1", "-2x", "-x y"]
        for _ in range(rng.randint(1, 7)):
            r = rng.random()
            if r < 0.6:
                toks.append(rng.choice(specials))
            elif r < 0.8:
                toks.append("".join(rng.choice(alphabet) for _ in range(rng.randint(0, 5))))
            else:
                toks += flatten(self.random_vector(1))
        return [[t] for t in toks]

    def generate(self):
        quick = self.tier == "quick"
        out = []

        def argv_case(items, dom, db=None):
            # the load_database route costs ~7 ms (schema validation): every case of block 3, one in eight elsewhere
            if db is None:
                db = self.rng.random() < 0.125
            return {"kind": "argv", "items": items, "dom": dom, "db": db}

        # 1. exhaustive block over the reduced pool
        lim = 3 if quick else 4
        for n in range(0, lim + 1):
            for combo in itertools.product(range(len(SMALL_ITEMS)), repeat=n):
                out.append(argv_case([list(SMALL_ITEMS[i]) for i in combo], True))
        # 2. every known-finding spelling at every position of every vector of <= 2 (3) small items
        lim2 = 2 if quick else 3
        for n in range(0, lim2 + 1):
            for combo in itertools.product(range(0, len(SMALL_ITEMS), 1 if not quick else 2), repeat=n):
                base = [list(SMALL_ITEMS[i]) for i in combo]
                for f in SMALL_FINDING_ITEMS:
                    for pos in range(n + 1):
                        out.append(argv_case(base[:pos] + [list(f)] + base[pos:], True))
        # 3. every catalogue entry between two recognised options, and every value of every pool in both spellings
        for e in CATALOGUE:
            out.append(argv_case([["-DA"], list(e), ["-I", "inc"], list(e), ["-include", "f.h"]], True, True))
        for k, vals in VALUES.items():
            for v in vals:
                out.append(argv_case([["-Wall"], [FLAGS[k], v], ["-DLAST"]], True, True))
                out.append(argv_case([["-Wall"], [FLAGS[k] + v], ["-DLAST"]], True, True))
        # 4. random vectors: mostly-valid (safe values only), general (all values), long
        n_rand = 4000 if quick else 60000
        for i in range(n_rand):
            r = self.rng.random()
            if r < 0.5:
                out.append(argv_case(self.random_vector(self.rng.randint(4, 12), safe_only=True), True))
            elif r < 0.85:
                out.append(argv_case(self.random_vector(self.rng.randint(2, 12)), True))
            else:
                out.append(argv_case(self.random_vector(self.rng.randint(12, 30), safe_only=self.rng.random() < 0.5), True))
        # 4b. the same grammar under the built-in compilers (their own options, implicit options, modes and passes are
        #     C12's: vectors avoid the flags the compiler's definition registers; S = the scanner over argv + the
        #     compiler's implicit options; I vs S only)
        def unregistered(cc, items):
            flags = self._cct[cc][1]
            return [it for it in items if not any(t in flags or ("=" in t and t.split("=", 1)[0] in flags) for t in it)]
        for cc in REAL_CCS:
            for e in CATALOGUE[:: (3 if quick else 1)]:
                out.append({"kind": "cc", "cc": cc, "dom": True,
                            "items": unregistered(cc, [["-DA"], list(e), ["-I", "inc"], ["-include", "f.h"]])})
        for i in range(600 if quick else 20000):
            cc = self.rng.choice(REAL_CCS)
            out.append({"kind": "cc", "cc": cc, "dom": True,
                        "items": unregistered(cc, self.random_vector(self.rng.randint(2, 12), safe_only=self.rng.random() < 0.7))})
        # 4c. HISTORY within one database: 2-4 entries loaded by ONE load_database call that share the compiler and the
        #     list of option names (and every unmodelled option) but differ in option VALUES; spelling (attached /
        #     separate) and entry form (arguments / command) chosen per entry; different source files.  Every entry must
        #     get exactly what M / S give for that entry alone.
        for i in range(2500 if quick else 25000):
            out.append(self.db_case())
        # 5. malformed stream (outside the quantifier: compared with M only)
        for i in range(2000 if quick else 30000):
            out.append(argv_case(self.malformed_vector(), False))
        # 5b. every single token over a 12-letter alphabet up to length 4 (quick) / 5 (thorough), alone, before a plain
        #     argument and between two recognised options (outside the quantifier: compared with M only)
        tok_alpha = "-=iDIogsn1. "
        for n in range(1, (4 if quick else 5) + 1):
            for combo in itertools.product(tok_alpha, repeat=n):
                t = "".join(combo)
                if not t.startswith("-"):
                    continue
                out.append(argv_case([[t]], False, False))
                out.append(argv_case([[t], ["x"]], False, False))
                out.append(argv_case([["-DA"], [t], ["-IB"]], False, False))
        # 5c. POSIX-shell renderings of argument vectors (plain / backslash-escaped / '...' / "..." segments, any white
        #     space between words): shlex.split must give back the vector (I vs M vs S)
        chars = "ab-=DI /.'\"\\\t\n$`;"

        def rnd_seg():
            r = self.rng.random()
            if r < 0.4:
                return ["P", self.rng.choice([c for c in chars if c not in WS + "'\"\\"])]
            if r < 0.6:
                return ["E", self.rng.choice(chars)]
            if r < 0.8:
                return ["S", "".join(self.rng.choice([c for c in chars if c != "'"]) for _ in range(self.rng.randint(0, 4)))]
            items = []
            for _ in range(self.rng.randint(0, 4)):
                c = self.rng.choice(chars)
                q = self.rng.random()
                if c in '"\\':
                    items.append(["E", c])
                else:
                    items.append(["B", c] if q < 0.25 else ["P", c])
            return ["D", items]
        for i in range(1500 if quick else 40000):
            n = self.rng.randint(0, 5)
            words = []
            for j in range(n):
                w = [rnd_seg() for _ in range(self.rng.randint(1, 5))]
                sep = "".join(self.rng.choice(WS) for _ in range(self.rng.randint(1, 2)))
                if j == n - 1 and self.rng.random() < 0.5:
                    sep = ""
                words.append([w, sep])
            lead = "".join(self.rng.choice(WS) for _ in range(self.rng.randint(0, 2))) if self.rng.random() < 0.3 else ""
            out.append({"kind": "render", "lead": lead, "words": words})
        # 6. raw command strings for shlex.split
        alpha = "a '\"\\\t-"
        lim3 = 4 if quick else 6
        for n in range(0, lim3 + 1):
            for combo in itertools.product(alpha, repeat=n):
                out.append({"kind": "split", "s": "".join(combo)})
        alpha2 = "ab -=DI'\"\\\t\n$`;#"
        for i in range(2000 if quick else 30000):
            out.append({"kind": "split", "s": "".join(self.rng.choice(alpha2) for _ in range(self.rng.randint(0, 14)))})
        return out

    # ------------------------------------------------------------ encoding
    def argv(self, case):
        return flatten(case["items"])

    def encode(self, case):
        if case["kind"] == "db":
            return enc(["db", [[t.encode("latin-1") for t in flatten(e["items"])] for e in case["entries"]]])
        if case["kind"] in ("argv", "cc"):
            return enc(["argv", [t.encode("latin-1") for t in self.argv(case)]])
        # (bytes are always hex-encoded: common.enc would pass "a\n" through as a bare word)
        if case["kind"] == "render":
            return enc(["split", render_cmd(case).encode("latin-1")])
        return enc(["split", case["s"].encode("latin-1")])

    # ------------------------------------------------------------ implementation
    def _parse(self, argv, cc=CC):
        from codebasin import config
        recs = []

        class H(logging.Handler):
            def emit(self, record):
                recs.append(record.getMessage())
        lg = logging.getLogger("codebasin.config")
        h = H()
        lg.addHandler(h)
        old_prop, old_level = lg.propagate, lg.level
        lg.propagate = False
        lg.setLevel(logging.WARNING)
        try:
            with contextlib.redirect_stderr(io.StringIO()):
                try:
                    cfgs = config.ArgumentParser(cc).parse_args(list(argv))
                except SystemExit:
                    return ["SystemExit"]
                except argparse.ArgumentError:
                    return ["Raise"]
                except Exception as e:  # noqa
                    return ["Err", type(e).__name__]
        finally:
            lg.removeHandler(h)
            lg.propagate, lg.level = old_prop, old_level
        if cc != CC:
            cfgs = [c for c in cfgs if c.pass_name == "default"]
        if len(cfgs) != 1 or cfgs[0].pass_name != "default":
            return ["Err", "passes", [c.pass_name for c in cfgs]]
        c = cfgs[0]

        def canon(l):
            return [x if isinstance(x, str) else ([] if x == [] else ["?", repr(x)]) for x in l]
        lists = [canon(c.defines), canon(c.include_paths), canon(c.include_files)]
        if any(m.startswith("Could not parse all arguments") for m in recs):
            return ["ArgErr"] + lists
        un = [m for m in recs if m.startswith("Unrecognized arguments: '")]
        extras = un[0][len("Unrecognized arguments: '"):-1] if un else ""
        return ["Ok"] + lists + [extras]

    def _split(self, s):
        import codebasin
        try:
            return ["Ok", list(codebasin.CompileCommand("f.c", command=s).arguments)]
        except ValueError as e:
            msg = str(e)
            return ["Err", "NoClosingQuotation" if "closing quotation" in msg else
                    "NoEscapedCharacter" if "escaped character" in msg else msg]

    def _database(self, argv, direct):
        """Both forms of a database entry through config.load_database; 'same' when they agree with `direct`."""
        from codebasin import config
        if self._root is None:
            self._root = common.scratch() / "c11db"
            self._root.mkdir(parents=True, exist_ok=True)
            (self._root / "f.c").write_text("int x;\n")
        root = str(self._root)
        db = self._root / "compile_commands.json"
        full = [CC] + list(argv)
        db.write_text(json.dumps([
            {"directory": root, "file": "f.c", "arguments": full},
            {"directory": root, "file": "f.c", "command": shlex.join(full)},
        ]))
        lg = logging.getLogger("codebasin")
        old = lg.level
        lg.setLevel(logging.CRITICAL)
        try:
            with contextlib.redirect_stderr(io.StringIO()):
                try:
                    entries = config.load_database(str(db), root)
                except SystemExit:
                    got = ["SystemExit"]
                except argparse.ArgumentError:
                    got = ["Raise"]
                except Exception as e:  # noqa
                    got = ["Err", type(e).__name__]
                else:
                    got = None
        finally:
            lg.setLevel(old)
        if got is not None:
            if direct[0] in ("SystemExit", "Raise") and got == direct:
                return "same"
            return got
        if direct[0] not in ("Ok", "ArgErr"):
            return ["db-ok-direct-not", direct[0]]
        if len(entries) != 2:
            return ["entries", len(entries)]
        try:
            want = {"defines": direct[1],
                    "include_paths": [os.path.abspath(os.path.join(root, p)) for p in direct[2]],
                    "include_files": direct[3]}
        except TypeError:
            return ["Err", "TypeError"]
        for e in entries:
            for k, v in want.items():
                if e[k] != v:
                    return ["differs", k, e[k], v]
        return "same"

    def _count(self, case, ia):
        """input distribution, recorded once per distinct case"""
        k = self.key(case)
        if k in self._seen:
            return
        self._seen.add(k)
        h = self._hist

        def inc(d, key):
            h[d][key] = h[d].get(key, 0) + 1
        if case["kind"] in ("split", "render"):
            inc("kind", case["kind"])
            inc("split_outcome" if case["kind"] == "split" else "render_outcome", ia[0] if ia[0] == "Ok" else ia[1])
            return
        if case["kind"] == "db":
            inc("kind", "database-history")
            inc("db_entries", str(len(case["entries"])))
            inc("db_outcome", ia[0])
            return
        if case["kind"] == "cc":
            inc("kind", "real-compiler")
            inc("real_compiler", case["cc"])
            inc("outcome_real_compiler", ia[0])
            return
        inc("kind", "argv-in-domain" if case.get("dom") else "argv-malformed")
        if case.get("db"):
            inc("kind", "argv-through-load_database")
        argv = self.argv(case)
        inc("argv_len", "%02d+" % min(len(argv) // 5 * 5, 40))
        inc("outcome" if case.get("dom") else "outcome_malformed", ia[0])
        for cls in {c for c, _ in class_instances(argv)}:
            inc("classes", cls)

    def _db_root(self):
        if self._root is None:
            self._root = common.scratch() / "c11db"
            self._root.mkdir(parents=True, exist_ok=True)
            (self._root / "f.c").write_text("int x;\n")
        for i in range(4):
            d = self._root / f"s{i}"
            if not d.exists():
                d.mkdir()
                (d / "f.c").write_text("int x;\n")
        return str(self._root)

    def _abs(self, paths):
        root = self._db_root()
        return [os.path.abspath(os.path.join(root, p)) for p in paths]

    def _load_db(self, case):
        """one load_database call over all entries; per entry (by source file) what it was given"""
        from codebasin import config
        root = self._db_root()
        db = self._root / "compile_commands_hist.json"
        doc = []
        for i, e in enumerate(case["entries"]):
            full = [case["cc"]] + flatten(e["items"])
            ent = {"directory": root, "file": f"s{i}/f.c"}
            if e["form"] == "arguments":
                ent["arguments"] = full
            else:
                ent["command"] = shlex.join(full)
            doc.append(ent)
        db.write_text(json.dumps(doc))
        lg = logging.getLogger("codebasin")
        old = lg.level
        lg.setLevel(logging.CRITICAL)
        try:
            with contextlib.redirect_stderr(io.StringIO()):
                try:
                    entries = config.load_database(str(db), root)
                except SystemExit:
                    return ["SystemExit"]
                except argparse.ArgumentError:
                    return ["Raise"]
                except Exception as e:  # noqa
                    return ["Err", type(e).__name__]
        finally:
            lg.setLevel(old)
        out = []
        for i in range(len(case["entries"])):
            mine = [x for x in entries if x["file"] == os.path.join(root, f"s{i}", "f.c") and x.get("pass_name", "default") == "default"]
            if len(mine) != 1:
                out.append(["entries", len(mine)])
            else:
                out.append([mine[0]["defines"], mine[0]["include_paths"], mine[0]["include_files"]])
        return ["Ok", out]

    def impl(self, case):
        if case["kind"] == "db":
            r = self._load_db(case)
            self._count(case, r)
            return r
        if case["kind"] in ("split", "render"):
            r = self._split(case["s"] if case["kind"] == "split" else render_cmd(case))
            self._count(case, r)
            return r
        argv = self.argv(case)
        if case["kind"] == "cc":
            direct = self._parse(argv, case["cc"])
            self._count(case, direct)
            return [direct]
        direct = self._parse(argv)
        self._count(case, direct)
        db = self._database(argv, direct) if case.get("db") else "n/a"
        return [direct, shlex.join(argv), self._split(shlex.join(argv)), db]

    # ------------------------------------------------------------ views
    def model_view(self, case, ans):
        if case["kind"] == "db":
            if case["cc"] != CC:
                return None
            out = []
            for res, _s in ans:
                if res[0] not in ("Ok", "ArgErr"):
                    return [res[0]]
                if any(not isinstance(x, str) for x in res[2]):
                    return ["Err", "TypeError"]
                out.append([res[1], self._abs(res[2]), res[3]])
            return ["Ok", out]
        if case["kind"] == "cc":
            return None            # compiler-specific tables are not modelled here (C12)
        if case["kind"] in ("split", "render"):
            return ans
        res, _s, cmd, sp, _safe = ans
        res = list(res)
        if res[0] == "Ok":
            res[4] = " ".join(res[4])
        db = "same" if case.get("db") else "n/a"
        if case.get("db") and res[0] in ("Ok", "ArgErr") and any(not isinstance(x, str) for x in res[2]):
            db = ["Err", "TypeError"]
        return [res, cmd, sp, db]

    def spec(self, case, ans):
        if case["kind"] == "split":
            return None
        if case["kind"] == "render":
            return ["Ok", ["".join(value_seg(sg) for sg in w) for w, _sep in case["words"]]]
        if case["kind"] == "db":
            # the property is per command: the single-command scanner mapped over the entries
            extra = self._cct[case["cc"]][2] if case["cc"] != CC else []
            out = []
            for i, e in enumerate(case["entries"]):
                py = scan_py(flatten(e["items"]) + extra)
                if ans is not None and ans not in ("PARSEERROR", "BADCASE", "UNKNOWN") and not extra:
                    if ans[i][1] != py and len(self._py_coq_spec_mismatch) < 3:
                        self._py_coq_spec_mismatch.append((flatten(e["items"]), ans[i][1], py))
                out.append([py[0], self._abs(py[1]), py[2]])
            return ["Ok", out]
        argv = self.argv(case)
        py = scan_py(argv)
        if ans is not None and ans not in ("PARSEERROR", "BADCASE", "UNKNOWN"):
            coq = ans[1]
            # the proved domain: inside it I = S is a theorem about M, so a failure there can never be a known finding
            if case.get("dom"):
                self._in_safe[self.key(case)] = bool(ans[4])
                if case["kind"] == "argv":
                    self._safe_count[bool(ans[4])] += 1
            if coq != py and len(self._py_coq_spec_mismatch) < 3:
                self._py_coq_spec_mismatch.append((argv, coq, py))
            lists = coq
        else:
            lists = py
        if case["kind"] == "cc":
            return [["Ok"] + scan_py(argv + self._cct[case["cc"]][2])]
        return [["Ok"] + lists, ["Ok", argv], "same" if case.get("db") else "n/a"]

    def impl_view_for_spec(self, case, ia):
        if case["kind"] in ("split", "render", "db"):
            return ia
        if case["kind"] == "cc":
            return [ia[0][:4]]
        return [ia[0][:4], ia[2], ia[3]]

    def in_domain(self, case, spec_ans):
        return case["kind"] == "render" or (case["kind"] in ("argv", "cc", "db") and bool(case.get("dom")))

    def nontrivial(self, case, ia):
        if case["kind"] == "db":
            # two entries with the same option names but different values
            per = [scan_py(flatten(e["items"])) for e in case["entries"]]
            return any(sum(map(len, x)) for x in per) and any(x != per[0] for x in per[1:])
        if case["kind"] == "render":
            return len(case["words"]) >= 2 and any(sg[0] != "P" for w, _ in case["words"] for sg in w)
        if case["kind"] not in ("argv", "cc"):
            return False
        s = scan_py(self.argv(case))
        n_rec = sum(len(x) for x in s)
        return n_rec >= 1 and len(case["items"]) > n_rec

    def classify(self, case, ia, sa):
        if case["kind"] not in ("argv", "cc"):
            return None
        is_cc = case["kind"] == "cc"
        if not is_cc and self._in_safe.get(self.key(case)):
            return None            # inside the proved domain: not attributable to any finding
        const = self._cct[case["cc"]][0] if is_cc else ()
        argv = self.argv(case)
        inst = class_instances(argv, const)
        if not inst:
            return None
        # the findings describe a normal return, or the caught ArgumentError for dash-value / const-flag-eq / the
        # ambiguous abbreviation -i: any other way of failing (an exception, SystemExit) is a different defect
        how = ia[0][0]
        kinds = {c for c, _ in inst}
        if how not in ("Ok", "ArgErr"):
            return None
        if how == "ArgErr" and not (kinds & {"dash-value", "const-flag-eq"} or ("abbrev" in kinds and "-i" in argv)):
            return None
        if not is_cc and (ia[1] != shlex.join(argv) or ia[2] != ["Ok", argv]):
            return None
        # narrow: the failure must disappear when only the class spellings are replaced
        rep = neutralise(argv, const)
        if class_instances(rep, const):
            return None
        rcase = dict(case, items=[[t] for t in rep], db=False)
        ria = self.impl(rcase)
        rsa = [["Ok"] + scan_py(rep + self._cct[case["cc"]][2])] if is_cc else [["Ok"] + scan_py(rep), ["Ok", rep], "n/a"]
        if self.impl_view_for_spec(rcase, ria) != rsa:
            return None
        return min(inst, key=lambda x: x[1])[0]

    def shrink(self, case, still_fails):
        if case["kind"] == "db":
            cur = case
            # fewer entries (at least one), then fewer option slots (the same slot in every entry)
            for i in reversed(range(len(cur["entries"]))):
                if len(cur["entries"]) > 1:
                    cand = dict(cur, entries=cur["entries"][:i] + cur["entries"][i + 1:])
                    if still_fails(cand):
                        cur = cand
            nslots = min(len(e["items"]) for e in cur["entries"])
            if all(len(e["items"]) == nslots for e in cur["entries"]):
                for j in reversed(range(nslots)):
                    cand = dict(cur, entries=[dict(e, items=e["items"][:j] + e["items"][j + 1:]) for e in cur["entries"]])
                    if still_fails(cand):
                        cur = cand
            return cur
        if case["kind"] not in ("argv", "cc"):
            return case
        mk = lambda its: dict(case, items=its)  # noqa
        return mk(common.shrink_list(case["items"], lambda its: still_fails(mk(its))))

    def self_tests(self):
        out = []
        for argv, coq, py in self._py_coq_spec_mismatch:
            out.append(f"Spec/C11.v scan_S and the harness' Python scanner disagree on {argv}: {coq} vs {py}")
        out += self._gcc_oracle()
        return out

    def _gcc_oracle(self):
        """S versus gcc: the scanner's reading of both spellings of the four options, their order, and the neutrality of
        other options, against what `gcc -E -dM -v` defines / searches and what `gcc -E` force-includes."""
        import re
        import shutil
        import subprocess
        gcc = shutil.which("gcc")
        self._oracle = {"cases": 0, "disagreements": 0, "available": bool(gcc)}
        if not gcc:
            return []
        root = common.scratch() / "c11gcc"
        root.mkdir(parents=True, exist_ok=True)
        for k in range(6):
            (root / f"d{k}").mkdir(exist_ok=True)
        for k in range(4):
            (root / f"h{k}.h").write_text(f"#define CBI_H{k} 1\n")
        (root / "e.c").write_text("")
        neutral = [["-O2"], ["-g3"], ["-ggdb"], ["-Wall"], ["-Wextra"], ["-std=gnu99"], ["-fPIC"], ["-ffast-math"], ["-pipe"], ["-w"],
                   ["-pthread"], ["-m64"], ["-funroll-loops"], ["-O"], ["-g"], ["-UCBI_NONE"], ["-U", "CBI_NONE"], ["-fopenmp-simd"],
                   ["-iquote", "d5"], ["-Wno-unused"], ["-fno-common"], ["-march=x86-64"]]
        problems = []
        rng = self.rng
        for _ in range(12 if self.tier == "quick" else 200):
            items = []
            for i in rng.sample(range(8), rng.randint(0, 4)):
                v = f"CBI_M{i}" + rng.choice(["", "=1", "=a b", "=x=y", "=\"q\"", "=-1", "="])
                items.append(["-D" + v] if rng.random() < 0.5 else ["-D", v])
            for k in rng.sample(range(5), rng.randint(0, 4)):
                flag = rng.choice(["-I", "-isystem"])
                items.append([flag + f"d{k}"] if rng.random() < 0.5 else [flag, f"d{k}"])
            for k in rng.sample(range(4), rng.randint(0, 3)):
                items.append([f"-includeh{k}.h"] if rng.random() < 0.5 else ["-include", f"h{k}.h"])
            for _j in range(rng.randint(0, 5)):
                items.append(list(rng.choice(neutral)))
            rng.shuffle(items)
            argv = flatten(items)
            want = scan_py(argv)
            self._oracle["cases"] += 1
            p1 = subprocess.run([gcc, "-E", "-dM", "-v", "-x", "c", "e.c"] + argv, cwd=root, capture_output=True, text=True, timeout=60)
            p2 = subprocess.run([gcc, "-E", "-x", "c", "e.c"] + argv, cwd=root, capture_output=True, text=True, timeout=60)
            if p1.returncode != 0 or p2.returncode != 0:
                problems.append(f"gcc rejected {argv}: {(p1.stderr + p2.stderr)[-200:]}")
                continue
            macros = {}
            for m in re.finditer(r"^#define (CBI_M\d+) ?(.*)$", p1.stdout, flags=re.M):
                macros[m.group(1)] = m.group(2)
            exp = {}
            for d in want[0]:
                name, eq, val = d.partition("=")
                exp[name] = val if eq else "1"
            sect = p1.stderr.split("#include <...> search starts here:")[1].split("End of search list.")[0]
            dirs = [l.strip() for l in sect.splitlines() if l.strip() and not l.strip().startswith("/")]
            incs = []
            for m in re.finditer(r'^# 1 "(?:\./)*(h\d\.h)"', p2.stdout, flags=re.M):
                if m.group(1) not in incs:
                    incs.append(m.group(1))
            got = [macros, dirs, incs]
            if got != [exp, want[1], want[2]]:
                self._oracle["disagreements"] += 1
                problems.append(f"S and gcc disagree on {argv}: S={[exp, want[1], want[2]]} gcc={got}")
        return problems[:3]

    def extra_coverage(self):
        return {"input_distribution": self._hist, "spec_oracle_gcc": getattr(self, "_oracle", None),
                "in_domain_cases_inside_proved_domain_safe": self._safe_count[True],
                "in_domain_cases_outside_safe": self._safe_count[False], "catalogue_entries": len(CATALOGUE),
                "exhaustive": "all vectors of <= %d items over %d reduced items; shlex.split over all strings of length <= %d over 7 letters"
                              % (3 if self.tier == "quick" else 4, len(SMALL_ITEMS), 4 if self.tier == "quick" else 6)}


CHECK = C11
