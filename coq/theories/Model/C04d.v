(* C04 — how the -I / -isystem options of a command line become the ordered search
   list (config.ArgumentParser.parse_args), parametrised by what the translator
   reads from the current source (Gen/C04_tables.v).  Definitions only. *)
From Coq Require Import Bool List String.
From CBI Require Import Model.C04 Gen.C04_tables.
Import ListNotations.

(* one -I / -isystem occurrence, in command-line order; true = -isystem *)
Definition dflag := (bool * path)%type.
Definition i_dirs (fl : list dflag) : list path := map snd (filter (fun x => negb (fst x)) fl).
Definition sys_dirs (fl : list dflag) : list path := map snd (filter (fun x => fst x) fl).

(* parse_args: the two options append to one list when they share a dest, to two lists
   otherwise; the configuration receives the expression the source passes *)
Definition configured_with (shares : bool) (e : paths_expr) (fl : list dflag) : list path :=
  let ip := if shares then map snd fl else i_dirs fl in
  let sp := if shares then [] else sys_dirs fl in
  match e with
  | PathsOnly => ip
  | PathsThenSystem => ip ++ sp
  | SystemThenPaths => sp ++ ip
  end.
Definition configured_M : list dflag -> list path := configured_with isystem_shares_dest config_paths.

(* a compiler searches every -I directory (in order) before every -isystem directory (in order) *)
Definition configured_S (fl : list dflag) : list path := i_dirs fl ++ sys_dirs fl.
