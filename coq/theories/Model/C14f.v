(* C14 - the binary64 side of report.py, operation by operation and in the same
   order as the Python: distance, divergence, coverage, average_coverage (with
   CPython 3.12's compensated sum()), the "% LOC" column and format(x, ".2f").
   binary64 is Coq's SpecFloat (the executable IEEE-754 specification that the
   kernel's primitive floats are specified against) at prec = 53, emax = 1024:
   pure Gallina on Z, so it is extracted with the rest of the model and the
   theorems about it are closed under the global context.  Proofs/C14f.v checks
   on the witnesses that the hardware floats (PrimFloat) give the same bits.
   Definitions only.  This file also defines run_C14. *)
From Coq Require Import ZArith String Bool List SpecFloat.
From CBI Require Import Lib.Data Model.C14.
Import ListNotations.
Local Open Scope string_scope.
Local Open Scope Z_scope.

Definition f64 := spec_float.
Definition fadd : f64 -> f64 -> f64 := SFadd 53 1024.
Definition fsub : f64 -> f64 -> f64 := SFsub 53 1024.
Definition fmul : f64 -> f64 -> f64 := SFmul 53 1024.
Definition fdiv : f64 -> f64 -> f64 := SFdiv 53 1024.
Definition fzero : f64 := S754_zero false.
(* float(n) for an int n >= 0: correctly rounded *)
Definition fz (n : Z) : f64 := binary_normalize 53 1024 n 0 false.
Definition f100 : f64 := fz 100.
Definition fnonzero (x : f64) : bool := match x with S754_zero _ => false | _ => true end.
Definition ffinite (x : f64) : bool := match x with S754_zero _ | S754_finite _ _ _ => true | _ => false end.

(* outcome of a Python expression that may raise ZeroDivisionError *)
Inductive fres := FVal (x : f64) | FZeroDiv.

(* ----- report.distance ----- *)
(* repaired form: integer accumulation, one division *)
Definition distance_f (sm : setmap) (p q : name) : fres :=
  let '(d, t) := dist_parts sm p q in
  if t =? 0 then FZeroDiv else FVal (fdiv (fz d) (fz t)).

(* the form before the repair: one division per row, added in dict order *)
Definition distance_old_f (sm : setmap) (p q : name) : fres :=
  let t := snd (dist_parts sm p q) in
  fold_left (fun acc r =>
               match acc with
               | FZeroDiv => FZeroDiv
               | FVal d =>
                   if xorb (has p (fst r)) (has q (fst r))
                   then (if t =? 0 then FZeroDiv else FVal (fadd d (fdiv (fz (snd r)) (fz t))))
                   else FVal d
               end) sm (FVal fzero).

(* ----- report.divergence over an explicit platform list ----- *)
Definition divergence_with (dist : name -> name -> fres) (ps : list name) : fres :=
  let prs := pairs ps in
  match fold_left (fun acc pq => match acc, dist (fst pq) (snd pq) with
                                 | FVal d, FVal x => FVal (fadd d x)
                                 | _, _ => FZeroDiv
                                 end) prs (FVal fzero) with
  | FZeroDiv => FZeroDiv
  | FVal d => match prs with
              | [] => FVal S754_nan
              | _ => FVal (fdiv d (fz (Z.of_nat (List.length prs))))
              end
  end.
(* repaired: platforms = sorted(extract_platforms(setmap)) *)
Definition divergence_f (sm : setmap) : fres := divergence_with (distance_f sm) (platforms_of sm).
(* before the repairs: list(set) order is the argument, per-row divisions *)
Definition divergence_old_f (sm : setmap) (order : list name) : fres :=
  divergence_with (distance_old_f sm) order.

(* ----- report.coverage ----- *)
Definition coverage_f (sm : setmap) (ps : list name) : f64 :=
  let '(u, t) := cov_parts sm ps in
  if t =? 0 then S754_nan else fmul (fdiv (fz u) (fz t)) f100.

(* CPython 3.12 sum() over floats: Neumaier compensation, started from the
   first item (int 0 + x) *)
Definition neumaier_step (st : f64 * f64) (x : f64) : f64 * f64 :=
  let '(f, c) := st in
  let t := fadd f x in
  let c' := if SFleb (SFabs x) (SFabs f) then fadd c (fadd (fsub f t) x) else fadd c (fadd (fsub x t) f) in
  (t, c').
Definition py_sum (l : list f64) : f64 :=
  match l with
  | [] => fzero
  | x :: r =>
      let '(f, c) := fold_left neumaier_step r (fadd fzero x, fzero) in
      if fnonzero c && ffinite c then fadd f c else f
  end.

(* report.average_coverage over an explicit iteration order of the platforms *)
Definition average_coverage_f (sm : setmap) (order : list name) : f64 :=
  match order with
  | [] => S754_nan
  | _ => fdiv (py_sum (map (fun p => coverage_f sm [p]) order)) (fz (Z.of_nat (List.length order)))
  end.

(* the "% LOC" column of summary *)
Definition percent_f (count total : Z) : fres :=
  if total =? 0 then FZeroDiv else FVal (fmul (fdiv (fz count) (fz total)) f100).

(* ----- format(x, ".2f"): the decimal with two places nearest to the exact
   binary value, ties to even; the answer is the number of hundredths ----- *)
Inductive dec2 := D2 (hundredths : Z) | D2nan | D2inf (neg : bool).
Definition fmt2 (x : f64) : dec2 :=
  match x with
  | S754_zero _ => D2 0
  | S754_nan => D2nan
  | S754_infinity s => D2inf s
  | S754_finite s m e =>
      let mag :=
        if 0 <=? e then Zpos m * 100 * 2 ^ e
        else let num := Zpos m * 100 in
             let den := 2 ^ (- e) in
             let q := num / den in
             let r := num mod den in
             if 2 * r <? den then q
             else if den <? 2 * r then q + 1
             else if Z.even q then q else q + 1 in
      D2 (if s then - mag else mag)
  end.

(* ----- encoding ----- *)
Definition enc_f (x : f64) : data :=
  match x with
  | S754_zero s => DList [DStr "z"; of_bool s]
  | S754_nan => DStr "nan"
  | S754_infinity s => DList [DStr "inf"; of_bool s]
  | S754_finite s m e => DList [DStr "f"; of_bool s; DInt (Zpos m); DInt e]
  end.
Definition enc_d2 (d : dec2) : data :=
  match d with D2 h => DInt h | D2nan => DStr "nan" | D2inf s => DList [DStr "inf"; of_bool s] end.
Definition enc_fx (x : f64) : data := DList [enc_f x; enc_d2 (fmt2 x)].
Definition enc_fres (r : fres) : data :=
  match r with FVal x => enc_fx x | FZeroDiv => DStr "ZeroDivisionError" end.

(* everything float-valued that summary/clustering print for one table:
   (% LOC per summary row, distance matrix, divergence, coverage, average coverage) *)
Definition float_report (sm : setmap) : data :=
  let ps := platforms_of sm in
  let t := total_sloc sm in
  DList [of_list (fun r => enc_fres (percent_f (snd r) t)) (summary_rows sm);
         of_list (fun p => of_list (fun q => enc_fres (distance_f sm p q)) ps) ps;
         enc_fres (divergence_f sm);
         enc_fx (coverage_f sm ps);
         enc_fx (average_coverage_f sm ps);
         (* 1 iff the compensated sum gives the same bits for the reversed platform order *)
         of_bool (data_eqb (enc_f (average_coverage_f sm ps)) (enc_f (average_coverage_f sm (rev ps))))].

(* one row of cbi-tree for a node with table [sm] under root platforms [ps]:
   (member letters, sum of all counts, coverage, average coverage) *)
Definition tree_meta (ps : list name) (sm : setmap) : data :=
  let mine := platforms_of sm in
  DList [of_list (fun p => of_bool (set_mem ncmp p mine)) ps;
         DInt (total_sloc sm);
         enc_d2 (fmt2 (coverage_f sm ps));
         enc_d2 (fmt2 (average_coverage_f sm ps))].

Fixpoint prefixes {A} (l : list A) : list (list A) :=
  match l with [] => [] | x :: r => [] :: map (cons x) (prefixes r) end.
Fixpoint is_prefix (d p : pset) : bool :=
  match d, p with
  | [], _ => true
  | a :: d', b :: p' => ceqb ncmp a b && is_prefix d' p'
  | _ :: _, [] => false
  end.

(* report.files: FileTree.insert adds each member's own table to every ancestor,
   except for symbolic links, whose table stays on their own row *)
Definition tree_rows (events : list event) (enumeration : list pfile) : data :=
  let files := iter_codebase enumeration in
  let tabs := map (fun f => (pf_path f, (is_link f, sm_build (file_contribs events f)))) files in
  let solid := filter (fun t => negb (fst (snd t))) tabs in
  let root := sm_build (flat_map (fun t => snd (snd t)) solid) in
  let ps := platforms_of root in
  let dirs := set_of pcmp (flat_map (fun f => prefixes (pf_path f)) files) in
  DList [of_list (fun d => DList [enc_pset d;
                                   tree_meta ps (sm_build (flat_map (fun t => snd (snd t)) (filter (fun t => is_prefix d (fst t)) solid)))]) dirs;
         of_list (fun t => DList [enc_pset (fst t); tree_meta ps (snd (snd t))]) tabs].

(* ----- the driver entry ----- *)
(* T case: (T rows (perm ...) (porder ...))  : a table given as rows in dict insertion order,
   further insertion orders, and orders (index lists into the sorted platform list) in
   which the platforms are handed to average_coverage.  Answer: ((integer report, float report) of the first order,
   1 iff every other order yields the same report, rows under the OLD key for
   the first order, 1 iff the OLD rows are the same under every order).
   P case: (P files events cov_events (perm ...)) : parsed files in enumeration
   order, associate() calls in configuration order for the analysis and for the
   coverage run, and permutations (files perm, events perm, cov perm).
   Answer: (((integer report, float report), coverage export, cbi-tree rows), 1 iff invariant). *)
Definition t_answer (rows : list (pset * Z)) : data :=
  let sm := sm_build rows in
  DList [enc_table (table_report sm); float_report sm].

Definition run_Tf (rows : list (pset * Z)) (perms porders : list (list Z)) : data :=
  let base := t_answer rows in
  let sm := sm_build rows in
  let old := enc_rows (summary_rows_old sm) in
  DList [base;
         of_bool (forallb (fun ix => data_eqb base (t_answer (pick rows ix))) perms);
         old;
         of_bool (forallb (fun ix => data_eqb old (enc_rows (summary_rows_old (sm_build (pick rows ix))))) perms);
         (* average_coverage(setmap, platforms) with the platforms handed over in the given orders *)
         of_list (fun ix => enc_fx (average_coverage_f sm (pick (platforms_of sm) ix))) porders].

Definition p_answer_f (files : list pfile) (events cev : list event) : data :=
  let sm := get_setmap events (iter_codebase files) in
  DList [DList [enc_table (table_report sm); float_report sm];
         enc_export (coverage_export cev files);
         tree_rows events files].

Definition run_Pf (files : list pfile) (events cev : list event) (perms : list (list Z * (list Z * list Z))) : data :=
  let base := p_answer_f files events cev in
  DList [base;
         of_bool (forallb (fun p => data_eqb base
                    (p_answer_f (pick files (fst p)) (pick events (fst (snd p))) (pick cev (snd (snd p))))) perms)].

(* F case: (F files events (perm ...)) : finder.find + get_setmap observed in process.
   Answer: ((setmap rows in dict INSERTION order, per member in iteration order the
   nodes with their lines and platform set), 1 iff invariant under the permutations
   (files perm, events perm)). *)
Definition f_answer (files : list pfile) (events : list event) : data :=
  let it := iter_codebase files in
  DList [enc_rows (get_setmap events it);
         of_list (fun f => DList [enc_pset (pf_path f);
                                  of_list (fun iv => DList [of_list DInt (snd iv); enc_pset (assoc_of events (pf_real f) (fst iv))])
                                          (number 0 (pf_nodes f))]) it].

Definition run_Ff (files : list pfile) (events : list event) (perms : list (list Z * list Z)) : data :=
  let base := f_answer files events in
  DList [base; of_bool (forallb (fun p => data_eqb base (f_answer (pick files (fst p)) (pick events (snd p)))) perms)].

Definition run_C14 (d : data) : data :=
  match d with
  | DList [DStr "T"; rows; perms; porders] =>
      match as_list_of dec_row rows, as_list_of (as_list_of as_int) perms, as_list_of (as_list_of as_int) porders with
      | Some r, Some p, Some o => run_Tf r p o
      | _, _, _ => bad_case
      end
  | DList [DStr "P"; files; events; cev; perms] =>
      match as_list_of dec_pfile files, as_list_of dec_event events, as_list_of dec_event cev,
            as_list_of dec_perm3 perms with
      | Some f, Some e, Some c, Some p => run_Pf f e c p
      | _, _, _, _ => bad_case
      end
  | DList [DStr "F"; files; events; perms] =>
      match as_list_of dec_pfile files, as_list_of dec_event events,
            as_list_of (as_pair (as_list_of as_int) (as_list_of as_int)) perms with
      | Some f, Some e, Some p => run_Ff f e p
      | _, _, _ => bad_case
      end
  | _ => bad_case
  end.
