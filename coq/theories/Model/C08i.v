(* C08 — codec for the correspondence driver. *)
From Coq Require Import Bool Arith ZArith String List.
From CBI Require Import Lib.Res Lib.Data Model.C01 Spec.C01 Model.C04 Spec.C04 Model.C04i Model.C08 Spec.C08.
Import ListNotations.
Local Open Scope string_scope.

Definition dec_platform (d : data) : option (pname * list entry) :=
  match d with
  | DList [DStr n; es] => option_map (fun es => (n, es)) (as_list_of dec_entry es)
  | _ => None
  end.
Definition dec_config (d : data) : option config := as_list_of dec_platform d.

Definition dec_weights (d : data) : option (list (path * list nat)) :=
  as_list_of (as_pair dec_path (as_list_of as_nat)) d.
Fixpoint wt_lookup (f : path) (l : list (path * list nat)) : list nat :=
  match l with [] => [] | (q, ws) :: r => if path_eqb f q then ws else wt_lookup f r end.
Definition wt_of (wts : list (path * list nat)) (x : nodeid) : nat := nth (snd x) (wt_lookup (fst x) wts) 0.

Definition enc_triple (t : triple) : data := DList [DStr (fst t); enc_path (fst (snd t)); of_nat (snd (snd t))].
Definition enc_amap (r : res amap) : data :=
  match r with
  | Ok am => DList [DStr "Ok"; of_list enc_triple am]
  | Err e => DList [DStr "Err"; DStr e]
  end.
Definition enc_setmap (sm : setmap) : data :=
  of_list (fun kc => DList [of_list DStr (fst kc); of_nat (snd kc)]) sm.

(* case: (files weights config) ;
   answer: (M S hoisted cached prefix-cached setmap_of_M) where the setmap counts every file *)
Definition run_C08 (d : data) : data :=
  match d with
  | DList [files; wts; cfg] =>
      match as_list_of dec_file files, dec_weights wts, dec_config cfg with
      | Some fs, Some wts, Some cfg =>
          let m := find_cb fs include_depth (fun _ => true) cfg in
          DList [enc_amap m;
                 enc_amap (spec_S fs include_depth cfg);
                 enc_amap (find_hoisted fs include_depth cfg);
                 enc_amap (find_cached fs include_depth cfg);
                 enc_amap (find_prefix fs include_depth cfg);
                 match m with
                 | Ok am => enc_setmap (setmap_M (names_of cfg) (wt_of wts) (fun _ => true) am fs)
                 | Err _ => DList []
                 end]
      | _, _, _ => bad_case
      end
  | _ => bad_case
  end.
