(* Model of config.ArgumentParser.parse_args for a compiler without options of
   its own: argparse.ArgumentParser.parse_known_args (CPython 3.12.1) specialised
   to the option table regenerated from the source (Gen/C11_tables.v).
   Definitions only; proofs are in Proofs/C11.v.

   Reading of argparse.py that is modelled (line numbers of 3.12.1):
   - _parse_optional (2253) / _get_option_tuples (2311)  -> [parse_optional]
   - the 'A'/'O'/'-' pattern of _parse_known_args (1950)  -> [classify]
   - consume_optional / consume_positionals and the main loop (2003-2142)
     -> [run], a one-token-at-a-time state machine: [pend] is the option whose
     value is awaited (match_argument against the rest of the pattern), [pos]
     says whether the single positional `file nargs="*"` is still unused
     (PAvail), is swallowing the current run of arguments (PActive) or is
     spent (PDone: further arguments go to the unrecognised list).
   - _get_values removes the first "--" from the value strings, so an explicit
     value "--" becomes the empty list: [value_of] returns None for it.
   The accumulating Python lists become lists built front to back; on an
   ArgumentError the values emitted so far are what the namespace holds. *)
From Coq Require Import Ascii String Bool Arith List.
From CBI Require Import Lib.Data Lib.C11_types Gen.C11_tables.
Import ListNotations.
Local Open Scope string_scope.

(* ---------- strings ---------- *)
Fixpoint strip_prefix (p s : string) : option string :=
  match p with
  | EmptyString => Some s
  | String a p' =>
      match s with
      | String b s' => if Ascii.eqb a b then strip_prefix p' s' else None
      | EmptyString => None
      end
  end.
Definition prefixb (p s : string) : bool :=
  match strip_prefix p s with Some _ => true | None => false end.

(* str.split(c, 1) when c occurs *)
Fixpoint split_at (c : ascii) (s : string) : option (string * string) :=
  match s with
  | EmptyString => None
  | String a r =>
      if Ascii.eqb a c then Some (EmptyString, r)
      else match split_at c r with
           | Some (x, y) => Some (String a x, y)
           | None => None
           end
  end.
Fixpoint has_char (c : ascii) (s : string) : bool :=
  match s with
  | EmptyString => false
  | String a r => Ascii.eqb a c || has_char c r
  end.

Definition ch_dash : ascii := "-"%char.
Definition ch_eq : ascii := "="%char.
Definition ch_dot : ascii := "."%char.
Definition ch_space : ascii := " "%char.
Definition ch_lf : ascii := ascii_of_nat 10.

Definition starts_dash (s : string) : bool :=
  match s with String a _ => Ascii.eqb a ch_dash | EmptyString => false end.

(* _negative_number_matcher = '^-\d+$|^-\d*\.\d+$' ; '$' also matches before a final newline *)
Definition is_dig (c : ascii) : bool :=
  let n := nat_of_ascii c in Nat.leb 48 n && Nat.leb n 57.
Fixpoint span_digits (s : string) : nat * string :=
  match s with
  | String c r => if is_dig c then let (n, t) := span_digits r in (S n, t) else (0, s)
  | EmptyString => (0, s)
  end.
Definition at_end (s : string) : bool :=
  match s with
  | EmptyString => true
  | String c EmptyString => Ascii.eqb c ch_lf
  | _ => false
  end.
Definition negnum (s : string) : bool :=
  match s with
  | String a r =>
      if Ascii.eqb a ch_dash then
        let (n, r1) := span_digits r in
        (Nat.ltb 0 n && at_end r1)
        || match r1 with
           | String d r2 =>
               if Ascii.eqb d ch_dot then let (m, r3) := span_digits r2 in Nat.ltb 0 m && at_end r3 else false
           | EmptyString => false
           end
      else false
  | EmptyString => false
  end.

(* ---------- the option table: parser._option_string_actions ---------- *)
Definition optmap_of (tbl : list optdef) : list (string * optdef) :=
  flat_map (fun o => map (fun s => (s, o)) (ostrs o)) tbl.
Fixpoint lookup (s : string) (m : list (string * optdef)) : option optdef :=
  match m with
  | [] => None
  | (k, o) :: r => if String.eqb k s then Some o else lookup s r
  end.

(* ---------- classification of one argument (_parse_optional) ---------- *)
(* CA: positional 'A';  CDash: the "--" marker;  CO act explicit_arg: 'O' *)
Inductive cls := CA | CDash | CO (act : option optdef) (expl : option string).

Definition take2 (s : string) : string :=
  match s with String a (String b _) => String a (String b EmptyString) | _ => s end.
Definition drop2 (s : string) : string :=
  match s with String _ (String _ r) => r | _ => EmptyString end.
Definition second_is_dash (s : string) : bool :=
  match s with String _ (String b _) => Ascii.eqb b ch_dash | _ => false end.

(* _get_option_tuples for an argument of two or more characters *)
Definition option_tuples (m : list (string * optdef)) (s : string) : list cls :=
  if second_is_dash s then []            (* two prefix characters: only with allow_abbrev *)
  else flat_map (fun ko : string * optdef =>
                   if String.eqb (fst ko) (take2 s) then [CO (Some (snd ko)) (Some (drop2 s))]
                   else if prefixb s (fst ko) then [CO (Some (snd ko)) None]   (* abbreviation, not guarded by allow_abbrev *)
                   else []) m.

(* "if '=' in arg_string": the part before the first '=' is an option string *)
Definition by_eq (m : list (string * optdef)) (s : string) : option cls :=
  match split_at ch_eq s with
  | Some (b, e) => match lookup b m with Some o => Some (CO (Some o) (Some e)) | None => None end
  | None => None
  end.

(* no interpretation as an option of this parser *)
Definition fallback (s : string) : cls :=
  if negnum s then CA else if has_char ch_space s then CA else CO None None.

Inductive perr := SystemExit.
Definition parse_optional (m : list (string * optdef)) (s : string) : perr + cls :=
  match s with
  | EmptyString => inr CA
  | String a r =>
      if negb (Ascii.eqb a ch_dash) then inr CA
      else match lookup s m with
      | Some o => inr (CO (Some o) None)
      | None =>
        match r with
        | EmptyString => inr CA
        | _ =>
          match by_eq m s with
          | Some c => inr c
          | None =>
            match option_tuples m s with
            | _ :: _ :: _ => inl SystemExit            (* parser.error("ambiguous option") *)
            | [c] => inr c
            | [] => inr (fallback s)
            end
          end
        end
      end
  end.

Fixpoint classify (m : list (string * optdef)) (after_dd : bool) (l : list string) : perr + list (string * cls) :=
  match l with
  | [] => inr []
  | s :: r =>
      if after_dd then
        match classify m true r with inr t => inr ((s, CA) :: t) | inl e => inl e end
      else if String.eqb s "--" then
        match classify m true r with inr t => inr ((s, CDash) :: t) | inl e => inl e end
      else
        match parse_optional m s with
        | inl e => inl e
        | inr c => match classify m false r with inr t => inr ((s, c) :: t) | inl e => inl e end
        end
  end.

(* ---------- consuming ---------- *)
Definition value := option string.     (* None = the empty list left by _get_values for "--" *)
Record acc := { defs : list value; paths : list value; syspaths : list value; files : list value; extras : list string }.
Definition acc0 : acc := {| defs := []; paths := []; syspaths := []; files := []; extras := [] |}.

Inductive outcome :=
  | Parsed (a : acc)           (* parse_known_args returned *)
  | ArgError (a : acc)         (* ArgumentError raised; [a] = what the namespace held *)
  | Exit.                      (* the original parser.error -> SystemExit(2) *)

Definition on_acc (f : acc -> acc) (o : outcome) : outcome :=
  match o with Parsed a => Parsed (f a) | ArgError a => ArgError (f a) | Exit => Exit end.
Definition push (d : dest) (v : value) : outcome -> outcome :=
  on_acc (fun a =>
    match d with
    | DDef => {| defs := v :: defs a; paths := paths a; syspaths := syspaths a; files := files a; extras := extras a |}
    | DPath => {| defs := defs a; paths := v :: paths a; syspaths := syspaths a; files := files a; extras := extras a |}
    | DSys => {| defs := defs a; paths := paths a; syspaths := v :: syspaths a; files := files a; extras := extras a |}
    | DFile => {| defs := defs a; paths := paths a; syspaths := syspaths a; files := v :: files a; extras := extras a |}
    | DIgn => a
    end).
Definition push_extra (s : string) : outcome -> outcome :=
  on_acc (fun a => {| defs := defs a; paths := paths a; syspaths := syspaths a; files := files a; extras := s :: extras a |}).

Definition value_of (s : string) : value := if String.eqb s "--" then None else Some s.

Inductive posst := PAvail | PActive | PDone.
Definition close_run (p : posst) : posst := match p with PActive => PDone | _ => p end.

Fixpoint run (pos : posst) (pend : option optdef) (toks : list (string * cls)) : outcome :=
  match toks with
  | [] =>
      match pend with
      | Some o => match onargs o with N1 => ArgError acc0 | NOpt => Parsed acc0 end
      | None => Parsed acc0
      end
  | (s, c) :: r =>
      let continue_ :=                (* no value is awaited *)
        match c with
        | CA | CDash =>
            match pos with
            | PAvail | PActive => run PActive None r
            | PDone => push_extra s (run PDone None r)
            end
        | CO None _ => push_extra s (run (close_run pos) None r)
        | CO (Some o) (Some v) => push (odest o) (value_of v) (run (close_run pos) None r)
        | CO (Some o) None => run (close_run pos) (Some o) r
        end in
      match pend with
      | None => continue_
      | Some o =>
          match c with
          | CA => push (odest o) (value_of s) (run pos None r)
          | _ => match onargs o with
                 | N1 => ArgError acc0       (* expected one argument *)
                 | NOpt => continue_
                 end
          end
      end
  end.

(* [error_raises]: parser.error raises ArgumentError (before any action ran) instead of exiting *)
Definition parse_known_args (tbl : list optdef) (error_raises : bool) (argv : list string) : outcome :=
  match classify (optmap_of tbl) false argv with
  | inl SystemExit => if error_raises then ArgError acc0 else Exit
  | inr toks => run PAvail None toks
  end.

(* ---------- config.ArgumentParser.parse_args, default pass, no compiler options ---------- *)
Inductive result :=
  | ROk (a : acc)              (* configuration returned; extras named in a warning *)
  | RWarned (a : acc)          (* ArgumentError caught: warning, configuration from the partial namespace *)
  | RRaise                     (* ArgumentError propagates *)
  | RExit.                     (* SystemExit(2) propagates *)

Definition parse_args_with (tbl : list optdef) (caught error_raises : bool) (argv : list string) : result :=
  match parse_known_args tbl error_raises argv with
  | Parsed a => ROk a
  | ArgError a => if caught then RWarned a else RRaise
  | Exit => RExit
  end.

Definition parse_args (argv : list string) : result :=
  parse_args_with c11_options c11_argerror_caught c11_error_raises argv.

(* what the namespace holds, per destination ... *)
Definition lists4_of (r : result) : option (list value * list value * list value * list value) :=
  match r with
  | ROk a | RWarned a => Some (defs a, paths a, syspaths a, files a)
  | _ => None
  end.
(* ... and the three lists of the returned configuration:
   PreprocessorConfiguration(args.defines.copy(), args.include_paths + args.system_include_paths,
                             args.include_files.copy(), pass_name)                                  *)
Definition lists_of (r : result) : option (list value * list value * list value) :=
  match r with
  | ROk a | RWarned a => Some (defs a, List.app (paths a) (syspaths a), files a)
  | _ => None
  end.
