(* Model of codebasin/report.py : extract_platforms, coverage, average_coverage,
   distance, divergence  (the repaired code: distance returns NaN on an empty
   union; as in the code it adds count/total row by row).
   Definitions only; proofs are in Proofs/C07*.v.

   A setmap (dict frozenset[str] -> int, insertion ordered) is an association
   list of rows (platform set as a list of names, count).  Python floats are
   modelled by exact rationals Q; NaN is None.  Every iteration over a Python
   set is an explicit list (the theorems quantify over its permutations). *)
From Coq Require Import ZArith QArith String Bool List.
From CBI Require Import Lib.Data.
Import ListNotations.
Local Open Scope Z_scope.

Definition pset := list string.
Definition row := (pset * Z)%type.
Definition table := list row.

(* `p in pset` *)
Definition mem (p : string) (s : pset) : bool := existsb (String.eqb p) s.

(* extract_platforms: list(set(chain.from_iterable(setmap.keys()))) in SOME order;
   the canonical order used here is irrelevant (C07_perm_invariant). *)
Definition extract_platforms (t : table) : list string :=
  nodup string_dec (concat (map fst t)).

(* `if not platforms: platforms = union of all keys` *)
Definition sel_platforms (t : table) (arg : option (list string)) : list string :=
  match arg with
  | None => extract_platforms t
  | Some [] => extract_platforms t
  | Some ps => ps
  end.

(* any([p in platforms for p in subset]) *)
Definition hits (ps : list string) (s : pset) : bool := existsb (fun p => mem p ps) s.

(* one iteration of the loop in coverage: acc = (used, total) *)
Definition cov_step (ps : list string) (acc : Z * Z) (r : row) : Z * Z :=
  let total := snd acc + snd r in
  match fst r with
  | [] => (fst acc, total)                                   (* subset == frozenset(): continue *)
  | _ => if hits ps (fst r) then (fst acc + snd r, total) else (fst acc, total)
  end.

Definition cov_counts (ps : list string) (t : table) : Z * Z := fold_left (cov_step ps) t (0, 0).

(* (used / total) * 100.0 *)
Definition pct (used total : Z) : Q := ((inject_Z used / inject_Z total) * 100)%Q.

Definition coverage_on (t : table) (ps : list string) : option Q :=
  let ut := cov_counts ps t in
  if snd ut =? 0 then None else Some (pct (fst ut) (snd ut)).

Definition coverage (t : table) (arg : option (list string)) : option Q :=
  coverage_on t (sel_platforms t arg).

(* float addition with NaN propagation *)
Definition oadd (a b : option Q) : option Q :=
  match a, b with Some x, Some y => Some (x + y)%Q | _, _ => None end.
(* sum([...]) : left fold from 0 *)
Definition osum (l : list (option Q)) : option Q := fold_left oadd l (Some 0%Q).

Definition odiv_n (s : option Q) (n : nat) : option Q :=
  match s with Some x => Some (x / inject_Z (Z.of_nat n))%Q | None => None end.

Definition average_on (t : table) (ps : list string) : option Q :=
  match ps with
  | [] => None                                               (* len(platforms) == 0 *)
  | _ => odiv_n (osum (map (fun p => coverage_on t [p]) ps)) (length ps)
  end.

Definition average_coverage (t : table) (arg : option (list string)) : option Q :=
  average_on t (sel_platforms t arg).

(* first loop of distance *)
Definition dist_total (t : table) (p q : string) : Z :=
  fold_left (fun acc r => if mem p (fst r) || mem q (fst r) then acc + snd r else acc) t 0.
(* second loop of distance:  d = 0; d += count / float(total)  row by row.
   [Qred] keeps the representation of the running rational in lowest terms (it is
   the identity on rationals as values, Qred_correct); without it the extracted
   model multiplies the denominator by total at every row. *)
Definition dist_frac (t : table) (p q : string) (total : Z) : Q :=
  fold_left (fun (acc : Q) (r : row) =>
               if xorb (mem p (fst r)) (mem q (fst r)) then Qred (acc + inject_Z (snd r) / inject_Z total)%Q else acc) t 0%Q.

Definition distance (t : table) (p q : string) : option Q :=
  let total := dist_total t p q in
  if total =? 0 then None                                    (* the repaired empty-union case *)
  else Some (dist_frac t p q total).

(* it.combinations(platforms, 2), in its order *)
Fixpoint pairs {A} (l : list A) : list (A * A) :=
  match l with
  | [] => []
  | x :: r => map (pair x) r ++ pairs r
  end.

Definition divergence_on (t : table) (ps : list string) : option Q :=
  let ds := map (fun pq => distance t (fst pq) (snd pq)) (pairs ps) in
  match ds with
  | [] => None                                               (* npairs == 0 *)
  | _ => odiv_n (osum ds) (length ds)
  end.

Definition divergence (t : table) : option Q := divergence_on t (extract_platforms t).

(* ------------------------------------------------------------------ *)
(* case decoding / answer encoding for the extracted driver            *)
Definition dec_row (d : data) : option row := as_pair (as_list_of as_str) as_int d.
Definition dec_arg (d : data) : option (option (list string)) :=
  match d with
  | DStr _ => Some None
  | DList _ => match as_list_of as_str d with Some l => Some (Some l) | None => None end
  | _ => None
  end.
Definition enc_q (o : option Q) : data :=
  match o with
  | None => DStr "NaN"
  | Some q => let r := Qred q in DList [DInt (Qnum r); DInt (Zpos (Qden r))]
  end.

Definition answers_M (t : table) (args : list (option (list string))) (prs : list (string * string)) : data :=
  DList [ of_list (fun a => enc_q (coverage t a)) args;
          of_list (fun a => enc_q (average_coverage t a)) args;
          of_list (fun pq => enc_q (distance t (fst pq) (snd pq))) prs;
          enc_q (divergence t);
          of_list DStr (extract_platforms t) ].
