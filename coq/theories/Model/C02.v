(* Model of codebasin/preprocessor.py : ExpressionEvaluator (expression, primary,
   term, call, __expression_list, __character_value, __make_value,
   __apply_unary_op, __apply_binary_op, evaluate) over the GENERATED tables
   (Gen/C02_tables.v), plus the `defined` handling of MacroExpander.expand for
   object-like macros with identifier-free bodies.
   The code modelled is the repository AS FIXED by the three `fix:` commits
   (C operator semantics on intmax_t/uintmax_t; octal literals and every integer
   suffix; escape sequences in character constants).
   Definitions only; proofs are in Proofs/C02*.v. *)
From Coq Require Import ZArith Bool String Ascii List.
From CBI Require Import Lib.Data Gen.C02_tables.
Import ListNotations.
Local Open Scope Z_scope.

(* ---------- tokens, as Lexer.tokenize leaves them ---------- *)
Inductive kind := KNum | KChar | KStr | KId | KOp | KPunct | KUnk.
Definition kind_eqb (a b : kind) : bool :=
  match a, b with
  | KNum, KNum | KChar, KChar | KStr, KStr | KId, KId | KOp, KOp | KPunct, KPunct | KUnk, KUnk => true
  | _, _ => false
  end.
Record token := Tok { tkind : kind; tspell : string }.
Definition is_tok (k : kind) (s : string) (t : token) : bool := kind_eqb (tkind t) k && String.eqb (tspell t) s.

Fixpoint lookup {B} (s : string) (tbl : list (string * B)) : option B :=
  match tbl with
  | [] => None
  | (k, v) :: r => if String.eqb s k then Some v else lookup s r
  end.

(* ---------- values: np.int64 / np.uint64 ---------- *)
Inductive val := V (z : Z) (u : bool).
Definition vz (v : val) : Z := let (z, _) := v in z.
Definition vu (v : val) : bool := let (_, u) := v in u.
Definition two63 : Z := 9223372036854775808.
Definition two64 : Z := 18446744073709551616.

(* __make_value: `value &= 0xFFFFFFFFFFFFFFFF` on a Python int is reduction modulo 2**64 *)
Definition make_value (z : Z) (u : bool) : val :=
  let m := z mod two64 in
  if u then V m true else V (if two63 <=? m then m - two64 else m) false.

Definition b2z (b : bool) : Z := if b then 1 else 0.

(* errors that are not ParseError propagate to evaluate() *)
Inductive err := EValue | EOverflow | EType.

(* __apply_unary_op *)
Definition apply_unary (op : string) (v : val) : option val :=
  let (z, u) := v in
  if String.eqb op "-" then Some (make_value (- z) u)
  else if String.eqb op "+" then Some (make_value z u)
  else if String.eqb op "!" then Some (make_value (b2z (z =? 0)) false)
  else if String.eqb op "~" then Some (make_value (Z.lnot z) u)
  else None.

(* __apply_binary_op; None = ValueError("Not a binary operator.") *)
Definition apply_binary (op : string) (l r : val) : option val :=
  let (a, ua) := l in
  let (b, ub) := r in
  if String.eqb op "||" then Some (make_value (b2z (negb (a =? 0) || negb (b =? 0))) false)
  else if String.eqb op "&&" then Some (make_value (b2z (negb (a =? 0) && negb (b =? 0))) false)
  else if String.eqb op "<<" || String.eqb op ">>" then
    if negb ((0 <=? b) && (b <? 64)) then Some (make_value 0 ua)
    else if String.eqb op "<<" then Some (make_value (Z.shiftl a b) ua)
    else Some (make_value (Z.shiftr a b) ua)
  else
    let u := ua || ub in
    let a := if u then a mod two64 else a in
    let b := if u then b mod two64 else b in
    if String.eqb op "|" then Some (make_value (Z.lor a b) u)
    else if String.eqb op "^" then Some (make_value (Z.lxor a b) u)
    else if String.eqb op "&" then Some (make_value (Z.land a b) u)
    else if String.eqb op "==" then Some (make_value (b2z (a =? b)) false)
    else if String.eqb op "!=" then Some (make_value (b2z (negb (a =? b))) false)
    else if String.eqb op "<" then Some (make_value (b2z (a <? b)) false)
    else if String.eqb op "<=" then Some (make_value (b2z (a <=? b)) false)
    else if String.eqb op ">" then Some (make_value (b2z (b <? a)) false)
    else if String.eqb op ">=" then Some (make_value (b2z (b <=? a)) false)
    else if String.eqb op "+" then Some (make_value (a + b) u)
    else if String.eqb op "-" then Some (make_value (a - b) u)
    else if String.eqb op "*" then Some (make_value (a * b) u)
    else if String.eqb op "/" || String.eqb op "%" then
      if b =? 0 then Some (make_value 0 u)
      else
        let q0 := Z.abs a / Z.abs b in
        let q := if negb (Bool.eqb (a <? 0) (b <? 0)) then - q0 else q0 in
        if String.eqb op "/" then Some (make_value q u) else Some (make_value (a - q * b) u)
    else None.

(* the ternary: make_value(int(true_result if condition else false_result), unsigned) *)
Definition cond_value (c t f : val) : val :=
  make_value (if vz c =? 0 then vz f else vz t) (vu t || vu f).

(* ---------- Python's int(str, base) for base in {2, 8, 10, 16}, ASCII input ---------- *)
Definition digit_val (c : ascii) : option Z :=
  let n := zascii c in
  if (48 <=? n) && (n <=? 57) then Some (n - 48)
  else if (97 <=? n) && (n <=? 122) then Some (n - 87)
  else if (65 <=? n) && (n <=? 90) then Some (n - 55)
  else None.
Definition is_us (c : ascii) : bool := zascii c =? 95.

Fixpoint scan_digits (base : Z) (prev_us seen : bool) (acc : Z) (cs : list ascii) : option Z :=
  match cs with
  | [] => if prev_us then None else if seen then Some acc else None
  | c :: r =>
      if is_us c then (if prev_us then None else scan_digits base true seen acc r)
      else match digit_val c with
           | Some d => if d <? base then scan_digits base false true (acc * base + d) r else None
           | None => None
           end
  end.

Definition base_letter (base : Z) (c : ascii) : bool :=
  let n := zascii c in
  if base =? 16 then (n =? 120) || (n =? 88)
  else if base =? 8 then (n =? 111) || (n =? 79)
  else if base =? 2 then (n =? 98) || (n =? 66)
  else false.

Definition py_int (cs : list ascii) (base : Z) : option Z :=
  let cs1 :=
    match cs with
    | z :: x :: r =>
        if (zascii z =? 48) && base_letter base x
        then match r with u :: r' => if is_us u then r' else r | [] => r end
        else cs
    | _ => cs
    end in
  match cs1 with
  | c :: _ => if is_us c then None else scan_digits base false false 0 cs1
  | [] => None
  end.

(* ---------- literal conversion in term() ---------- *)
Fixpoint starts_with (p s : list ascii) : bool :=
  match p, s with
  | [], _ => true
  | a :: p', b :: s' => Ascii.eqb a b && starts_with p' s'
  | _ :: _, [] => false
  end.
Definition ends_with (sfx s : list ascii) : bool := starts_with (rev sfx) (rev s).

Fixpoint first_suffix (value : list ascii) (sfxs : list string) : option string :=
  match sfxs with
  | [] => None
  | s :: r => if ends_with (list_of_string s) value then Some s else first_suffix value r
  end.

Definition lower (c : ascii) : ascii :=
  let n := zascii c in if (65 <=? n) && (n <=? 90) then ascii_of_z (n + 32) else c.
Definition has_marker (sfx : string) : bool :=
  match list_of_string unsigned_marker with
  | [m] => existsb (fun c => Ascii.eqb (lower c) m) (list_of_string sfx)
  | _ => false
  end.

Definition np_int64 (z : Z) : err + val := if (- two63 <=? z) && (z <? two63) then inr (V z false) else inl EOverflow.
Definition np_uint64 (z : Z) : err + val := if (0 <=? z) && (z <? two64) then inr (V z true) else inl EOverflow.

Definition lit_value (spelling : string) : err + val :=
  let cs := list_of_string spelling in
  let '(base, value) :=
    match lookup (string_of_list (firstn 2 cs)) literal_bases with
    | Some b => (b, skipn 2 cs)
    | None =>
        match literal_zero_rule with
        | Some (p, zb) => if starts_with (list_of_string p) cs then (zb, cs) else (literal_default_base, cs)
        | None => (literal_default_base, cs)
        end
    end in
  let '(sfx, digits) :=
    match first_suffix value literal_suffixes with
    | Some s => (Some s, rev (skipn (String.length s) (rev value)))
    | None => (None, value)
    end in
  match py_int digits base with
  | None => inl EValue
  | Some n =>
      match sfx with
      | Some s => if has_marker s then np_uint64 n else np_int64 n
      | None => np_int64 n
      end
  end.

(* __character_value on the spelling without the quotes *)
Definition char_value (spelling : string) : err + val :=
  match list_of_string spelling with
  | c :: r =>
      if zascii c =? 92 then
        match lookup (string_of_list r) simple_escapes with
        | Some v => np_int64 v
        | None =>
            match r with
            | x :: h => if zascii x =? 120
                        then match py_int h 16 with Some n => np_int64 n | None => inl EValue end
                        else match py_int r 8 with Some n => np_int64 n | None => inl EValue end
            | [] => inl EValue
            end
        end
      else match r with [] => np_int64 (zascii c) | _ => inl EType end
  | [] => inl EType
  end.

(* ---------- the parser ----------
   POk v rest : value and the tokens from the cursor on;
   PFail rest : ParseError, with the tokens from the cursor position the code leaves behind
                (observable through __expression_list, which swallows the error and goes on);
   PFatal e   : an exception that no `except ParseError` catches;
   POut       : fuel exhausted (excluded or proved unreachable by the theorems). *)
Inductive pres := POk (v : val) (rest : list token) | PFail (rest : list token) | PFatal (e : err) | POut.

Definition zero : val := V 0 false.

Section With.
Variable E : nat -> list token -> pres.       (* the recursive call self.expression(min_precedence) *)

(* the `while True: match ","; expression()` loop of __expression_list; result = cursor afterwards *)
Fixpoint commas (n : nat) (ts : list token) : err + option (list token) :=
  match n with
  | O => inr None
  | S n' =>
      match ts with
      | c :: r =>
          if is_tok KPunct "," c then
            match E 0%nat r with
            | POk _ r' => commas n' r'
            | PFail r' => inr (Some r')
            | PFatal e => inl e
            | POut => inr None
            end
          else inr (Some ts)
      | [] => inr (Some ts)
      end
  end.

Definition expression_list (ts : list token) : err + option (list token) :=
  match E 0%nat ts with
  | POk _ r => commas (S (List.length r)) r
  | PFail r => inr (Some r)
  | PFatal e => inl e
  | POut => inr None
  end.

Definition term (ts : list token) : pres :=
  match ts with
  | [] => PFail ts
  | t :: r =>
      match tkind t with
      | KNum => match lit_value (tspell t) with inr v => POk v r | inl e => PFatal e end
      | KChar => match char_value (tspell t) with inr v => POk v r | inl e => PFatal e end
      | KId =>
          (* call(): identifier "(" expression-list ")" ; on ParseError fall back to the identifier *)
          match r with
          | p :: r1 =>
              if is_tok KPunct "(" p then
                match expression_list r1 with
                | inl e => PFatal e
                | inr None => POut
                | inr (Some (c :: r2)) => if is_tok KPunct ")" c then POk zero r2 else POk zero r
                | inr (Some []) => POk zero r
                end
              else POk zero r
          | [] => POk zero r
          end
      | _ => PFail ts
      end
  end.

Definition primary (ts : list token) : pres :=
  match ts with
  | [] => PFail ts
  | t :: r =>
      if kind_eqb (tkind t) KOp then
        match lookup (tspell t) unary_operators with
        | Some (prec, _) =>
            match E prec r with
            | POk v r' => match apply_unary (tspell t) v with Some x => POk x r' | None => PFatal EValue end
            | PFail _ => PFail ts
            | PFatal e => PFatal e
            | POut => POut
            end
        | None => PFail ts
        end
      else if is_tok KPunct "(" t then
        match E 0%nat r with
        | POk v (c :: r') => if is_tok KPunct ")" c then POk v r' else PFail ts
        | POk _ [] => PFail ts
        | PFail _ => PFail ts
        | PFatal e => PFatal e
        | POut => POut
        end
      else term ts
  end.
End With.

Definition rhs_prec (prec : nat) (a : assoc) : nat := match a with LEFT => S prec | RIGHT => prec end.

Fixpoint expression (f : nat) (minp : nat) (ts : list token) {struct f} : pres :=
  match f with
  | O => POut
  | S f' =>
      match primary (expression f') ts with
      | POk v r => loop f' minp v r
      | other => other
      end
  end
with loop (f : nat) (minp : nat) (v : val) (ts : list token) {struct f} : pres :=
  match f with
  | O => POut
  | S f' =>
      match ts with
      | [] => POk v ts
      | t :: r =>
          match lookup (tspell t) binary_operators with
          | None => POk v ts
          | Some (prec, a) =>
              if (minp <=? prec)%nat then
                if kind_eqb (tkind t) KOp then
                  if String.eqb (tspell t) "?" then
                    match expression f' 0%nat r with
                    | POk tv r1 =>
                        match r1 with
                        | c :: r2 =>
                            if is_tok KOp ":" c then
                              match expression f' (rhs_prec prec a) r2 with
                              | POk fv r3 => loop f' minp (cond_value v tv fv) r3
                              | other => other
                              end
                            else PFail r1
                        | [] => PFail r1
                        end
                    | other => other
                    end
                  else
                    match expression f' (rhs_prec prec a) r with
                    | POk w r1 =>
                        match apply_binary (tspell t) v w with
                        | Some x => loop f' minp x r1
                        | None => PFatal EValue
                        end
                    | other => other
                    end
                else PFail ts
              else POk v ts
          end
      end
  end.

(* evaluate(): ParseError and every other ValueError become ParseError; the rest propagates *)
Inductive outcome := OVal (v : val) | OParseError | OOverflowError | OTypeError | OAttributeError | OUnsupported | OOutOfFuel.

Definition fuel_for (ts : list token) : nat := (2 * List.length ts + 4)%nat.

Definition evaluate_fuel (f : nat) (ts : list token) : outcome :=
  match expression f 0%nat ts with
  | POk v _ => OVal v
  | PFail _ => OParseError
  | PFatal EValue => OParseError
  | PFatal EOverflow => OOverflowError
  | PFatal EType => OTypeError
  | POut => OOutOfFuel
  end.
Definition evaluate (ts : list token) : outcome := evaluate_fuel (fuel_for ts) ts.

(* ---------- MacroExpander.expand, restricted ----------
   env: object-like macros (name, replacement tokens).  Only identifier-free replacement
   lists are modelled (expansion proper is C03's subject): anything else is OUnsupported. *)
Definition num_tok (b : bool) : token := Tok KNum (if b then "1" else "0")%string.
Definition is_id (t : token) : bool := kind_eqb (tkind t) KId.

Fixpoint expand (env : list (string * list token)) (ts : list token) : outcome + list token :=
  match ts with
  | [] => inr []
  | t :: r =>
      if is_id t then
        if String.eqb (tspell t) "defined" then
          match r with
          | [] => inl OAttributeError                       (* peek_tok() is None: tok.token *)
          | t1 :: r1 =>
              if String.eqb (tspell t1) "(" then
                match r1 with
                | [] => inr []                              (* consume_tok -> EndofParse: what was produced so far *)
                | id :: r2 =>
                    match r2 with
                    | [] => inl OAttributeError             (* paren is None: paren.token *)
                    | p :: r3 =>
                        if negb (String.eqb (tspell p) ")") then inl OParseError
                        else if negb (is_id id) then inl OParseError
                        else match expand env r3 with
                             | inr out => inr (num_tok (match lookup (tspell id) env with Some _ => true | None => false end) :: out)
                             | inl e => inl e
                             end
                    end
                end
              else if negb (is_id t1) then inl OParseError
              else match expand env r1 with
                   | inr out => inr (num_tok (match lookup (tspell t1) env with Some _ => true | None => false end) :: out)
                   | inl e => inl e
                   end
          end
        else
          match lookup (tspell t) env with
          | Some body =>
              if existsb is_id body then inl OUnsupported
              else match expand env r with inr out => inr (body ++ out) | inl e => inl e end
          | None => match expand env r with inr out => inr (t :: out) | inl e => inl e end
          end
      else match expand env r with inr out => inr (t :: out) | inl e => inl e end
  end.

(* IfNode.evaluate_for_platform *)
Definition evaluate_for_platform (env : list (string * list token)) (ts : list token) : outcome :=
  match expand env ts with
  | inl e => e
  | inr ts' => evaluate ts'
  end.
