(* Instance of the C03 model for the code as it is now, codec, and
   [run_C03]: one case in, M's and S's answers out.
   case   = (macros input)
   macro  = (via hl mtoks name isfun params variadic btoks)
            via 0 = `#define`, 1 = `-DHEAD=value`, 2 = `-DHEAD` ; hl = number of tokens of HEAD (for -D);
            mtoks = tokens of the definition as the real Lexer produced them (M parses them itself);
            name/isfun/params/variadic/btoks = the structured definition for S
   token  = (kind white text)
   answer = (M S)  with  M = (Ok (spelling...) (prev_white...)) | (Err msg) | (DefErr index msg)
                         S = (Ok (spelling...)) | (Err msg)
   Definitions only. *)
From Coq Require Import ZArith String Ascii Bool List.
From CBI Require Import Lib.Data Lib.Res Model.C03tok Model.C03 Spec.C03.
From CBI Require Gen.C03_tables.
Import ListNotations.
Local Open Scope string_scope.
Local Open Scope list_scope.

(* ---- the behaviours that `fix:` commits changed; the original code was lead = true, cat_fix = false, base = Some "None", rescan = true, va_fix = false, str_white = false, va_whole = false, resub_fix = false ---- *)
Definition cur_lead : bool := false.                    (* stringify keeps a leading blank *)
Definition cur_cat_fix : bool := true.                (* ## beside an empty argument *)
Definition cur_base : option string := None.
Definition cur_va_fix : bool := true.                   (* variable arguments always pre-expanded *)
Definition cur_str_white : bool := true.                (* # result carries the white space of the # token *)
Definition cur_va_whole : bool := true.                 (* variable argument collected whole *)
Definition cur_resub_fix : bool := true.                (* # / ## results are final *)
Definition cur_rescan : bool := false.                  (* splice leaves pos at the start of the insertion *)    (* str(ident) of the base stream in no_expand *)

Definition fuel_M : nat := 200 * 100.
Definition fuel_S : nat := 40 * 100.

Definition expand_cur (tb : table) (l : list tok) : res (list tok) :=
  expand cur_lead cur_cat_fix cur_str_white cur_resub_fix cur_base cur_rescan cur_va_fix cur_va_whole Gen.C03_tables.max_level tb fuel_M l.

(* Platform.define: only if absent *)
Definition define (tb : table) (m : macro) : table :=
  match get_macro tb (m_name m) with Some _ => tb | None => tb ++ [(m_name m, m)] end.

(* how a definition reaches the platform *)
Inductive via := ViaDefine | ViaD (head_length : nat) (sep : bool) | ViaDorig.
Definition macro_of (v : via) (l : list tok) : res macro :=
  match v with
  | ViaDefine => macro_from_define l
  | ViaD hl sep => macro_from_dash_d l hl sep
  | ViaDorig => macro_from_deftokens_orig l
  end.

Fixpoint build_table (i : nat) (defs : list (via * list tok)) (tb : table) : table + (nat * string) :=
  match defs with
  | [] => inl tb
  | (v, l) :: r =>
      match macro_of v l with
      | Ok m => build_table (S i) r (define tb m)
      | Err e => inr (i, e)
      end
  end.

(* ---------- codec ---------- *)
Definition dec_kind (z : Z) : option tkind :=
  match z with
  | 0%Z => Some KNum | 1%Z => Some KChar | 2%Z => Some KStr | 3%Z => Some KId
  | 4%Z => Some KOp | 5%Z => Some KPunct | 6%Z => Some KUnk | _ => None
  end.
Definition dec_tok (d : data) : option tok :=
  match d with
  | DList [DInt k; w; DStr s] =>
      match dec_kind k, as_bool w with
      | Some k', Some w' => Some (mkTok k' w' s true)
      | _, _ => None
      end
  | _ => None
  end.
Definition btok_of (t : tok) : btok := mkB (tk t) (tw t) (tt t).

Record cmacro := mkC { c_via : via; c_mtoks : list tok; c_name : string; c_isfun : bool;
                       c_params : list string; c_variadic : bool; c_body : list tok }.
Definition dec_via (v hl : data) : option via :=
  match v, as_nat hl with
  | DInt 0%Z, Some _ => Some ViaDefine
  | DInt 1%Z, Some n => Some (ViaD n true)
  | DInt 2%Z, Some n => Some (ViaD n false)
  | _, _ => None
  end.
Definition dec_macro (d : data) : option cmacro :=
  match d with
  | DList [v; hl; mt; DStr name; isfun; ps; var; bt] =>
      match dec_via v hl, as_list_of dec_tok mt, as_bool isfun, as_list_of as_str ps, as_bool var, as_list_of dec_tok bt with
      | Some v', Some m, Some f, Some p, Some va, Some b => Some (mkC v' m name f p va b)
      | _, _, _, _, _, _ => None
      end
  | _ => None
  end.

Definition stable_of (cs : list cmacro) : stable :=
  map (fun c => (c_name c, if c_isfun c then SFun (c_params c) (c_variadic c) (map btok_of (c_body c))
                           else SObj (map btok_of (c_body c)))) cs.

Definition kind_code (k : tkind) : Z :=
  match k with KNum => 0 | KChar => 1 | KStr => 2 | KId => 3 | KOp => 4 | KPunct => 5 | KUnk => 6 end%Z.
Definition enc_sp (k : tkind) (s : string) : data := DStr (spell k s).

Definition enc_M (r : res (list tok)) : data :=
  match r with
  | Ok l => DList [DStr "Ok"; DList (map (fun t => enc_sp (tk t) (tt t)) l)]
  | Err e => DList [DStr "Err"; DStr e]
  end.
(* the same with the prev_white flags, for the correspondence run *)
Definition enc_Mw (r : res (list tok)) : data :=
  match r with
  | Ok l => DList [DStr "Ok"; DList (map (fun t => enc_sp (tk t) (tt t)) l); DList (map (fun t => of_bool (tw t)) l)]
  | Err e => DList [DStr "Err"; DStr e]
  end.
Definition enc_S (r : res (list (tkind * string))) : data :=
  match r with
  | Ok l => DList [DStr "Ok"; DList (map (fun t => enc_sp (fst t) (snd t)) l)]
  | Err e => DList [DStr "Err"; DStr e]
  end.

Definition run_M_case (cs : list cmacro) (input : list tok) : data :=
  match build_table 0 (map (fun c => (c_via c, c_mtoks c)) cs) [] with
  | inr (i, e) => DList [DStr "DefErr"; of_nat i; DStr e]
  | inl tb => enc_M (expand_cur tb input)
  end.
Definition run_Mw_case (cs : list cmacro) (input : list tok) : data :=
  match build_table 0 (map (fun c => (c_via c, c_mtoks c)) cs) [] with
  | inr (i, e) => DList [DStr "DefErr"; of_nat i; DStr e]
  | inl tb => enc_Mw (expand_cur tb input)
  end.
Definition run_S_case (cs : list cmacro) (input : list tok) : data :=
  enc_S (run_spec fuel_S (stable_of cs) (map btok_of input)).

Definition run_C03 (d : data) : data :=
  match d with
  | DList [ms; inp] =>
      match as_list_of dec_macro ms, as_list_of dec_tok inp with
      | Some cs, Some input => DList [run_Mw_case cs input; run_S_case cs input]
      | _, _ => bad_case
      end
  | _ => bad_case
  end.
