(* C13 - codec for the correspondence driver.
   case   : (cwd rootdir fs entries)
              fs      = ((name ... name) is_dir) ...        names root-first
              entry   = (dir? file? argv?)   each "?" is () for absent or (x)
   answer : (M S K)
              M = (Ok ((file (inc ...)) ...) (warning ...)) | (Err kind)
              S = None | (Some (sout ...))      locations root-first
              K = (flag ...) kernel view agrees with the lexical S, per entry
   case   : (P a b)   answer : (normpath(a) join(a,b) abspath(a) with cwd b, basename(a) suffix(a) isabs(a)) *)
From Coq Require Import Bool Arith Ascii String List.
From CBI Require Import Lib.Data Lib.Res Model.C13p Model.C13fs Model.C13 Spec.C13 Spec.C13db.
Import ListNotations.
Local Open Scope string_scope.

Definition dstr (d : data) : option str := option_map list_of_string (as_str d).
Definition dopt {A} (f : data -> option A) (d : data) : option (option A) :=
  match d with
  | DList [] => Some None
  | DList [x] => option_map Some (f x)
  | _ => None
  end.
Definition dec_entry (d : data) : option entry :=
  match d with
  | DList [a; b; c] =>
      match dopt dstr a, dopt dstr b, dopt (as_list_of dstr) c with
      | Some a, Some b, Some c => Some {| e_dir := a; e_file := b; e_argv := c |}
      | _, _, _ => None
      end
  | _ => None
  end.
Definition dec_obj (d : data) : option (loc * bool) :=
  match d with
  | DList [p; k] => match as_list_of dstr p, as_bool k with
                    | Some p, Some k => Some (rev p, k) | _, _ => None end
  | _ => None
  end.

Definition estr (x : str) : data := DStr (string_of_list x).
Definition eloc (l : loc) : data := of_list estr (rev l).
Definition enc_warn (w : warn) : data :=
  match w with
  | WMissing p => DList [DStr "missing"; estr p]
  | WUnsupported => DList [DStr "unsupported"]
  | WNoFiles => DList [DStr "nofiles"]
  end.
Definition enc_M (r : res (list out_entry * list warn)) : data :=
  match r with
  | Err e => DList [DStr "Err"; DStr e]
  | Ok (o, w) => DList [DStr "Ok"; of_list (fun x => DList [estr (o_file x); of_list estr (o_incs x)]) o; of_list enc_warn w]
  end.
Definition enc_sout (o : s_out) : data :=
  match o with
  | SOpen f incs => DList [DStr "open"; eloc f; of_list eloc incs]
  | SSkipUnsupported => DList [DStr "unsupported"]
  | SSkipMissing f => DList [DStr "missing"; eloc f]
  end.

Definition k_flags (fs : fsys) (root : loc) (es : list entry) (outs : list s_out) : list bool :=
  map (fun eo : entry * s_out =>
         let (e, o) := eo in
         match e_file e, e_argv e with
         | Some f, Some a => k_agrees fs root (e_dir e) f (extract_incs (tl a)) o
         | _, _ => true
         end) (combine es outs).

(* second case form, for the direct correspondence of the posixpath/pathlib model:
   (P a b)  ->  (normpath a, join a b, abspath b a, basename a, suffix a, isabs a) *)
Definition run_paths (a b : str) : data :=
  DList [estr (normpath a); estr (join a b); estr (abspath b a); estr (basename a); estr (suffix a);
         of_bool (isabs a); estr (splitext_ext a)].

Definition run_C13 (d : data) : data :=
  match d with
  | DList [DStr "P"; a; b] =>
      match dstr a, dstr b with
      | Some a, Some b => run_paths a b
      | _, _ => bad_case
      end
  | DList [c; r; f; es] =>
      match dstr c, dstr r, as_list_of dec_obj f, as_list_of dec_entry es with
      | Some cwd, Some rootdir, Some fs, Some es =>
          let root := resolve (cwdloc cwd) rootdir in
          let so := s_db fs root es in
          DList [enc_M (load_database fs cwd rootdir es);
                 of_option (of_list enc_sout) so;
                 match so with Some outs => of_list of_bool (k_flags fs root es outs) | None => DList [] end]
      | _, _, _, _ => bad_case
      end
  | _ => bad_case
  end.
