(* C06 - driver entry: decodes one case, runs the model M (Model/C06.v) and the
   executable parts of the specification S (Spec/C06.v), encodes both answers.
   Definitions only. *)
From Coq Require Import ZArith String Bool Arith List.
From CBI Require Import Lib.Data Lib.Res Model.C06 Spec.C06.
Import ListNotations.
Local Open Scope string_scope.

Definition dec_node (d : data) : option node :=
  match d with
  | DList [ls; DInt n; ps] =>
      match as_list_of as_int ls, as_list_of as_str ps with
      | Some l, Some p => Some {| nlines := l; nnum := n; nplat := p |}
      | _, _ => None
      end
  | _ => None
  end.
Definition dec_file (d : data) : option file :=
  match d with
  | DList [cs; lk; ti; DStr id; ns] =>
      match as_list_of as_str cs, as_bool lk, as_bool ti, as_list_of dec_node ns with
      | Some c, Some l, Some t, Some n => Some {| fpath := c; flink := l; ftarget_in := t; fid := id; fnodes := n |}
      | _, _, _, _ => None
      end
  | _ => None
  end.
Definition dec_levels (d : data) : option (option nat) :=
  match d with
  | DList [] => Some None
  | DList [x] => match as_nat x with Some k => Some (Some k) | None => None end
  | _ => None
  end.

Definition enc_key (k : pset) : data := of_list DStr k.
Definition enc_setmap (m : setmap) : data := of_list (fun kv => DList [enc_key (fst kv); DInt (snd kv)]) m.
Definition enc_zs (l : list Z) : data := of_list DInt l.
Definition enc_path (p : list string) : data := of_list DStr p.
Definition enc_summary (r : res (list srow * Z)) : data :=
  match r with
  | Err e => DList [DStr "Err"; DStr e]
  | Ok (rows, total) =>
      DList [DStr "Ok"; of_list (fun r => DList [enc_key (skey r); DInt (scount r); DInt (stotal r)]) rows; DInt total]
  end.
Definition enc_entry (e : entry) : data :=
  DList [enc_path (epath e); DStr (eid e); enc_zs (eused e); enc_zs (eunused e)].
Definition enc_dump (x : nat * tnode) : data :=
  DList [of_nat (fst x); DStr (tname (snd x)); of_bool (tdir (snd x)); of_bool (tlink (snd x)); enc_setmap (tsm (snd x))].
Definition enc_row (r : row) : data :=
  DList [of_nat (rdepth r); DStr (rname r); of_bool (rdir r); of_bool (rlink r);
         of_list of_bool (rmask r); DInt (rtotal r); DInt (rused r); enc_zs (rper r)].
Definition enc_report (x : list string * list row) : data :=
  DList [of_list DStr (fst x); of_list enc_row (snd x)].

(* ---- S side ---- *)
Definition nonempty (k : pset) : bool := negb (is_empty k).
Definition enc_figs (U : list string) (sum : (pset -> bool) -> Z) (has : string -> bool) : list data :=
  [DInt (sum (fun _ => true)); DInt (sum nonempty);
   of_list (fun p => DList [of_bool (has p); DInt (sum (mem p))]) U].
Definition dir_has (prune : bool) (p : list string) (files : list file) (x : string) : bool :=
  existsb (fun f => shown prune f && negb (flink f) && strict_prefix p (fpath f) &&
                    existsb (fun n => mem x (nplat n)) (fnodes f)) files.
Definition enc_spec_tree (U : list string) (prune : bool) (files : list file) : data :=
  DList [ of_list (fun p => DList (enc_path p :: enc_figs U (fun P => spec_dir P prune p files) (dir_has prune p files)))
                  (spec_dirs prune files);
          of_list (fun f => DList (enc_path (fpath f) :: of_bool (flink f) ::
                                   enc_figs U (fun P => nodes_sum P (fnodes f))
                                            (fun x => existsb (fun n => mem x (nplat n)) (fnodes f))))
                  (filter (shown prune) files) ].

Definition run_C06 (d : data) : data :=
  match d with
  | DList [fs; us; lv] =>
      match as_list_of dec_file fs, as_list_of as_str us, dec_levels lv with
      | Some files, Some U, Some levels =>
          let m := get_setmap files in
          DList [
            DList [ enc_setmap m;
                    enc_summary (summary m);
                    of_list enc_entry (export files);
                    of_list enc_dump (dump 0 (files_tree false files));
                    enc_report (report_files U false None files);
                    enc_report (report_files U false levels files);
                    enc_report (report_files U true None files);
                    enc_report (report_files U true levels files) ];
            DList [ enc_setmap (spec_buckets files);
                    DInt (sloc files);
                    of_list (fun f => DList [enc_path (fpath f); DStr (fid f); enc_zs (spec_used f); enc_zs (spec_unused f)]) files;
                    enc_spec_tree U false files;
                    enc_spec_tree U true files ] ]
      | _, _, _ => bad_case
      end
  | _ => bad_case
  end.
