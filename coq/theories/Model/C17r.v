(* C17 — codec and entry point of the extracted driver: runs M (Model/C17.v)
   and S (Spec/C17.v) on one text.  Definitions only.
   case   : the text (a string)
   answer : ( M S C )   M = (Ok ((isdir (line ...)) ...)) | (Err msg)
                        S = (wf ((line isdir) ...) wf_x)
                        C = (same ((isdir (line ...)) ...)): same = 1 iff the directive lines of the
                            Fortran path are those of c_file_source(directives_only=True) *)
From Coq Require Import ZArith Bool Ascii String List.
From CBI Require Import Lib.Res Lib.Data Model.C17 Spec.C17.
Import ListNotations.
Local Open Scope string_scope.

Definition enc_node (n : node) : data := DList [of_bool (fst n); of_list of_nat (snd n)].
Definition enc_nodes (r : res (list node)) : data :=
  match r with
  | Ok ns => DList [DStr "Ok"; of_list enc_node ns]
  | Err e => DList [DStr "Err"; DStr e]
  end.

Definition is_dir_fll (l : fll) : bool := cat_eqb (f_cat l) CPPDIR.
Definition is_dir_cll (l : cll) : bool := cat_eqb (c_cat l) CPPDIR.

Definition nat_list_eqb (a b : list nat) : bool :=
  (Nat.eqb (List.length a) (List.length b)) && forallb (fun p => Nat.eqb (fst p) (snd p)) (combine a b).

(* directive lines reaching the parser from a Fortran file that were NOT produced by the C pass *)
Definition dirs_c (ls : list pline) : res (list (list nat)) :=
  rmap (fun l => map c_lines (filter is_dir_cll l)) (c_source true ls).
Definition dirs_f (ls : list pline) : res (list (list nat)) :=
  rmap (fun l => map f_lines (filter is_dir_fll l)) (f_source ls).

Definition enc_dirs (r : res (list (list nat))) : data :=
  match r with Ok l => DList [DStr "Ok"; of_list (of_list of_nat) l] | Err e => DList [DStr "Err"; DStr e] end.

Definition run_C17 (d : data) : data :=
  match d with
  | DStr s =>
      let ls := split_lines [] (list_of_string s) in
      DList [ enc_nodes (parse_fortran ls);
              DList [of_bool (wf ls); of_list (fun p => DList [of_nat (fst p); of_bool (snd p)]) (S_lines ls); of_bool (wf_x ls)];
              DList [enc_dirs (dirs_f ls); enc_dirs (dirs_c ls)] ]
  | _ => bad_case
  end.
