(* C10 — the analysis of Model/C10.v instantiated with C09's model of CodeBase.__contains__
   (Model/C09.v: source-file extension, location under the root, pathspec.GitIgnoreSpec on
   the root-relative path): full gitignore lines - negation, anchoring, directory-only,
   "*" and "**" - as pathspec reads them.  The file system of the C10 world has regular
   files only (no links, so Path.resolve is the identity; links are C15's subject).
   C09's files are used, not modified.  Definitions only. *)
From Coq Require Import Bool Arith String List.
From CBI Require Import Lib.Res Model.C01 Model.C04 Model.C08 Model.C10.
From CBI Require Model.C09.
Import ListNotations.
Local Open Scope string_scope.
Local Open Scope list_scope.

Definition fs9 (fs : fsys) : C09.fsys := map (fun fl => (fst fl, C09.KFile)) fs.
Definition cb9 (root : path) (lines : list string) : C09.codebase :=
  {| C09.cb_roots := [root]; C09.cb_lines := lines |}.

(* f in CodeBase(root, exclude_patterns=lines); a pattern error is not a membership answer *)
Definition member_git (fs : fsys) (root : path) (lines : list string) (f : path) : bool :=
  match C09.contains_resolved (fs9 fs) (cb9 root lines) f with Ok b => b | Err _ => false end.

(* GitIgnoreSpec.from_lines raises on the first membership test when a line is invalid *)
Definition analyse_git (fs : fsys) (fuel : nat) (root : path) (xs ts : list string)
    (w : nodeid -> nat) (cfg : config) : res (amap * setmap) :=
  match C09.compile false (effective xs ts) with
  | C09.CPats _ => analyse_cli (member_git fs root) fs fuel xs ts w cfg
  | C09.CErr => Err "PatternError"
  | C09.CUnsup => Err "Unsupported: pattern outside the modelled gitignore fragment"
  end.
Definition analyse_git_skipping (fs : fsys) (fuel : nat) (root : path) (xs ts : list string)
    (w : nodeid -> nat) (cfg : config) : res (amap * setmap) :=
  match C09.compile false (effective xs ts) with
  | C09.CPats _ => analyse_skipping_m (member_git fs root (effective xs ts)) fs fuel w cfg
  | C09.CErr => Err "PatternError"
  | C09.CUnsup => Err "Unsupported: pattern outside the modelled gitignore fragment"
  end.
