(* Model of shlex.quote / shlex.join and of shlex.split (POSIX mode,
   whitespace_split, no comment characters) as used by
   CompileCommand.arguments on the `command` string of a database entry.
   Follows shlex.py of CPython 3.12.1 (read_token).  Definitions only. *)
From Coq Require Import Ascii String Bool Arith List.
From CBI Require Import Lib.Data.
Import ListNotations.

Definition word := list ascii.

Definition c_sq : ascii := "'"%char.
Definition c_dq : ascii := """"%char.
Definition c_bs : ascii := "\"%char.
Definition c_sp : ascii := " "%char.

(* shlex.whitespace = ' \t\r\n' *)
Definition is_ws (c : ascii) : bool :=
  let n := nat_of_ascii c in Nat.eqb n 32 || Nat.eqb n 9 || Nat.eqb n 13 || Nat.eqb n 10.

(* _find_unsafe = re.compile(r'[^\w@%+=:,./-]', re.ASCII).search *)
Definition safe_char (c : ascii) : bool :=
  let n := nat_of_ascii c in
  (Nat.leb 48 n && Nat.leb n 57) || (Nat.leb 65 n && Nat.leb n 90) || (Nat.leb 97 n && Nat.leb n 122)
  || Nat.eqb n 95 (* _ *) || Nat.eqb n 64 (* @ *) || Nat.eqb n 37 (* % *) || Nat.eqb n 43 (* + *)
  || Nat.eqb n 61 (* = *) || Nat.eqb n 58 (* : *) || Nat.eqb n 44 (* , *) || Nat.eqb n 46 (* . *)
  || Nat.eqb n 47 (* / *) || Nat.eqb n 45 (* - *).

(* s.replace("'", "'\"'\"'") *)
Fixpoint esc_sq (w : word) : word :=
  match w with
  | [] => []
  | c :: r => if Ascii.eqb c c_sq then c_sq :: c_dq :: c_sq :: c_dq :: c_sq :: esc_sq r else c :: esc_sq r
  end.

Definition quote (w : word) : word :=
  match w with
  | [] => [c_sq; c_sq]
  | _ => if forallb safe_char w then w else c_sq :: esc_sq w ++ [c_sq]
  end.

(* ' '.join(quote(arg) for arg in argv) *)
Fixpoint join (ws : list word) : word :=
  match ws with
  | [] => []
  | [w] => quote w
  | w :: r => quote w ++ c_sp :: join r
  end.

(* lexer states: ' ' | 'a' | inside '...' | inside "..." | after \ outside quotes | after \ inside "..." *)
Inductive lstate := LSp | LW | LQ1 | LQ2 | LEW | LEQ.
Inductive serr := NoClosingQuotation | NoEscapedCharacter.

Definition emit (tok : word) (quoted : bool) (k : serr + list word) : serr + list word :=
  match tok, quoted with
  | [], false => k                   (* "if self.token or (self.posix and quoted)" *)
  | _, _ => match k with inr l => inr (tok :: l) | inl e => inl e end
  end.

Fixpoint lex (st : lstate) (tok : word) (quoted : bool) (s : word) : serr + list word :=
  match s with
  | [] =>
      match st with
      | LSp => inr []
      | LW => emit tok quoted (inr [])
      | LQ1 | LQ2 => inl NoClosingQuotation
      | LEW | LEQ => inl NoEscapedCharacter
      end
  | c :: r =>
      match st with
      | LSp =>
          if is_ws c then lex LSp [] false r
          else if Ascii.eqb c c_bs then lex LEW [] false r
          else if Ascii.eqb c c_sq then lex LQ1 [] true r
          else if Ascii.eqb c c_dq then lex LQ2 [] true r
          else lex LW [c] false r
      | LW =>
          if is_ws c then emit tok quoted (lex LSp [] false r)
          else if Ascii.eqb c c_sq then lex LQ1 tok true r
          else if Ascii.eqb c c_dq then lex LQ2 tok true r
          else if Ascii.eqb c c_bs then lex LEW tok quoted r
          else lex LW (tok ++ [c]) quoted r
      | LQ1 =>
          if Ascii.eqb c c_sq then lex LW tok true r
          else lex LQ1 (tok ++ [c]) true r
      | LQ2 =>
          if Ascii.eqb c c_dq then lex LW tok true r
          else if Ascii.eqb c c_bs then lex LEQ tok true r
          else lex LQ2 (tok ++ [c]) true r
      | LEW => lex LW (tok ++ [c]) quoted r
      | LEQ =>
          if Ascii.eqb c c_bs || Ascii.eqb c c_dq then lex LQ2 (tok ++ [c]) true r
          else lex LQ2 (tok ++ [c_bs; c]) true r
      end
  end.

Definition split (s : word) : serr + list word := lex LSp [] false s.

(* string-level wrappers used by the driver *)
Definition quote_join (argv : list string) : string :=
  string_of_list (join (map list_of_string argv)).
Definition split_string (s : string) : serr + list string :=
  match split (list_of_string s) with
  | inr l => inr (map string_of_list l)
  | inl e => inl e
  end.
