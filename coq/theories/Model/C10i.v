(* C10 — codec for the correspondence driver. *)
From Coq Require Import Bool Arith ZArith String List.
From CBI Require Import Lib.Res Lib.Data Model.C01 Spec.C01 Model.C04 Spec.C04 Model.C04i Model.C08 Spec.C08 Model.C08i Model.C10 Model.C10g.
Import ListNotations.
Local Open Scope string_scope.

Definition dec_pat (d : data) : option pat :=
  match d with
  | DList [DStr "Exact"; r] => option_map PExact (dec_path r)
  | DList [DStr "Dir"; DStr s] => Some (PDir s)
  | DList [DStr "Ext"; DStr s] => Some (PExt s)
  | DList [DStr "Base"; DStr s] => Some (PBase s)
  | _ => None
  end.

Definition enc_analysis (r : res (amap * setmap)) : data :=
  match r with
  | Ok (am, sm) => DList [DStr "Ok"; of_list enc_triple am; enc_setmap sm]
  | Err e => DList [DStr "Err"; DStr e]
  end.

(* case: (files weights config root x-lines toml-lines shapes-flag x-patterns toml-patterns) ;
   the lines are the raw gitignore lines (membership by C09's matcher, Model/C10g.v); when every
   pattern has one of the four shapes of Model/C10.v the structured lists are given too and the
   four-shape matcher is run as a second opinion.
   answer: (M-with-exclusion  M-without-exclusion  S-attribution  M-skipping-non-members  members
            M-with-exclusion-by-the-four-shape-matcher | (none)) *)
Definition run_C10 (d : data) : data :=
  match d with
  | DList [files; wts; cfg; root; xl; tl; flag; xs; ts] =>
      match as_list_of dec_file files, dec_weights wts, dec_config cfg, dec_path root,
            as_list_of as_str xl, as_list_of as_str tl, as_bool flag,
            as_list_of dec_pat xs, as_list_of dec_pat ts with
      | Some fs, Some wts, Some cfg, Some root, Some xl, Some tl, Some flag, Some xs, Some ts =>
          DList [enc_analysis (analyse_git fs include_depth root xl tl (wt_of wts) cfg);
                 enc_analysis (analyse_git fs include_depth root [] [] (wt_of wts) cfg);
                 enc_amap (spec_S fs include_depth cfg);
                 enc_analysis (analyse_git_skipping fs include_depth root xl tl (wt_of wts) cfg);
                 of_list enc_path (map fst (filter (fun fl => member_git fs root (effective xl tl) (fst fl)) fs));
                 if flag then enc_analysis (analyse fs include_depth root xs ts (wt_of wts) cfg)
                 else DList [DStr "none"]]
      | _, _, _, _, _, _, _, _, _ => bad_case
      end
  | _ => bad_case
  end.
