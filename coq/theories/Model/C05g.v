(* Interpreter for the tables that tools/gen/c05_cleaner.py extracts from the
   SOURCE TEXT of c_cleaner.process / c_cleaner.logical_newline
   (Gen/C05_tables.v, regenerated on every run).  Definitions only.
   Proofs/C05g.v proves that the hand-written [mstep] / [logical_newline] of
   Model/C05.v ARE this interpretation of the current tables, for every
   algebra, stack, buffer and character. *)
From Coq Require Import Bool List.
From CBI Require Import Lib.Data Model.C05.
Import ListNotations.

(* character tests of the inner if/elif chains *)
Inductive cond := CEq (k : cls) | CNe (k : cls) | CHashBlank | CElse.
(* statements of c_cleaner.process *)
Inductive action :=
  | APush (m : mode)      (* state.append("...") *)
  | APop                  (* state.pop() *)
  | ANonspaceCh           (* obuf.append_nonspace(char) *)
  | ACharCh               (* obuf.append_char(char) *)
  | ACharSlash            (* obuf.append_char("/") *)
  | ASpace                (* obuf.append_space() *)
  | APutback              (* inbuffer.putback(char) *)
  | AReturn               (* return *)
  | ACheckBlock           (* if not state[-1] == "IN_BLOCK_COMMENT": raise RuntimeError *)
  | ARaise.               (* raise RuntimeError *)
(* statements of c_cleaner.logical_newline *)
Inductive naction :=
  | NReset                (* self.state = ["TOPLEVEL"] *)
  | NSpace                (* self.outbuf.append_space() *)
  | NNonspaceSlash        (* self.outbuf.append_nonspace("/") *)
  | NPop                  (* self.state.pop() *)
  | NCheckBlock.

Definition cls_eqb (x y : cls) : bool :=
  match x, y with
  | cL, cL | cSp, cSp | cWs, cWs | cSl, cSl | cSt, cSt | cDq, cDq | cSq, cSq | cBs, cBs | cHash, cHash => true
  | _, _ => false
  end.
Definition mode_eqb' (x y : mode) : bool :=
  match x, y with
  | TOP, TOP | CPP, CPP | DQ, DQ | SQ, SQ | ESC, ESC | SLASH, SLASH | BLOCK, BLOCK
  | BSTAR, BSTAR | INLINE, INLINE | MERR, MERR => true
  | _, _ => false
  end.

Fixpoint branch {X} (t : list (mode * X)) (m : mode) : option X :=
  match t with
  | [] => None
  | (k, x) :: r => if mode_eqb' m k then Some x else branch r m
  end.

Section Interp.
Context {C B : Type} (A : alg C B).

Definition cond_holds (c : cond) (k : cls) (b : B) : bool :=
  match c with
  | CEq x => cls_eqb k x
  | CNe x => negb (cls_eqb k x)
  | CHashBlank => cls_eqb k cHash && cat_blank (a_cat A b)
  | CElse => true
  end.

Fixpoint first_cond (cs : list (cond * list action)) (k : cls) (b : B) : list action :=
  match cs with
  | [] => []                         (* no test holds and there is no else: nothing happens *)
  | (c, acts) :: r => if cond_holds c k b then acts else first_cond r k b
  end.

(* None = an exception escapes; the flag records a putback *)
Fixpoint run (acts : list action) (st : list mode) (b : B) (ch : C) (pb : bool) : option (list mode * B * bool) :=
  match acts with
  | [] => Some (st, b, pb)
  | a :: r =>
      match a with
      | APush m => run r (m :: st) b ch pb
      | APop => match st with [] => None | _ :: st' => run r st' b ch pb end
      | ANonspaceCh => run r st (a_nonspace A ch b) ch pb
      | ACharCh => run r st (a_char A ch b) ch pb
      | ACharSlash => run r st (a_char A (a_slash A) b) ch pb
      | ASpace => run r st (a_space A b) ch pb
      | APutback => run r st b ch true
      | AReturn => Some (st, b, pb)
      | ACheckBlock => match st with BLOCK :: _ => run r st b ch pb | _ => None end
      | ARaise => None
      end
  end.

(* one iteration of `for char in inbuffer`; a putback re-dispatches the same character *)
Fixpoint interp (fuel : nat) (t : list (mode * list (cond * list action)))
         (st : list mode) (b : B) (ch : C) : list mode * B :=
  match fuel with
  | 0 => ([MERR], b)
  | S f =>
      match st with
      | [] => ([MERR], b)
      | MERR :: _ => (st, b)
      | m :: _ =>
          match branch t m with
          | None => ([MERR], b)            (* else: raise RuntimeError("Unknown parser state!") *)
          | Some cs =>
              match run (first_cond cs (a_cls A ch) b) st b ch false with
              | None => ([MERR], b)
              | Some (st', b', false) => (st', b')
              | Some (st', b', true) => interp f t st' b' ch
              end
          end
      end
  end.

Fixpoint nrun (acts : list naction) (st : list mode) (b : B) : option (list mode * B) :=
  match acts with
  | [] => Some (st, b)
  | a :: r =>
      match a with
      | NReset => nrun r [TOP] b
      | NSpace => nrun r st (a_space A b)
      | NNonspaceSlash => nrun r st (a_nonspace A (a_slash A) b)
      | NPop => match st with [] => None | _ :: st' => nrun r st' b end
      | NCheckBlock => match st with BLOCK :: _ => nrun r st b | _ => None end
      end
  end.

Definition interp_newline (t : list (mode * list naction)) (st : list mode) (b : B) : list mode * B :=
  match st with
  | [] => (st, b)
  | m :: _ =>
      match branch t m with
      | None => (st, b)
      | Some acts => match nrun acts st b with None => ([MERR], b) | Some r => r end
      end
  end.
End Interp.
