(* Interpreter for the tables that tools/gen/c05_cleaner.py extracts from the
   SOURCE TEXT of c_cleaner.process / c_cleaner.logical_newline
   (Gen/C05_tables.v, regenerated on every run).  Definitions only.
   Proofs/C05g.v proves that the hand-written [mstep] / [logical_newline] of
   Model/C05.v ARE this interpretation of the current tables, for every
   algebra, stack, buffer and character. *)
From Coq Require Import Bool Ascii List.
From CBI Require Import Lib.Data Model.C05.
Import ListNotations.

(* character tests of the inner if/elif chains *)
Inductive cond := CEq (k : cls) | CNe (k : cls) | CHashBlank | CElse.
(* statements of c_cleaner.process *)
Inductive action :=
  | APush (m : mode)      (* state.append("...") *)
  | APop                  (* state.pop() *)
  | ANonspaceCh           (* obuf.append_nonspace(char) *)
  | ACharCh               (* obuf.append_char(char) *)
  | ACharSlash            (* obuf.append_char("/") *)
  | ASpace                (* obuf.append_space() *)
  | APutback              (* inbuffer.putback(char) *)
  | AReturn               (* return *)
  | ACheckBlock           (* if not state[-1] == "IN_BLOCK_COMMENT": raise RuntimeError *)
  | ARaise.               (* raise RuntimeError *)
(* statements of c_cleaner.logical_newline *)
Inductive naction :=
  | NReset                (* self.state = ["TOPLEVEL"] *)
  | NSpace                (* self.outbuf.append_space() *)
  | NNonspaceSlash        (* self.outbuf.append_nonspace("/") *)
  | NPop                  (* self.state.pop() *)
  | NCheckBlock.

Definition cls_eqb (x y : cls) : bool :=
  match x, y with
  | cL, cL | cSp, cSp | cWs, cWs | cSl, cSl | cSt, cSt | cDq, cDq | cSq, cSq | cBs, cBs | cHash, cHash => true
  | _, _ => false
  end.
Definition mode_eqb' (x y : mode) : bool :=
  match x, y with
  | TOP, TOP | CPP, CPP | DQ, DQ | SQ, SQ | ESC, ESC | SLASH, SLASH | BLOCK, BLOCK
  | BSTAR, BSTAR | INLINE, INLINE | MERR, MERR => true
  | _, _ => false
  end.

Fixpoint branch {X} (t : list (mode * X)) (m : mode) : option X :=
  match t with
  | [] => None
  | (k, x) :: r => if mode_eqb' m k then Some x else branch r m
  end.

Section Interp.
Context {C B : Type} (A : alg C B).

Definition cond_holds (c : cond) (k : cls) (b : B) : bool :=
  match c with
  | CEq x => cls_eqb k x
  | CNe x => negb (cls_eqb k x)
  | CHashBlank => cls_eqb k cHash && cat_blank (a_cat A b)
  | CElse => true
  end.

Fixpoint first_cond (cs : list (cond * list action)) (k : cls) (b : B) : list action :=
  match cs with
  | [] => []                         (* no test holds and there is no else: nothing happens *)
  | (c, acts) :: r => if cond_holds c k b then acts else first_cond r k b
  end.

(* None = an exception escapes; the flag records a putback *)
Fixpoint run (acts : list action) (st : list mode) (b : B) (ch : C) (pb : bool) : option (list mode * B * bool) :=
  match acts with
  | [] => Some (st, b, pb)
  | a :: r =>
      match a with
      | APush m => run r (m :: st) b ch pb
      | APop => match st with [] => None | _ :: st' => run r st' b ch pb end
      | ANonspaceCh => run r st (a_nonspace A ch b) ch pb
      | ACharCh => run r st (a_char A ch b) ch pb
      | ACharSlash => run r st (a_char A (a_slash A) b) ch pb
      | ASpace => run r st (a_space A b) ch pb
      | APutback => run r st b ch true
      | AReturn => Some (st, b, pb)
      | ACheckBlock => match st with BLOCK :: _ => run r st b ch pb | _ => None end
      | ARaise => None
      end
  end.

(* one iteration of `for char in inbuffer`; a putback re-dispatches the same character *)
Fixpoint interp (fuel : nat) (t : list (mode * list (cond * list action)))
         (st : list mode) (b : B) (ch : C) : list mode * B :=
  match fuel with
  | 0 => ([MERR], b)
  | S f =>
      match st with
      | [] => ([MERR], b)
      | MERR :: _ => (st, b)
      | m :: _ =>
          match branch t m with
          | None => ([MERR], b)            (* else: raise RuntimeError("Unknown parser state!") *)
          | Some cs =>
              match run (first_cond cs (a_cls A ch) b) st b ch false with
              | None => ([MERR], b)
              | Some (st', b', false) => (st', b')
              | Some (st', b', true) => interp f t st' b' ch
              end
          end
      end
  end.

Fixpoint nrun (acts : list naction) (st : list mode) (b : B) : option (list mode * B) :=
  match acts with
  | [] => Some (st, b)
  | a :: r =>
      match a with
      | NReset => nrun r [TOP] b
      | NSpace => nrun r st (a_space A b)
      | NNonspaceSlash => nrun r st (a_nonspace A (a_slash A) b)
      | NPop => match st with [] => None | _ :: st' => nrun r st' b end
      | NCheckBlock => match st with BLOCK :: _ => nrun r st b | _ => None end
      end
  end.

Definition interp_newline (t : list (mode * list naction)) (st : list mode) (b : B) : list mode * B :=
  match st with
  | [] => (st, b)
  | m :: _ =>
      match branch t m with
      | None => (st, b)
      | Some acts => match nrun acts st b with None => ([MERR], b) | Some r => r end
      end
  end.
End Interp.

(* ---------- one_space_line: the five methods as small programs ---------- *)
Inductive bcond :=
  | BNotSpaceArg                 (* not c.isspace() *)
  | BNotTrailing                 (* not self.trailing_space *)
  | BOtherNonempty               (* other.parts *)
  | BOtherHeadSpAndTrailing      (* other.parts[0] == " " and self.trailing_space *)
  | BNoParts                     (* not self.parts *)
  | BLen1                        (* len(self.parts) == 1 *)
  | BHeadIs (c : ascii)          (* self.parts[0] == c *)
  | BDirPrefix.                  (* self.parts[:2] == [" ", "#"] or self.parts[0] == "#" *)
Inductive bstmt :=
  | BIf (c : bcond) (th el : list bstmt)
  | BAppendArg                   (* self.parts.append(c) *)
  | BAppendSp                    (* self.parts.append(" ") *)
  | BSetTrailing (b : bool)      (* self.trailing_space = b *)
  | BExtendTail                  (* self.parts += other.parts[1:] *)
  | BExtendAll                   (* self.parts += other.parts[:] *)
  | BTrailingOther               (* self.trailing_space = other.trailing_space *)
  | BSetRes (k : cat).           (* res = "..." *)

Record bstate := { bs_self : osl; bs_arg : ascii; bs_other : osl; bs_res : cat }.

Definition head_is (c : ascii) (l : list ascii) : bool :=
  match l with x :: _ => Ascii.eqb x c | [] => false end.

Definition bcond_holds (c : bcond) (st : bstate) : bool :=
  let p := parts (bs_self st) in
  match c with
  | BNotSpaceArg => negb (isspace (bs_arg st))
  | BNotTrailing => negb (trailing (bs_self st))
  | BOtherNonempty => match parts (bs_other st) with [] => false | _ => true end
  | BOtherHeadSpAndTrailing => head_is sp (parts (bs_other st)) && trailing (bs_self st)
  | BNoParts => match p with [] => true | _ => false end
  | BLen1 => match p with [_] => true | _ => false end
  | BHeadIs x => head_is x p
  | BDirPrefix =>
      match p with
      | a :: b :: _ => (Ascii.eqb a sp && Ascii.eqb b hash) || Ascii.eqb a hash
      | [a] => Ascii.eqb a hash
      | [] => false
      end
  end.

Definition set_self (st : bstate) (b : osl) : bstate :=
  {| bs_self := b; bs_arg := bs_arg st; bs_other := bs_other st; bs_res := bs_res st |}.

Fixpoint bexec (s : bstmt) (st : bstate) {struct s} : bstate :=
  let run := fix run (l : list bstmt) (st : bstate) : bstate :=
               match l with [] => st | x :: r => run r (bexec x st) end in
  match s with
  | BIf c th el => if bcond_holds c st then run th st else run el st
  | BAppendArg => set_self st {| parts := parts (bs_self st) ++ [bs_arg st]; trailing := trailing (bs_self st) |}
  | BAppendSp => set_self st {| parts := parts (bs_self st) ++ [sp]; trailing := trailing (bs_self st) |}
  | BSetTrailing b => set_self st {| parts := parts (bs_self st); trailing := b |}
  | BExtendTail => set_self st {| parts := parts (bs_self st) ++ tl (parts (bs_other st)); trailing := trailing (bs_self st) |}
  | BExtendAll => set_self st {| parts := parts (bs_self st) ++ parts (bs_other st); trailing := trailing (bs_self st) |}
  | BTrailingOther => set_self st {| parts := parts (bs_self st); trailing := trailing (bs_other st) |}
  | BSetRes k => {| bs_self := bs_self st; bs_arg := bs_arg st; bs_other := bs_other st; bs_res := k |}
  end.
Fixpoint brun (l : list bstmt) (st : bstate) : bstate :=
  match l with [] => st | x :: r => brun r (bexec x st) end.

Definition bstart (self : osl) (c : ascii) (other : osl) : bstate :=
  {| bs_self := self; bs_arg := c; bs_other := other; bs_res := SRC |}.

(* ---------- c_file_source: the guarded steps of the physical-line loop ---------- *)
Inductive lguard :=
  | GAlways
  | GEndsLogical       (* not continued and cleaner.state[-1] != "IN_BLOCK_COMMENT" *)
  | GPhysNotBlank.     (* not current_physical_line.category() == "BLANK" *)
Inductive lact :=
  | LResetPhys         (* current_physical_line.__init__() *)
  | LProcess           (* cleaner.process(it.islice(line, 0, end)) *)
  | LNewline           (* cleaner.logical_newline() *)
  | LAddLine           (* curr_line.add_physical_line(physical_line_num) *)
  | LJoin              (* curr_line.join(current_physical_line) *)
  | LClose.            (* physical_update(n + 1); yield if not BLANK; total_sloc += physical_reset() *)

Section Loop.
Context {C B : Type} (A : alg C B).

Definition with_st (f : fs B) (st : list mode) : fs B :=
  {| fs_st := st; fs_L := fs_L f; fs_lines := fs_lines f; fs_sloc := fs_sloc f; fs_start := fs_start f;
     fs_total := fs_total f; fs_out := fs_out f |}.

Definition lguard_holds (g : lguard) (continued : bool) (b : B) (f : fs B) : bool :=
  match g with
  | GAlways => true
  | GEndsLogical => negb continued && negb (top_is_block (fs_st f))
  | GPhysNotBlank => negb (cat_blank (a_cat A b))
  end.

Definition lact_do (a : lact) (n : nat) (body : list C) (b : B) (f : fs B) : B * fs B :=
  match a with
  | LResetPhys => (a_empty A, f)
  | LProcess => let r := process A (fs_st f) b body in (snd r, with_st f (fst r))
  | LNewline => let r := logical_newline A (fs_st f) b in (snd r, with_st f (fst r))
  | LAddLine => (b, {| fs_st := fs_st f; fs_L := fs_L f; fs_lines := fs_lines f ++ [n]; fs_sloc := S (fs_sloc f);
                       fs_start := fs_start f; fs_total := fs_total f; fs_out := fs_out f |})
  | LJoin => (b, {| fs_st := fs_st f; fs_L := a_join A (fs_L f) b; fs_lines := fs_lines f; fs_sloc := fs_sloc f;
                    fs_start := fs_start f; fs_total := fs_total f; fs_out := fs_out f |})
  | LClose => (b, close_logical A (fs_st f) (fs_L f) (fs_lines f) (fs_sloc f) (fs_start f) (fs_total f) (fs_out f) n)
  end.

Fixpoint lrun (t : list (lguard * lact)) (n : nat) (body : list C) (continued : bool) (b : B) (f : fs B) : B * fs B :=
  match t with
  | [] => (b, f)
  | (g, a) :: r =>
      let x := if lguard_holds g continued b f then lact_do a n body b f else (b, f) in
      lrun r n body continued (fst x) (snd x)
  end.
End Loop.
