(* C14 - order-explicit model of the code that turns per-node associations into
   the platform-set table, the summary rows, the metrics and the coverage export:
     finder.ParserState.associate / get_setmap, CodeBase.__iter__,
     report.extract_platforms / summary / distance / divergence / coverage /
     average_coverage, codebasin.coverage._compute.
   Every iteration whose order the runtime chooses (set, dict filled from a set,
   rglob) is an explicit list argument.  Definitions only; the binary64 side of
   the metrics is Model/C14f.v (PrimFloat, evaluated by vm_compute only).

   Representation: a platform name is the list of its code points, compared as
   Python compares str; a frozenset of names is its strictly sorted list; a
   path is the list of its components, compared as pathlib compares PurePosixPath
   (component-wise), which happens to be the same type and order as a frozenset
   listing; a dict is an association list in insertion order. *)
From Coq Require Import ZArith String Ascii Bool List.
From CBI Require Import Lib.Data.
Import ListNotations.
Local Open Scope string_scope.
Local Open Scope Z_scope.

(* ---------- orders ---------- *)
Section Order.
Context {A : Type} (cmp : A -> A -> comparison).

Fixpoint lex_cmp (x y : list A) : comparison :=
  match x, y with
  | [], [] => Eq
  | [], _ :: _ => Lt
  | _ :: _, [] => Gt
  | a :: x', b :: y' => match cmp a b with Eq => lex_cmp x' y' | c => c end
  end.

Definition ceqb (a b : A) : bool := match cmp a b with Eq => true | _ => false end.

(* set.add on the canonical (strictly sorted) listing of a set *)
Fixpoint set_add (x : A) (s : list A) : list A :=
  match s with
  | [] => [x]
  | a :: r => match cmp x a with Lt => x :: s | Eq => s | Gt => a :: set_add x r end
  end.
Definition set_mem (x : A) (s : list A) : bool := existsb (ceqb x) s.
Definition set_of (l : list A) : list A := fold_left (fun s x => set_add x s) l [].

(* Python's sorted(l, key=key): stable; an element is placed before the first
   element whose key is not smaller *)
Fixpoint insert_by {B} (key : B -> A) (x : B) (s : list B) : list B :=
  match s with
  | [] => [x]
  | a :: r => match cmp (key x) (key a) with Gt => a :: insert_by key x r | _ => x :: s end
  end.
Definition sort_by {B} (key : B -> A) (l : list B) : list B := fold_right (insert_by key) [] l.
End Order.

Definition name := list Z.
Definition ncmp : name -> name -> comparison := lex_cmp Z.compare.
Definition pset := list name.            (* frozenset of names, or a path *)
Definition pcmp : pset -> pset -> comparison := lex_cmp ncmp.
Definition peqb : pset -> pset -> bool := ceqb pcmp.

(* the summary-row key of the repaired code: (len(s), sorted(s)) *)
Definition rowkey := (nat * pset)%type.
Definition kcmp (a b : rowkey) : comparison :=
  match Nat.compare (fst a) (fst b) with Eq => pcmp (snd a) (snd b) | c => c end.
Definition key_new (s : pset) : rowkey := (List.length s, s).
(* the key before the repair: len only *)
Definition key_old (s : pset) : nat := List.length s.

(* ---------- dict[frozenset, int] ---------- *)
Definition setmap := list (pset * Z).

(* setmap[k] += n on a defaultdict(int): a new key goes to the END *)
Fixpoint sm_add (k : pset) (n : Z) (sm : setmap) : setmap :=
  match sm with
  | [] => [(k, n)]
  | (k', m) :: r => if peqb k k' then (k', m + n) :: r else (k', m) :: sm_add k n r
  end.
Fixpoint sm_get (k : pset) (sm : setmap) : Z :=
  match sm with
  | [] => 0
  | (k', m) :: r => if peqb k k' then m else sm_get k r
  end.
Definition sm_build (contribs : list (pset * Z)) : setmap :=
  fold_left (fun sm kn => sm_add (fst kn) (snd kn) sm) contribs [].

Definition zsum (l : list Z) : Z := fold_left Z.add l 0.

(* ---------- finder.py ---------- *)
(* One call of ParserState.associate(file, platform): the platform name and
   the nodes (file path, index in tree.walk() order) that the visitor reaches.
   Which nodes are reached is C01/C04's business; here it is an input. *)
Record event := { ev_plat : name; ev_nodes : list (pset * Z) }.

Definition node_eqb (a b : pset * Z) : bool := peqb (fst a) (fst b) && Z.eqb (snd a) (snd b).

(* association[node] after all events, in the order the configuration is walked *)
Definition assoc_of (events : list event) (f : pset) (i : Z) : pset :=
  fold_left (fun s e => if existsb (node_eqb (f, i)) (ev_nodes e) then set_add ncmp (ev_plat e) s else s)
            events [].

(* a member of the code base: the name under which CodeBase yields it, the real
   path it resolves to (the same for a regular file, the target for a symbolic
   link; trees and association maps are keyed by the real path), and, per
   CodeNode of that tree in walk order, the physical lines *)
Record pfile := { pf_path : pset; pf_real : pset; pf_nodes : list (list Z) }.
Definition is_link (f : pfile) : bool := negb (peqb (pf_path f) (pf_real f)).

Fixpoint number {A} (i : Z) (l : list A) : list (Z * A) :=
  match l with [] => [] | x :: r => (i, x) :: number (i + 1) r end.

Definition file_contribs (events : list event) (f : pfile) : list (pset * Z) :=
  map (fun iv => (assoc_of events (pf_real f) (fst iv), Z.of_nat (List.length (snd iv))))
      (number 0 (pf_nodes f)).

(* CodeBase.__iter__ after the repair: sorted(rglob) *)
Definition iter_codebase (enumeration : list pfile) : list pfile := sort_by pcmp pf_path enumeration.
(* before the repair: the enumeration order itself *)
Definition iter_codebase_old (enumeration : list pfile) : list pfile := enumeration.

(* ParserState.get_setmap: a symbolic link whose target is a member is skipped
   (every link of a case points to a member) *)
Definition get_setmap (events : list event) (files : list pfile) : setmap :=
  sm_build (flat_map (file_contribs events) (filter (fun f => negb (is_link f)) files)).

(* ---------- report.py ---------- *)
(* sorted(extract_platforms(setmap)) *)
Definition platforms_of (sm : setmap) : list name := set_of ncmp (flat_map fst sm).

(* rows of the summary table, repaired key *)
Definition summary_rows (sm : setmap) : list (pset * Z) :=
  map (fun s => (s, sm_get s sm)) (sort_by kcmp key_new (map fst sm)).
Definition summary_rows_old (sm : setmap) : list (pset * Z) :=
  map (fun s => (s, sm_get s sm)) (sort_by Nat.compare key_old (map fst sm)).
Definition total_sloc (sm : setmap) : Z := zsum (map snd sm).

Definition has (p : name) (s : pset) : bool := set_mem ncmp p s.

(* distance(setmap, p, q) of the repaired code: (sum over rows with exactly one
   of p,q ; sum over rows with at least one), one division afterwards *)
Definition dist_parts (sm : setmap) (p q : name) : Z * Z :=
  (zsum (map snd (filter (fun r => xorb (has p (fst r)) (has q (fst r))) sm)),
   zsum (map snd (filter (fun r => has p (fst r) || has q (fst r)) sm))).

(* coverage(setmap, platforms): (used, total) *)
Definition cov_parts (sm : setmap) (ps : list name) : Z * Z :=
  (zsum (map snd (filter (fun r => existsb (fun p => existsb (ceqb ncmp p) ps) (fst r)) sm)),
   zsum (map snd sm)).

(* it.combinations(l, 2) *)
Fixpoint pairs {A} (l : list A) : list (A * A) :=
  match l with [] => [] | x :: r => map (pair x) r ++ pairs r end.

(* ---------- codebasin.coverage ---------- *)
(* one record per member, in iteration order: (path, used lines, unused lines) *)
Definition cov_record (events : list event) (f : pfile) : pset * (list Z * list Z) :=
  let tagged := map (fun iv => (match assoc_of events (pf_real f) (fst iv) with [] => false | _ => true end, snd iv))
                    (number 0 (pf_nodes f)) in
  (pf_path f, (flat_map snd (filter fst tagged), flat_map snd (filter (fun t => negb (fst t)) tagged))).
Definition coverage_export (events : list event) (enumeration : list pfile) :=
  map (cov_record events) (iter_codebase enumeration).

(* report.files: per member, in iteration order, the file's own setmap *)
Definition file_tables (events : list event) (enumeration : list pfile) : list (pset * setmap) :=
  map (fun f => (pf_path f, sm_build (file_contribs events f))) (iter_codebase enumeration).

(* ---------- everything the reports print that is an integer or a name ---------- *)
Record table_out := {
  o_rows : list (pset * Z); o_total : Z; o_plats : list name;
  o_dist : list (list (Z * Z)); o_cov : Z * Z; o_percov : list (Z * Z) }.

Definition table_report (sm : setmap) : table_out :=
  let ps := platforms_of sm in
  {| o_rows := summary_rows sm; o_total := total_sloc sm; o_plats := ps;
     o_dist := map (fun p => map (fun q => dist_parts sm p q) ps) ps;
     o_cov := cov_parts sm ps;
     o_percov := map (fun p => cov_parts sm [p]) ps |}.

(* ---------- case decoding / answer encoding ---------- *)
Definition name_of_string (s : string) : name := map zascii (list_of_string s).
Definition string_of_name (n : name) : string := string_of_list (map ascii_of_z n).
Definition dec_name (d : data) : option name := option_map name_of_string (as_str d).
Definition dec_pset (d : data) : option pset := option_map (set_of ncmp) (as_list_of dec_name d).
Definition dec_path (d : data) : option pset := as_list_of dec_name d.
Definition dec_row (d : data) : option (pset * Z) := as_pair dec_pset as_int d.
Definition dec_node (d : data) : option (pset * Z) := as_pair dec_path as_int d.
Definition dec_event (d : data) : option event :=
  match as_pair dec_name (as_list_of dec_node) d with
  | Some (p, ns) => Some {| ev_plat := p; ev_nodes := ns |}
  | None => None
  end.
Definition dec_pfile (d : data) : option pfile :=
  match d with
  | DList [p; r; ns] =>
      match dec_path p, dec_path r, as_list_of (as_list_of as_int) ns with
      | Some p, Some r, Some ns => Some {| pf_path := p; pf_real := r; pf_nodes := ns |}
      | _, _, _ => None
      end
  | _ => None
  end.

Definition enc_name (n : name) : data := DStr (string_of_name n).
Definition enc_pset (s : pset) : data := of_list enc_name s.
Definition enc_zz (p : Z * Z) : data := DList [DInt (fst p); DInt (snd p)].
Definition enc_rows (r : list (pset * Z)) : data := of_list (fun x => DList [enc_pset (fst x); DInt (snd x)]) r.
Definition enc_table (o : table_out) : data :=
  DList [enc_rows (o_rows o); DInt (o_total o); of_list enc_name (o_plats o);
         of_list (of_list enc_zz) (o_dist o); enc_zz (o_cov o); of_list enc_zz (o_percov o)].

Definition enc_export (x : list (pset * (list Z * list Z))) : data :=
  of_list (fun r => DList [enc_pset (fst r); of_list DInt (fst (snd r)); of_list DInt (snd (snd r))]) x.
Definition enc_ftables (x : list (pset * setmap)) : data :=
  of_list (fun r => DList [enc_pset (fst r); enc_rows (summary_rows (snd r))]) x.

(* apply a list of indices to a list (a permutation chosen by the harness) *)
Definition pick {A} (l : list A) (idx : list Z) : list A :=
  flat_map (fun i => match nth_error l (Z.to_nat i) with Some x => [x] | None => [] end) idx.

Fixpoint data_eqb (a b : data) : bool :=
  match a, b with
  | DInt x, DInt y => Z.eqb x y
  | DStr x, DStr y => String.eqb x y
  | DList x, DList y =>
      (fix go (x y : list data) : bool :=
         match x, y with
         | [], [] => true
         | u :: x', v :: y' => data_eqb u v && go x' y'
         | _, _ => false
         end) x y
  | _, _ => false
  end.

Definition dec_perm3 (d : data) : option (list Z * (list Z * list Z)) :=
  match d with
  | DList [a; b; c] =>
      match as_list_of as_int a, as_list_of as_int b, as_list_of as_int c with
      | Some x, Some y, Some z => Some (x, (y, z))
      | _, _, _ => None
      end
  | _ => None
  end.

