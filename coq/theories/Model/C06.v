(* C06 - model of the three reporting folds of codebasin:
     finder.py   ParserState.get_setmap
     report.py   summary (rows, percentages, total), files, FileTree.insert,
                 FileTree._print (levels), Node.sloc/_platforms_str/coverage inputs
     coverage/__main__.py  _compute (used / unused line export)
   Definitions only; proofs are in Proofs/C06*.v.

   Input = the analysis result: for every code-base file, in CodeBase
   iteration order, its path below the root, whether it is a symlink, whether
   the link target is in the code base, a content id and its CodeNodes
   (physical lines, num_lines, platform set).  A platform set (Python
   frozenset) is a list of names in canonical (sorted, duplicate-free) form;
   a dict is an association list in insertion order. *)
From Coq Require Import ZArith String Ascii Bool Arith List.
From CBI Require Import Lib.Data Lib.Res.
Import ListNotations.
Local Open Scope Z_scope.

Definition pset := list string.
Definition setmap := list (pset * Z).

Fixpoint key_eqb (a b : pset) : bool :=
  match a, b with
  | [], [] => true
  | x :: a', y :: b' => String.eqb x y && key_eqb a' b'
  | _, _ => false
  end.
Definition is_empty (k : pset) : bool := match k with [] => true | _ => false end.
Definition mem (p : string) (k : pset) : bool := existsb (String.eqb p) k.

(* defaultdict(int):  m[k] += n   (a new key goes to the end) *)
Fixpoint sm_add (k : pset) (n : Z) (m : setmap) : setmap :=
  match m with
  | [] => [(k, n)]
  | (k', v) :: r => if key_eqb k' k then (k', v + n) :: r else (k', v) :: sm_add k n r
  end.
(* for ps in sm.keys(): m[ps] += sm[ps] *)
Definition sm_merge (m sm : setmap) : setmap :=
  fold_left (fun acc kv => sm_add (fst kv) (snd kv) acc) sm m.
(* sum of the values whose key satisfies P; every figure of every report is one of these *)
Definition sum_if (P : pset -> bool) (m : setmap) : Z :=
  fold_right (fun kv acc => if P (fst kv) then snd kv + acc else acc) 0 m.
Definition sm_total (m : setmap) : Z := sum_if (fun _ => true) m.

Record node := { nlines : list Z; nnum : Z; nplat : pset }.
Record file := { fpath : list string; flink : bool; ftarget_in : bool; fid : string; fnodes : list node }.

(* ---------------- finder.py: ParserState.get_setmap ---------------- *)
Definition add_nodes (m : setmap) (ns : list node) : setmap :=
  fold_left (fun acc n => sm_add (nplat n) (nnum n) acc) ns m.
Definition file_setmap (f : file) : setmap := add_nodes [] (fnodes f).
(* `if path.is_symlink() and path.resolve() in codebase: continue` *)
Definition skipped (f : file) : bool := flink f && ftarget_in f.
Definition get_setmap (files : list file) : setmap :=
  fold_left (fun m f => if skipped f then m else add_nodes m (fnodes f)) files [].

(* ---------------- report.py: summary ---------------- *)
Definition klen (e : pset * Z) : nat := List.length (fst e).
(* Python's order on str (code points; on the UTF-8 bytes M sees it is the same order) and on lists of str *)
Fixpoint str_ltb (a b : string) : bool :=
  match a, b with
  | EmptyString, String _ _ => true
  | String x a', String y b' =>
      (nat_of_ascii x <? nat_of_ascii y)%nat || ((nat_of_ascii x =? nat_of_ascii y)%nat && str_ltb a' b')
  | _, _ => false
  end.
Fixpoint names_ltb (a b : list string) : bool :=
  match a, b with
  | [], _ :: _ => true
  | x :: a', y :: b' => str_ltb x y || (String.eqb x y && names_ltb a' b')
  | _, _ => false
  end.
(* key=lambda s: (len(s), sorted(s)); a platform set is already its sorted list of names *)
Definition key_ltb (x e : pset * Z) : bool :=
  (klen x <? klen e)%nat || ((klen x =? klen e)%nat && names_ltb (fst x) (fst e)).
(* sorted(...) is stable: an element goes before the first one that is not smaller *)
Fixpoint ins_len (e : pset * Z) (l : setmap) : setmap :=
  match l with
  | [] => [e]
  | x :: r => if key_ltb x e then x :: ins_len e r else e :: l
  end.
Definition sort_len (m : setmap) : setmap := fold_right ins_len [] m.

(* a row: platform set, count, and the total the percentage is taken of
   (percent = count / total * 100 formatted by Python; NaN when total = 0).
   summary does not raise: the result type is kept for the driver's encoding. *)
Record srow := { skey : pset; scount : Z; stotal : Z }.
Definition summary (m : setmap) : res (list srow * Z) :=
  let total := sm_total m in
  let rows := map (fun e => {| skey := fst e; scount := snd e; stotal := total |}) (sort_len m) in
  Ok (rows, fold_left (fun a r => a + scount r) rows 0).     (* total_count *)

(* ---------------- coverage/__main__.py: _compute ---------------- *)
Record entry := { epath : list string; eid : string; eused : list Z; eunused : list Z }.
Definition export_file (f : file) : entry :=
  {| epath := fpath f; eid := fid f;
     eused := flat_map nlines (filter (fun n => negb (is_empty (nplat n))) (fnodes f));
     eunused := flat_map nlines (filter (fun n => is_empty (nplat n)) (fnodes f)) |}.
Definition export (files : list file) : list entry := map export_file files.

(* ---------------- report.py: FileTree ---------------- *)
Inductive tnode := TNode (name : string) (isdir islink : bool) (sm : setmap) (ch : list tnode).
Definition tname (t : tnode) := match t with TNode n _ _ _ _ => n end.
Definition tdir (t : tnode) := match t with TNode _ d _ _ _ => d end.
Definition tlink (t : tnode) := match t with TNode _ _ l _ _ => l end.
Definition tsm (t : tnode) := match t with TNode _ _ _ m _ => m end.
Definition tch (t : tnode) := match t with TNode _ _ _ _ c => c end.

(* parent.children: look the name up; otherwise create the node (at the end) *)
Fixpoint upd_child (f : tnode -> tnode) (fresh : tnode) (c : string) (ch : list tnode) : list tnode :=
  match ch with
  | [] => [f fresh]
  | x :: r => if String.eqb (tname x) c then f x :: r else x :: upd_child f fresh c r
  end.
(* a new node: the last component is the file (shares the file's setmap),
   the others are directories (path.is_dir()) with an empty setmap *)
Definition fresh_node (c : string) (rest : list string) (link : bool) (sm : setmap) : tnode :=
  match rest with
  | [] => TNode c false link sm []
  | _ => TNode c true false [] []
  end.
(* FileTree.insert: walk the components below the root; every node passed
   on the way (the parent of each component) accumulates the file's setmap
   unless the file is a symlink *)
Fixpoint insert (comps : list string) (link : bool) (sm : setmap) (n : tnode) {struct comps} : tnode :=
  match comps with
  | [] => n
  | c :: rest =>
      match n with
      | TNode nm d l m ch =>
          TNode nm d l (if link then m else sm_merge m sm)
                (upd_child (insert rest link sm) (fresh_node c rest link sm) c ch)
      end
  end.

Definition root0 : tnode := TNode EmptyString true false [] [].
(* platforms = union of the keys;  len(platforms) == 0 *)
Definition sm_used (sm : setmap) : bool := existsb (fun kv => negb (is_empty (fst kv))) sm.
(* report.files: the loop that builds the tree *)
Definition kept (prune : bool) (f : file) : bool := negb prune || sm_used (file_setmap f).
Definition files_tree (prune : bool) (files : list file) : tnode :=
  fold_left (fun t f => if kept prune f then insert (fpath f) (flink f) (file_setmap f) t else t) files root0.

(* Node.platforms, relative to the sorted universe U of platform names *)
Definition node_plats (U : list string) (sm : setmap) : list string :=
  filter (fun p => existsb (fun kv => mem p (fst kv)) sm) U.

(* one printed row; the numbers every cell is computed from:
     mask   : for each platform of the root (sorted), is it in this node's platforms
     total  : sum(setmap.values())                         (SLOC column)
     used   : numerator of coverage(setmap, root.platforms)
     per    : numerators of coverage(setmap, [p]) for the platforms averaged over *)
Record row := { rdepth : nat; rname : string; rdir : bool; rlink : bool;
                rmask : list bool; rtotal : Z; rused : Z; rper : list Z }.
Definition eff_plats (rp U : list string) (sm : setmap) : list string :=
  match rp with [] => node_plats U sm | _ => rp end.        (* `if not platforms: platforms = union of own keys` *)
Definition mkrow (rp U : list string) (depth : nat) (t : tnode) : row :=
  let sm := tsm t in
  let ps := eff_plats rp U sm in
  {| rdepth := depth; rname := tname t; rdir := tdir t; rlink := tlink t;
     rmask := map (fun p => mem p (node_plats U sm)) rp;
     rtotal := sm_total sm;
     rused := sum_if (fun k => negb (is_empty k) && existsb (fun p => mem p ps) k) sm;
     rper := map (fun p => sum_if (fun k => negb (is_empty k) && mem p k) sm) ps |}.

(* `if levels and depth > levels: return []` *)
Definition hidden (levels : option nat) (depth : nat) : bool :=
  match levels with
  | Some k => negb (k =? 0)%nat && (k <? depth)%nat
  | None => false
  end.
Fixpoint rows (rp U : list string) (levels : option nat) (depth : nat) (t : tnode) {struct t} : list row :=
  match t with
  | TNode _ _ _ _ ch =>
      if hidden levels depth then []
      else mkrow rp U depth t :: flat_map (rows rp U levels (S depth)) ch
  end.

(* report.files: legend platforms + rows *)
Definition report_files (U : list string) (prune : bool) (levels : option nat) (files : list file)
  : list string * list row :=
  let t := files_tree prune files in
  let rp := node_plats U (tsm t) in
  (rp, rows rp U levels 0 t).

(* the FileTree itself in pre-order (for the in-process observation of FileTree.insert) *)
Fixpoint dump (depth : nat) (t : tnode) {struct t} : list (nat * tnode) :=
  match t with
  | TNode nm d l m ch => (depth, TNode nm d l m []) :: flat_map (dump (S depth)) ch
  end.
