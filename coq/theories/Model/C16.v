(* Model of codebasin/report.py : find_duplicates.
   Definitions only; proofs are in Proofs/C16.v. *)
From Coq Require Import List ZArith String Bool Arith.
From CBI Require Import Lib.Data.
Import ListNotations.

Record file := { fpath : string; fcontent : string; flink : bool }.

Definition ceq (a b : file) : bool := String.eqb (fcontent a) (fcontent b).

Section Model.
(* the digest: ANY function of the content (sha512 in the implementation) *)
Variable h : string -> Z.
(* set.pop(): ANY element of a non-empty collection, with the remainder *)
Variable choose : list file -> option (file * list file).

(* possible_matches: dict digest -> set of paths, in first-insertion order *)
Fixpoint add_bucket (k : Z) (f : file) (b : list (Z * list file)) : list (Z * list file) :=
  match b with
  | [] => [(k, [f])]
  | (k', fs) :: r => if Z.eqb k k' then (k', fs ++ [f]) :: r else (k', fs) :: add_bucket k f r
  end.

Definition buckets (files : list file) : list (Z * list file) :=
  fold_left (fun b f => if flink f then b else add_bucket (h (fcontent f)) f b) files [].

(* the `while len(remaining) > 1` loop; None = out of fuel (proved unreachable) *)
Fixpoint loop (fuel : nat) (rem : list file) : option (list (list file)) :=
  match rem with
  | [] | [_] => Some []
  | _ =>
    match fuel with
    | 0 => None
    | S fuel' =>
      match choose rem with
      | None => None
      | Some (first, rest) =>
          let m := filter (ceq first) rest in
          let rest' := filter (fun x => negb (ceq first x)) rest in
          match loop fuel' rest' with
          | None => None
          | Some out => Some (match m with [] => out | _ => (first :: m) :: out end)
          end
      end
    end
  end.

Fixpoint confirm (b : list (Z * list file)) : option (list (list file)) :=
  match b with
  | [] => Some []
  | (_, fs) :: r =>
      match fs with
      | [_] => confirm r                                  (* `if len(path_set) == 1: continue` *)
      | _ => match loop (List.length fs) fs, confirm r with
             | Some a, Some c => Some (a ++ c)
             | _, _ => None
             end
      end
  end.

Definition find_duplicates (files : list file) : option (list (list file)) := confirm (buckets files).
End Model.

(* executable instance used by the correspondence: a deliberately colliding
   digest (content length) and pop = first element *)
Definition h_len (s : string) : Z := Z.of_nat (String.length s).
Definition choose_hd (l : list file) : option (file * list file) :=
  match l with [] => None | x :: r => Some (x, r) end.
(* second instance: pop = last element, digest = constant *)
Definition h_const (s : string) : Z := 0%Z.
Definition choose_last (l : list file) : option (file * list file) :=
  match rev l with [] => None | x :: r => Some (x, rev r) end.

Definition dec_file (d : data) : option file :=
  match d with
  | DList [DStr p; DStr c; l] =>
      match as_bool l with Some b => Some {| fpath := p; fcontent := c; flink := b |} | None => None end
  | _ => None
  end.

Definition enc_groups (o : option (list (list file))) : data :=
  match o with
  | None => DStr "OutOfFuel"
  | Some gs => of_list (of_list (fun f => DStr (fpath f))) gs
  end.

(* case: list of files ; answer: [groups with h_len,hd ; groups with h_const,last] *)
Definition run_C16 (d : data) : data :=
  match as_list_of dec_file d with
  | Some fs => DList [enc_groups (find_duplicates h_len choose_hd fs);
                      enc_groups (find_duplicates h_const choose_last fs)]
  | None => bad_case
  end.
