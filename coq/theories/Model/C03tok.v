(* Tokens of codebasin/preprocessor.py and a port of Lexer.tokenize_one
   (number, character_constant, string_constant, identifier, operator,
   punctuator, tried in that order).  The macro code re-lexes the spelling
   produced by ## and by # through this function.  ASCII only.
   Definitions only. *)
From Coq Require Import ZArith String Ascii Bool List.
From CBI Require Import Lib.Data Lib.Res.
Import ListNotations.
Local Open Scope string_scope.
Local Open Scope list_scope.

Inductive tkind := KNum | KChar | KStr | KId | KOp | KPunct | KUnk.

Definition tkind_eqb (a b : tkind) : bool :=
  match a, b with
  | KNum, KNum | KChar, KChar | KStr, KStr | KId, KId | KOp, KOp | KPunct, KPunct | KUnk, KUnk => true
  | _, _ => false
  end.

(* ---------- character classes (str.isdigit / isalpha / isprintable on ASCII) ---------- *)
Definition zc (c : ascii) : Z := Z.of_N (N_of_ascii c).
Definition c_digit (c : ascii) : bool := ((48 <=? zc c) && (zc c <=? 57))%Z.
Definition c_alpha (c : ascii) : bool :=
  (((65 <=? zc c) && (zc c <=? 90)) || ((97 <=? zc c) && (zc c <=? 122)))%Z.
Definition c_print (c : ascii) : bool := ((32 <=? zc c) && (zc c <=? 126))%Z.
Definition c_is (c : ascii) (s : string) : bool :=
  match s with String d EmptyString => Ascii.eqb c d | _ => false end.
Definition c_us (c : ascii) : bool := c_is c "_".
Definition c_dot (c : ascii) : bool := c_is c ".".
Definition c_quote (c : ascii) : bool := (zc c =? 34)%Z.
Definition c_apos (c : ascii) : bool := (zc c =? 39)%Z.
Definition c_bslash (c : ascii) : bool := (zc c =? 92)%Z.
Definition ch_quote : ascii := ascii_of_N 34.
Definition ch_bslash : ascii := ascii_of_N 92.

Definition sl := string_of_list.
Definition ls := list_of_string.

(* ---------- Lexer.number ---------- *)
Definition is_exp_pair (a b : ascii) : bool :=
  (c_is a "e" || c_is a "E" || c_is a "p" || c_is a "P") && (c_is b "+" || c_is b "-").
Definition c_numch (a : ascii) : bool := c_alpha a || c_digit a || c_us a || c_dot a.

(* the `while not self.eos()` loop of number(); fuel = length of the input *)
Fixpoint num_body (fuel : nat) (l : list ascii) (acc : list ascii) : list ascii * list ascii :=
  match fuel with
  | O => (rev acc, l)
  | S f =>
      match l with
      | [] => (rev acc, [])
      | a :: r =>
          match r with
          | b :: r' =>
              if is_exp_pair a b then num_body f r' (b :: a :: acc)
              else if c_numch a then num_body f r (a :: acc)
              else (rev acc, l)
          | [] => if c_numch a then num_body f r (a :: acc) else (rev acc, l)
          end
      end
  end.

Definition lex_number (l : list ascii) : option (list ascii * list ascii) :=
  let '(pre, l1) := match l with
                    | a :: r => if c_dot a then ([a], r) else ([], l)
                    | [] => ([], l)
                    end in
  match l1 with
  | d :: r => if c_digit d then
                let '(body, rest) := num_body (List.length r) r [] in
                Some (pre ++ d :: body, rest)
              else None
  | [] => None
  end.

(* ---------- Lexer.character_constant ---------- *)
Definition lex_char (l : list ascii) : option (list ascii * list ascii) :=
  match l with
  | q :: r =>
      if c_apos q then
        let close (v : list ascii) (r2 : list ascii) :=
          match r2 with
          | q2 :: r3 => if c_apos q2 then Some (v, r3) else None
          | [] => None
          end in
        match r with
        | a :: r1 =>
            if c_bslash a then
              match r1 with
              | b :: r2 => if c_print b then close [a; b] r2
                           else (* elif self.read().isprintable(): the backslash itself *) close [a] r1
              | [] => None
              end
            else if c_print a then close [a] r1 else None
        | [] => None
        end
      else None
  | [] => None
  end.

(* ---------- Lexer.string_constant ---------- *)
Fixpoint str_body (fuel : nat) (l : list ascii) (acc : list ascii) : option (list ascii * list ascii) :=
  match fuel with
  | O => None
  | S f =>
      match l with
      | [] => None                                  (* the closing match fails at eos *)
      | a :: r =>
          if c_quote a then Some (rev acc, r)
          else match r with
               | b :: r' => if c_bslash a && c_quote b then str_body f r' (b :: a :: acc)
                            else str_body f r (a :: acc)
               | [] => str_body f r (a :: acc)
               end
      end
  end.

Definition lex_string (l : list ascii) : option (list ascii * list ascii) :=
  match l with
  | q :: r => if c_quote q then str_body (S (List.length r)) r [] else None
  | [] => None
  end.

(* ---------- Lexer.identifier ---------- *)
Definition c_idch (a : ascii) : bool := c_alpha a || c_digit a || c_us a.
Fixpoint id_body (l : list ascii) (acc : list ascii) : list ascii * list ascii :=
  match l with
  | a :: r => if c_idch a then id_body r (a :: acc) else (rev acc, l)
  | [] => (rev acc, [])
  end.
Definition lex_ident (l : list ascii) : option (list ascii * list ascii) :=
  match l with
  | a :: _ => if c_idch a && negb (c_digit a) then Some (id_body l []) else None
  | [] => None
  end.

(* ---------- Lexer.operator / punctuator ---------- *)
Definition ops2 : list string := ["||"; "&&"; ">>"; "<<"; "!="; ">="; "<="; "=="; "##"].
Definition ops1 : list string := ["-"; "+"; "!"; "*"; "/"; "|"; "&"; "^"; "<"; ">"; "?"; ":"; "~"; "#"; "="; "%"].
Definition puncts : list ascii :=
  ls "(){}[],.;" ++ [ascii_of_N 39; ch_quote; ch_bslash].

Fixpoint starts (p l : list ascii) : option (list ascii) :=
  match p with
  | [] => Some l
  | a :: p' => match l with
               | b :: l' => if Ascii.eqb a b then starts p' l' else None
               | [] => None
               end
  end.
Fixpoint match_any (lits : list string) (l : list ascii) : option (list ascii * list ascii) :=
  match lits with
  | [] => None
  | s :: more => match starts (ls s) l with
                 | Some rest => Some (ls s, rest)
                 | None => match_any more l
                 end
  end.
Definition lex_op (l : list ascii) : option (list ascii * list ascii) := match_any (ops2 ++ ops1) l.
Definition lex_punct (l : list ascii) : option (list ascii * list ascii) :=
  match l with
  | a :: r => if existsb (Ascii.eqb a) puncts then Some ([a], r) else None
  | [] => None
  end.

(* ---------- Lexer.tokenize_one: kind, token text, unread rest ---------- *)
Definition lex_one_rest (l : list ascii) : option (tkind * string * list ascii) :=
  match lex_number l with Some (v, r) => Some (KNum, sl v, r) | None =>
  match lex_char l with Some (v, r) => Some (KChar, sl v, r) | None =>
  match lex_string l with Some (v, r) => Some (KStr, sl v, r) | None =>
  match lex_ident l with Some (v, r) => Some (KId, sl v, r) | None =>
  match lex_op l with Some (v, r) => Some (KOp, sl v, r) | None =>
  match lex_punct l with Some (v, r) => Some (KPunct, sl v, r) | None => None
  end end end end end end.

(* what the implementation uses: the first token, whatever follows *)
Definition lex_one (s : string) : option (tkind * string) :=
  match lex_one_rest (ls s) with Some (k, v, _) => Some (k, v) | None => None end.
(* what ISO C requires of ## : the whole spelling is one token *)
Definition lex_whole (s : string) : option (tkind * string) :=
  match lex_one_rest (ls s) with Some (k, v, []) => Some (k, v) | _ => None end.

(* spelling used for comparison: kind-aware (Token.spelling prints a character
   constant without its quotes; the harness adds them on the Python side) *)
Definition q1 : string := String (ascii_of_N 39) EmptyString.
Definition q2 : string := String ch_quote EmptyString.
Definition spell (k : tkind) (t : string) : string :=
  match k with
  | KChar => (q1 ++ t ++ q1)%string
  | KStr => (q2 ++ t ++ q2)%string
  | _ => t
  end.
