(* C13 - model M of codebasin/config.py:load_database (with
   CompilationDatabase.from_file / from_json, CompileCommand.is_supported and
   source.is_source_file) AS THE CODE IS after the two `fix:` commits of this
   property (see docs/C13.md).  Definitions only; proofs in Proofs/C13*.v.

   What is modelled by hand: the control flow of load_database, the
   filedir / path / include_paths computations with the posixpath functions of
   Model/C13p.v, is_supported, the os.path.exists test (Model/C13fs.v), the
   warnings, the order of the validation errors.
   What is generated from the source: the extension table (Gen/C13_tables.v).
   What is NOT C13's subject and therefore only modelled for a restricted
   command grammar: argparse (extract_incs: -I v, -Iv, -isystem v, and the
   options of the common parser that take a value; a missing value stops the
   parse with a warning and keeps what was parsed so far). *)
From Coq Require Import Bool Arith Ascii String List.
From CBI Require Import Lib.Data Lib.Res Gen.C13_tables Model.C13p Model.C13fs.
Import ListNotations.

(* one JSON item of the database; None = key absent.
   e_argv = `arguments` when present, else shlex.split(command);
   e_argv = None also stands for an item the schema rejects for another reason
   (a property of the wrong JSON type, an item that is not an object): the
   outcome is the same ValueError before anything else is looked at *)
Record entry := { e_dir : option str; e_file : option str; e_argv : option (list str) }.

Record out_entry := { o_file : str; o_incs : list str }.

Inductive warn :=
| WMissing (p : str)        (* "Ignoring non-existent file: {path}" *)
| WUnsupported              (* "Ignoring unsupported compile command ..." *)
| WNoFiles.                 (* "No files found in compilation database ..." *)

(* ---- is_supported ---- *)
Definition extensions : list str := map list_of_string source_extensions.
(* extension = os.path.splitext(filename)[1] *)
Definition is_source_file (f : str) : bool := existsb (str_eqb (splitext_ext f)) extensions.
Definition is_supported (file : str) (argv : list str) : bool :=
  match argv with [] => false | _ => is_source_file file end.

(* ---- the three path computations of load_database ---- *)
Definition filedir (cwd rootdir : str) (directory : option str) : str :=
  match directory with
  | None => rootdir
  | Some d => if isabs d then d else abspath cwd (join rootdir d)
  end.
Definition file_path (cwd fdir file : str) : str :=
  if isabs file then abspath cwd file else abspath cwd (join fdir file).
Definition inc_path (cwd fdir i : str) : str := abspath cwd (join fdir i).

(* ---- argparse on the restricted grammar (see header) ---- *)
Definition s (x : string) : str := list_of_string x.
Definition starts_dash (v : str) : bool :=
  match v with c :: _ :: _ => Ascii.eqb c "-"%char | _ => false end.
Definition is_prefix2 (a b : ascii) (x : str) : option str :=
  match x with c :: d :: r => if Ascii.eqb a c && Ascii.eqb b d then Some r else None | _ => None end.

(* parse_args catches argparse.ArgumentError (a value is missing), warns, and keeps
   what was parsed before the malformed argument; -O takes an OPTIONAL value.
   -I values and -isystem values are collected in two lists (each in command-line
   order); include_paths = the -I list followed by the -isystem list. *)
Fixpoint extract_pair (argv : list str) : list str * list str :=
  match argv with
  | [] => ([], [])
  | a :: r =>
      if str_eqb a (s "-I") then
        match r with
        | v :: r' => if starts_dash v then ([], [])
                     else let (u, y) := extract_pair r' in (v :: u, y)
        | [] => ([], [])
        end
      else if str_eqb a (s "-isystem") then
        match r with
        | v :: r' => if starts_dash v then ([], [])
                     else let (u, y) := extract_pair r' in (u, v :: y)
        | [] => ([], [])
        end
      else if str_eqb a (s "-D") || str_eqb a (s "-include") || str_eqb a (s "-o") then
        match r with
        | v :: r' => if starts_dash v then ([], []) else extract_pair r'
        | [] => ([], [])
        end
      else match is_prefix2 "-" "I" a with
           | Some v => let (u, y) := extract_pair r in (v :: u, y)
           | None => extract_pair r
           end
  end.

Definition extract_incs (argv : list str) : list str :=
  let (u, y) := extract_pair argv in u ++ y.

(* ---- one iteration of the loop `for command in db` ---- *)
Section Load.
Variable fs : fsys.
Variable cwd : str.            (* os.getcwd(): absolute *)
Variable rootdir : str.

Definition cwdloc : loc := fold_left step (split cwd) [].

Definition do_entry (directory : option str) (file : str) (argv : list str)
  : res (list out_entry * list warn) :=
  if negb (is_supported file argv) then Ok ([], [WUnsupported])
  else
    let fdir := filedir cwd rootdir directory in
    let path := file_path cwd fdir file in
    if negb (os_path_exists fs cwdloc path) then Ok ([], [WMissing path])
    else Ok ([ {| o_file := path; o_incs := map (inc_path cwd fdir) (extract_incs (tl argv)) |} ], []).

Fixpoint loop (es : list (option str * str * list str)) : res (list out_entry * list warn) :=
  match es with
  | [] => Ok ([], [])
  | (d, f, a) :: r =>
      match do_entry d f a with
      | Err e => Err e
      | Ok (o, w) =>
          match loop r with
          | Err e => Err e
          | Ok (o', w') => Ok (o ++ o', w ++ w')
          end
      end
  end.

(* schema validation (every object needs `arguments` or `command`) comes first
   and rejects the whole document; then from_json reads instance["file"] of
   every object before the loop starts *)
Fixpoint validated (es : list entry) : option (list (option str * option str * list str)) :=
  match es with
  | [] => Some []
  | e :: r => match e_argv e, validated r with
              | Some a, Some t => Some ((e_dir e, e_file e, a) :: t)
              | _, _ => None
              end
  end.
Fixpoint with_files (es : list (option str * option str * list str)) : option (list (option str * str * list str)) :=
  match es with
  | [] => Some []
  | (d, f, a) :: r => match f, with_files r with
                      | Some f, Some t => Some ((d, f, a) :: t)
                      | _, _ => None
                      end
  end.

Definition load_database (es : list entry) : res (list out_entry * list warn) :=
  match validated es with
  | None => Err "ValueError"%string
  | Some v =>
      match with_files v with
      | None => Err "KeyError"%string
      | Some l =>
          match loop l with
          | Err e => Err e
          | Ok (o, w) => Ok (o, match o with [] => w ++ [WNoFiles] | _ => w end)
          end
      end
  end.
End Load.
